#!/bin/bash
# run every claimed check (quick) on the unchanged tree; refuse to commit when one alarms
cd /verif || exit 2
python3 gen_manifest.py >/dev/null || exit 2
fail=0
for p in $(python3 -c "import json;print(' '.join(c['property_id'] for c in json.load(open('MANIFEST.json'))['checks']))"); do
  out=$(./check $p quick 2>&1); rc=$?
  echo "$out" | tail -1
  if [ $rc -ne 0 ]; then fail=1; echo "$out" | grep -E "VIOLATION|TOOL" | head -5; fi
done
python3-vt - <<'PY' || fail=1
import json, jsonschema, glob
jsonschema.validate(json.load(open('/verif/MANIFEST.json')), json.load(open('/root/.vp/MANIFEST.schema.json')))
sch = json.load(open('/root/.vp/EVIDENCE.schema.json'))
for c in json.load(open('/verif/MANIFEST.json'))['checks']:
    jsonschema.validate(json.load(open(c['evidence_file'])), sch)
print('manifest + evidence valid')
PY
[ $fail -eq 0 ] && echo "ALL QUIET" || echo "SOMETHING ALARMS"
exit $fail
