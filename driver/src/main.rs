// ee-facts: rustc_private driver that dumps the type-checked program of the crate being
// compiled (MIR at mir-opt-level 0 with resolved callees, types, statics, ADTs, unsafe
// inventory) as one JSON file.  Used as RUSTC_WORKSPACE_WRAPPER: argv[1] is the real rustc.
//
// Output: $EE_FACTS_OUT/<crate_name>.json, one write per process.  No verdicts are taken
// here; the rule engine (python) decides.
#![feature(rustc_private)]

extern crate rustc_abi;
extern crate rustc_driver;
extern crate rustc_hir;
extern crate rustc_interface;
extern crate rustc_middle;
extern crate rustc_span;

use rustc_driver::{Callbacks, Compilation};
use rustc_hir::def::DefKind;
use rustc_hir::def_id::{DefId, LocalDefId};
use rustc_interface::interface::Compiler;
use rustc_middle::mir::{
    AggregateKind, BasicBlockData, Body, Const, ConstOperand, Operand, Place, ProjectionElem,
    Rvalue, StatementKind, TerminatorKind,
};
use rustc_middle::ty::print::with_no_trimmed_paths;
use rustc_middle::ty::{self, Instance, InstanceKind, Ty, TyCtxt, TypingEnv};
use rustc_span::Span;
use std::fmt::Write as _;

// ------------------------------------------------------------------ tiny JSON builder
enum J {
    Null,
    Bool(bool),
    Num(i128),
    Str(String),
    Arr(Vec<J>),
    Obj(Vec<(&'static str, J)>),
}

fn s<T: Into<String>>(x: T) -> J {
    J::Str(x.into())
}

impl J {
    fn write(&self, out: &mut String) {
        match self {
            J::Null => out.push_str("null"),
            J::Bool(b) => out.push_str(if *b { "true" } else { "false" }),
            J::Num(n) => {
                let _ = write!(out, "{}", n);
            }
            J::Str(st) => {
                out.push('"');
                for c in st.chars() {
                    match c {
                        '"' => out.push_str("\\\""),
                        '\\' => out.push_str("\\\\"),
                        '\n' => out.push_str("\\n"),
                        '\r' => out.push_str("\\r"),
                        '\t' => out.push_str("\\t"),
                        c if (c as u32) < 0x20 => {
                            let _ = write!(out, "\\u{:04x}", c as u32);
                        }
                        c => out.push(c),
                    }
                }
                out.push('"');
            }
            J::Arr(v) => {
                out.push('[');
                for (i, x) in v.iter().enumerate() {
                    if i > 0 {
                        out.push(',');
                    }
                    x.write(out);
                }
                out.push(']');
            }
            J::Obj(v) => {
                out.push('{');
                for (i, (k, x)) in v.iter().enumerate() {
                    if i > 0 {
                        out.push(',');
                    }
                    let _ = write!(out, "\"{}\":", k);
                    x.write(out);
                }
                out.push('}');
            }
        }
    }
}

// ------------------------------------------------------------------ helpers
fn ty_str<'tcx>(ty: Ty<'tcx>) -> String {
    with_no_trimmed_paths!(format!("{}", ty))
}

fn uid(tcx: TyCtxt<'_>, def_id: DefId) -> String {
    // unique, stable id inside one crate: crate name + verbose def path
    format!(
        "{}{}",
        tcx.crate_name(def_id.krate),
        tcx.def_path(def_id).to_string_no_crate_verbose()
    )
}

fn pretty(tcx: TyCtxt<'_>, def_id: DefId) -> String {
    with_no_trimmed_paths!(tcx.def_path_str(def_id))
}

fn span_j(tcx: TyCtxt<'_>, sp: Span) -> J {
    let sm = tcx.sess.source_map();
    let lo = sm.lookup_char_pos(sp.lo());
    let file = match &lo.file.name {
        rustc_span::FileName::Real(r) => match r.local_path() {
            Some(p) => p.display().to_string(),
            None => format!("{:?}", lo.file.name),
        },
        other => format!("{:?}", other),
    };
    J::Obj(vec![
        ("file", s(file)),
        ("line", J::Num(lo.line as i128)),
        ("col", J::Num(lo.col.0 as i128 + 1)),
        ("exp", J::Bool(sp.from_expansion())),
    ])
}

struct Cx<'tcx> {
    tcx: TyCtxt<'tcx>,
    env: TypingEnv<'tcx>,
}

impl<'tcx> Cx<'tcx> {
    fn place(&self, body: &Body<'tcx>, p: &Place<'tcx>) -> J {
        let mut proj = Vec::new();
        let mut cur = rustc_middle::mir::PlaceTy::from_ty(body.local_decls[p.local].ty);
        for elem in p.projection.iter() {
            let j = match elem {
                ProjectionElem::Deref => s("deref"),
                ProjectionElem::Field(f, ty) => J::Obj(vec![
                    ("f", J::Num(f.as_usize() as i128)),
                    ("ty", s(ty_str(ty))),
                ]),
                ProjectionElem::Downcast(name, vi) => J::Obj(vec![
                    (
                        "dc",
                        s(name.map(|n| n.to_string()).unwrap_or_else(|| {
                            // name from the adt
                            match cur.ty.kind() {
                                ty::Adt(adt, _) => adt.variant(vi).name.to_string(),
                                _ => String::from("?"),
                            }
                        })),
                    ),
                    ("vi", J::Num(vi.as_usize() as i128)),
                ]),
                ProjectionElem::Index(l) => J::Obj(vec![("idx", J::Num(l.as_usize() as i128))]),
                ProjectionElem::ConstantIndex { offset, from_end, .. } => J::Obj(vec![
                    ("cidx", J::Num(offset as i128)),
                    ("from_end", J::Bool(from_end)),
                ]),
                ProjectionElem::Subslice { .. } => s("subslice"),
                ProjectionElem::OpaqueCast(_) => s("opaque"),
                ProjectionElem::UnwrapUnsafeBinder(_) => s("unwrap_binder"),
            };
            proj.push(j);
            cur = cur.projection_ty(self.tcx, elem);
        }
        J::Obj(vec![
            ("l", J::Num(p.local.as_usize() as i128)),
            ("p", J::Arr(proj)),
            ("ty", s(ty_str(cur.ty))),
        ])
    }

    fn fn_ref(&self, def_id: DefId, args: ty::GenericArgsRef<'tcx>) -> J {
        let tcx = self.tcx;
        let mut o: Vec<(&'static str, J)> = vec![
            ("def", s(pretty(tcx, def_id))),
            (
                "path",
                s(with_no_trimmed_paths!(tcx.def_path_str_with_args(def_id, args))),
            ),
            ("crate", s(tcx.crate_name(def_id.krate).to_string())),
            ("uid", s(uid(tcx, def_id))),
            ("local", J::Bool(def_id.is_local())),
            (
                "args",
                J::Arr(
                    args.iter()
                        .map(|a| s(with_no_trimmed_paths!(format!("{}", a))))
                        .collect(),
                ),
            ),
        ];
        if let Some(tr) = tcx.trait_of_assoc(def_id) {
            o.push(("trait", s(pretty(tcx, tr))));
        }
        if let Some(im) = tcx.impl_of_assoc(def_id) {
            let self_ty = tcx.type_of(im).instantiate_identity().skip_norm_wip();
            o.push(("impl_self", s(ty_str(self_ty))));
        }
        // resolve
        let resolved = Instance::try_resolve(tcx, self.env, def_id, args);
        let r = match resolved {
            Ok(Some(inst)) => {
                let (kind, rid): (&str, Option<DefId>) = match inst.def {
                    InstanceKind::Item(d) => ("item", Some(d)),
                    InstanceKind::Intrinsic(d) => ("intrinsic", Some(d)),
                    InstanceKind::Virtual(d, _) => ("virtual", Some(d)),
                    InstanceKind::ClosureOnceShim { call_once, .. } => {
                        ("closure_once_shim", Some(call_once))
                    }
                    InstanceKind::FnPtrShim(d, _) => ("fn_ptr_shim", Some(d)),
                    InstanceKind::ReifyShim(d, _) => ("reify_shim", Some(d)),
                    InstanceKind::VTableShim(d) => ("vtable_shim", Some(d)),
                    InstanceKind::DropGlue(d, _) => ("drop_glue", Some(d)),
                    InstanceKind::CloneShim(d, _) => ("clone_shim", Some(d)),
                    _ => ("other", None),
                };
                let mut ro: Vec<(&'static str, J)> = vec![("kind", s(kind))];
                if let Some(d) = rid {
                    ro.push(("def", s(pretty(tcx, d))));
                    ro.push(("uid", s(uid(tcx, d))));
                    ro.push(("local", J::Bool(d.is_local())));
                    ro.push(("crate", s(tcx.crate_name(d.krate).to_string())));
                    if let Some(im) = tcx.impl_of_assoc(d) {
                        let self_ty = tcx.type_of(im).instantiate_identity().skip_norm_wip();
                        ro.push(("impl_self", s(ty_str(self_ty))));
                        if tcx.impl_opt_trait_ref(im).is_some() {
                            ro.push(("derived", J::Bool(tcx.is_automatically_derived(im))));
                        }
                    }
                }
                ro.push((
                    "args",
                    J::Arr(
                        inst.args
                            .iter()
                            .map(|a| s(with_no_trimmed_paths!(format!("{}", a))))
                            .collect(),
                    ),
                ));
                J::Obj(ro)
            }
            Ok(None) => J::Obj(vec![("kind", s("unresolved"))]),
            Err(_) => J::Obj(vec![("kind", s("error"))]),
        };
        o.push(("resolved", r));
        J::Obj(o)
    }

    fn constant(&self, c: &ConstOperand<'tcx>) -> J {
        let ty = c.const_.ty();
        let mut o: Vec<(&'static str, J)> = vec![
            ("k", s("const")),
            ("ty", s(ty_str(ty))),
            ("s", s(with_no_trimmed_paths!(format!("{}", c.const_)))),
        ];
        match ty.kind() {
            ty::FnDef(def_id, args) => {
                o.push(("fn", self.fn_ref(*def_id, args)));
            }
            _ => {}
        }
        // integer-like scalars
        if ty.is_integral() || ty.is_bool() || ty.is_char() {
            if let Some(sc) = c.const_.try_eval_scalar_int(self.tcx, self.env) {
                let size = sc.size();
                let bits = sc.to_bits(size);
                let v: i128 = if ty.is_signed() {
                    size.sign_extend(bits) as i128
                } else {
                    bits as i128
                };
                o.push(("int", J::Num(v)));
            }
        }
        if let Const::Unevaluated(uv, _) = c.const_ {
            o.push(("uneval", s(pretty(self.tcx, uv.def))));
            o.push(("uneval_uid", s(uid(self.tcx, uv.def))));
            if let Some(p) = uv.promoted {
                o.push(("promoted", J::Num(p.as_usize() as i128)));
            }
        }
        // statics referenced as `&STATIC` show up as a pointer constant to an alloc
        if let Const::Val(rustc_middle::mir::ConstValue::Scalar(
            rustc_middle::mir::interpret::Scalar::Ptr(ptr, _),
        ), _) = c.const_
        {
            let alloc_id = ptr.provenance.alloc_id();
            if let Some(rustc_middle::mir::interpret::GlobalAlloc::Static(did)) =
                self.tcx.try_get_global_alloc(alloc_id)
            {
                o.push(("static", s(uid(self.tcx, did))));
            }
        }
        J::Obj(o)
    }

    fn operand(&self, body: &Body<'tcx>, op: &Operand<'tcx>) -> J {
        match op {
            Operand::Copy(p) => J::Obj(vec![("k", s("copy")), ("pl", self.place(body, p))]),
            Operand::Move(p) => J::Obj(vec![("k", s("move")), ("pl", self.place(body, p))]),
            Operand::Constant(c) => self.constant(c),
            #[allow(unreachable_patterns)]
            _ => J::Obj(vec![("k", s("other")), ("dbg", s(format!("{:?}", op)))]),
        }
    }

    fn rvalue(&self, body: &Body<'tcx>, rv: &Rvalue<'tcx>) -> J {
        let tcx = self.tcx;
        match rv {
            Rvalue::Use(op, _) => J::Obj(vec![("k", s("use")), ("op", self.operand(body, op))]),
            Rvalue::Repeat(op, _) => {
                J::Obj(vec![("k", s("repeat")), ("op", self.operand(body, op))])
            }
            Rvalue::Ref(_, bk, p) => J::Obj(vec![
                ("k", s("ref")),
                (
                    "mut",
                    J::Bool(matches!(bk, rustc_middle::mir::BorrowKind::Mut { .. })),
                ),
                ("pl", self.place(body, p)),
            ]),
            Rvalue::RawPtr(_, p) => J::Obj(vec![("k", s("rawptr")), ("pl", self.place(body, p))]),
            Rvalue::ThreadLocalRef(d) => {
                J::Obj(vec![("k", s("tls")), ("def", s(uid(tcx, *d)))])
            }
            Rvalue::Cast(kind, op, ty) => J::Obj(vec![
                ("k", s("cast")),
                ("cast", s(format!("{:?}", kind))),
                ("op", self.operand(body, op)),
                ("from", s(ty_str(op.ty(body, tcx)))),
                ("to", s(ty_str(*ty))),
            ]),
            Rvalue::BinaryOp(op, ab) => J::Obj(vec![
                ("k", s("binop")),
                ("op", s(format!("{:?}", op))),
                ("a", self.operand(body, &ab.0)),
                ("b", self.operand(body, &ab.1)),
                ("aty", s(ty_str(ab.0.ty(body, tcx)))),
            ]),
            Rvalue::UnaryOp(op, a) => J::Obj(vec![
                ("k", s("unop")),
                ("op", s(format!("{:?}", op))),
                ("a", self.operand(body, a)),
                ("aty", s(ty_str(a.ty(body, tcx)))),
            ]),
            Rvalue::Discriminant(p) => {
                J::Obj(vec![("k", s("discr")), ("pl", self.place(body, p))])
            }
            Rvalue::Aggregate(kind, ops) => {
                let mut o: Vec<(&'static str, J)> = vec![("k", s("agg"))];
                match &**kind {
                    AggregateKind::Array(t) => {
                        o.push(("agg", s("array")));
                        o.push(("elem", s(ty_str(*t))));
                    }
                    AggregateKind::Tuple => o.push(("agg", s("tuple"))),
                    AggregateKind::Adt(did, vi, _, _, _) => {
                        o.push(("agg", s("adt")));
                        o.push(("adt", s(pretty(tcx, *did))));
                        let adt = tcx.adt_def(*did);
                        o.push(("variant", s(adt.variant(*vi).name.to_string())));
                        o.push(("vi", J::Num(vi.as_usize() as i128)));
                        o.push(("is_enum", J::Bool(adt.is_enum())));
                    }
                    AggregateKind::Closure(did, _) => {
                        o.push(("agg", s("closure")));
                        o.push(("closure", s(uid(tcx, *did))));
                    }
                    other => {
                        o.push(("agg", s("other")));
                        o.push(("dbg", s(format!("{:?}", other))));
                    }
                }
                o.push((
                    "ops",
                    J::Arr(ops.iter().map(|x| self.operand(body, x)).collect()),
                ));
                J::Obj(o)
            }
            Rvalue::CopyForDeref(p) => {
                J::Obj(vec![("k", s("copy_for_deref")), ("pl", self.place(body, p))])
            }
            other => J::Obj(vec![("k", s("other")), ("dbg", s(format!("{:?}", other)))]),
        }
    }

    fn block(&self, body: &Body<'tcx>, bb: &BasicBlockData<'tcx>) -> J {
        let tcx = self.tcx;
        let mut stmts = Vec::new();
        for st in &bb.statements {
            let j = match &st.kind {
                StatementKind::Assign(b) => {
                    let (pl, rv) = &**b;
                    Some(J::Obj(vec![
                        ("k", s("assign")),
                        ("pl", self.place(body, pl)),
                        ("rv", self.rvalue(body, rv)),
                        ("span", span_j(tcx, st.source_info.span)),
                    ]))
                }
                StatementKind::SetDiscriminant { place, variant_index } => Some(J::Obj(vec![
                    ("k", s("set_discr")),
                    ("pl", self.place(body, place)),
                    ("vi", J::Num(variant_index.as_usize() as i128)),
                ])),
                StatementKind::StorageLive(l) => Some(J::Obj(vec![
                    ("k", s("live")),
                    ("l", J::Num(l.as_usize() as i128)),
                ])),
                StatementKind::StorageDead(l) => Some(J::Obj(vec![
                    ("k", s("dead")),
                    ("l", J::Num(l.as_usize() as i128)),
                ])),
                StatementKind::Intrinsic(i) => Some(J::Obj(vec![
                    ("k", s("intrinsic")),
                    ("dbg", s(format!("{:?}", i))),
                ])),
                _ => None,
            };
            if let Some(j) = j {
                stmts.push(j);
            }
        }
        let term = bb.terminator();
        let bbn = |b: rustc_middle::mir::BasicBlock| J::Num(b.as_usize() as i128);
        let unwind_j = |u: &rustc_middle::mir::UnwindAction| match u {
            rustc_middle::mir::UnwindAction::Cleanup(b) => bbn(*b),
            other => s(format!("{:?}", other)),
        };
        let t = match &term.kind {
            TerminatorKind::Goto { target } => {
                J::Obj(vec![("k", s("goto")), ("target", bbn(*target))])
            }
            TerminatorKind::SwitchInt { discr, targets } => J::Obj(vec![
                ("k", s("switch")),
                ("discr", self.operand(body, discr)),
                ("dty", s(ty_str(discr.ty(body, tcx)))),
                (
                    "targets",
                    J::Arr(
                        targets
                            .iter()
                            .map(|(v, b)| J::Arr(vec![J::Num(v as i128), bbn(b)]))
                            .collect(),
                    ),
                ),
                ("otherwise", bbn(targets.otherwise())),
            ]),
            TerminatorKind::UnwindResume => J::Obj(vec![("k", s("resume"))]),
            TerminatorKind::UnwindTerminate(_) => J::Obj(vec![("k", s("terminate"))]),
            TerminatorKind::Return => J::Obj(vec![("k", s("return"))]),
            TerminatorKind::Unreachable => J::Obj(vec![("k", s("unreachable"))]),
            TerminatorKind::Drop { place, target, unwind, .. } => J::Obj(vec![
                ("k", s("drop")),
                ("pl", self.place(body, place)),
                ("target", bbn(*target)),
                ("unwind", unwind_j(unwind)),
            ]),
            TerminatorKind::Call { func, args, destination, target, unwind, fn_span, .. } => {
                let mut o: Vec<(&'static str, J)> = vec![("k", s("call"))];
                o.push(("func", self.operand(body, func)));
                o.push(("fty", s(ty_str(func.ty(body, tcx)))));
                o.push((
                    "args",
                    J::Arr(args.iter().map(|a| self.operand(body, &a.node)).collect()),
                ));
                o.push((
                    "arg_tys",
                    J::Arr(args.iter().map(|a| s(ty_str(a.node.ty(body, tcx)))).collect()),
                ));
                o.push(("dest", self.place(body, destination)));
                o.push(("target", target.map(bbn).unwrap_or(J::Null)));
                o.push(("unwind", unwind_j(unwind)));
                o.push(("fn_span", span_j(tcx, *fn_span)));
                J::Obj(o)
            }
            TerminatorKind::TailCall { func, .. } => J::Obj(vec![
                ("k", s("tailcall")),
                ("func", self.operand(body, func)),
            ]),
            TerminatorKind::Assert { cond, expected, msg, target, unwind } => {
                let kind = {
                    let d = format!("{:?}", msg);
                    // variant name only
                    d.split(|c: char| c == '(' || c == ' ' || c == '{')
                        .next()
                        .unwrap_or("")
                        .to_string()
                };
                J::Obj(vec![
                    ("k", s("assert")),
                    ("cond", self.operand(body, cond)),
                    ("expected", J::Bool(*expected)),
                    ("kind", s(kind)),
                    ("msg", s(format!("{:?}", msg))),
                    ("target", bbn(*target)),
                    ("unwind", unwind_j(unwind)),
                ])
            }
            TerminatorKind::FalseEdge { real_target, .. } => {
                J::Obj(vec![("k", s("goto")), ("target", bbn(*real_target))])
            }
            TerminatorKind::FalseUnwind { real_target, .. } => {
                J::Obj(vec![("k", s("goto")), ("target", bbn(*real_target))])
            }
            other => J::Obj(vec![("k", s("other")), ("dbg", s(format!("{:?}", other)))]),
        };
        J::Obj(vec![
            ("cleanup", J::Bool(bb.is_cleanup)),
            ("stmts", J::Arr(stmts)),
            ("term", t),
            ("span", span_j(tcx, term.source_info.span)),
        ])
    }
}

fn dump_promoted<'tcx>(tcx: TyCtxt<'tcx>, ldid: LocalDefId) -> Vec<J> {
    let def_id = ldid.to_def_id();
    let kind = tcx.def_kind(def_id);
    if !matches!(kind, DefKind::Fn | DefKind::AssocFn | DefKind::Closure) {
        return Vec::new();
    }
    let env = TypingEnv::post_analysis(tcx, def_id);
    let cx = Cx { tcx, env };
    let mut out = Vec::new();
    for (idx, body) in tcx.promoted_mir(def_id).iter_enumerated() {
        let locals: Vec<J> = body
            .local_decls
            .iter()
            .map(|d| J::Obj(vec![("ty", s(ty_str(d.ty))), ("mut", J::Bool(d.mutability.is_mut()))]))
            .collect();
        let blocks: Vec<J> = body.basic_blocks.iter().map(|bb| cx.block(body, bb)).collect();
        out.push(J::Obj(vec![
            ("id", s(format!("{}::promoted[{}]", uid(tcx, def_id), idx.as_usize()))),
            ("name", s(format!("{}::promoted[{}]", pretty(tcx, def_id), idx.as_usize()))),
            ("kind", s("Promoted")),
            ("span", span_j(tcx, tcx.def_span(def_id))),
            ("arg_count", J::Num(0)),
            ("parent", s(uid(tcx, def_id))),
            ("locals", J::Arr(locals)),
            ("vars", J::Arr(Vec::new())),
            ("blocks", J::Arr(blocks)),
        ]));
    }
    out
}

fn dump_body<'tcx>(tcx: TyCtxt<'tcx>, ldid: LocalDefId) -> Option<J> {
    let def_id = ldid.to_def_id();
    let kind = tcx.def_kind(def_id);
    let body: &Body<'tcx> = match kind {
        DefKind::Fn | DefKind::AssocFn | DefKind::Closure => tcx.optimized_mir(def_id),
        DefKind::Static { .. } | DefKind::Const { .. } | DefKind::AssocConst { .. } => tcx.mir_for_ctfe(def_id),
        DefKind::AnonConst | DefKind::InlineConst => return None,
        DefKind::Ctor(..) => return None,
        _ => return None,
    };
    let env = TypingEnv::post_analysis(tcx, def_id);
    let cx = Cx { tcx, env };
    let mut o: Vec<(&'static str, J)> = vec![
        ("id", s(uid(tcx, def_id))),
        ("name", s(pretty(tcx, def_id))),
        ("kind", s(format!("{:?}", kind))),
        ("span", span_j(tcx, tcx.def_span(def_id))),
        ("arg_count", J::Num(body.arg_count as i128)),
    ];
    if matches!(kind, DefKind::Fn | DefKind::AssocFn) {
        o.push(("vis", s(format!("{:?}", tcx.visibility(def_id)))));
        o.push(("pub", J::Bool(tcx.visibility(def_id).is_public())));
        // nameable from outside the crate (pub item on a path of pub modules / re-exports), as the privacy pass computed it
        let ev = tcx.effective_visibilities(());
        let reach = DefId::from(def_id).as_local().map(|l| ev.is_reachable(l)).unwrap_or(false);
        o.push(("reachable", J::Bool(reach)));
        let sig = tcx.fn_sig(def_id).instantiate_identity().skip_norm_wip();
        o.push(("sig", s(with_no_trimmed_paths!(format!("{}", sig)))));
    }
    // parent (for closures: the enclosing fn; for nested items: the lexical parent)
    let parent = tcx.parent(def_id);
    o.push(("parent", s(uid(tcx, parent))));
    if kind == DefKind::Closure {
        let tr = tcx.typeck_root_def_id(def_id);
        o.push(("root", s(uid(tcx, tr))));
    }
    if let Some(im) = tcx.impl_of_assoc(def_id) {
        let self_ty = tcx.type_of(im).instantiate_identity().skip_norm_wip();
        o.push(("impl_self", s(ty_str(self_ty))));
        if let Some(tr) = tcx.impl_opt_trait_ref(im) {
            let tr = tr.instantiate_identity().skip_norm_wip();
            o.push(("impl_trait", s(pretty(tcx, tr.def_id))));
            o.push(("impl_trait_ref", s(with_no_trimmed_paths!(format!("{}", tr)))));
            o.push(("derived", J::Bool(tcx.is_automatically_derived(im))));
        }
    }
    let locals: Vec<J> = body
        .local_decls
        .iter()
        .map(|d| {
            J::Obj(vec![
                ("ty", s(ty_str(d.ty))),
                ("mut", J::Bool(d.mutability.is_mut())),
            ])
        })
        .collect();
    o.push(("locals", J::Arr(locals)));
    let dbg: Vec<J> = body
        .var_debug_info
        .iter()
        .filter_map(|v| match &v.value {
            rustc_middle::mir::VarDebugInfoContents::Place(p) => Some(J::Obj(vec![
                ("name", s(v.name.to_string())),
                ("pl", cx.place(body, p)),
            ])),
            _ => None,
        })
        .collect();
    o.push(("vars", J::Arr(dbg)));
    let blocks: Vec<J> = body.basic_blocks.iter().map(|bb| cx.block(body, bb)).collect();
    o.push(("blocks", J::Arr(blocks)));
    Some(J::Obj(o))
}

// ------------------------------------------------------------------ unsafe inventory (HIR)
struct UnsafeScan<'tcx> {
    tcx: TyCtxt<'tcx>,
    found: Vec<J>,
}

impl<'tcx> rustc_hir::intravisit::Visitor<'tcx> for UnsafeScan<'tcx> {
    type NestedFilter = rustc_middle::hir::nested_filter::All;
    fn maybe_tcx(&mut self) -> Self::MaybeTyCtxt {
        self.tcx
    }
    fn visit_block(&mut self, b: &'tcx rustc_hir::Block<'tcx>) {
        if let rustc_hir::BlockCheckMode::UnsafeBlock(src) = b.rules {
            if matches!(src, rustc_hir::UnsafeSource::UserProvided) {
                self.found.push(J::Obj(vec![
                    ("what", s("unsafe_block")),
                    ("span", span_j(self.tcx, b.span)),
                ]));
            }
        }
        rustc_hir::intravisit::walk_block(self, b);
    }
}

struct Cb;

impl Callbacks for Cb {
    fn after_analysis<'tcx>(&mut self, _c: &Compiler, tcx: TyCtxt<'tcx>) -> Compilation {
        let out_dir = match std::env::var("EE_FACTS_OUT") {
            Ok(d) => d,
            Err(_) => return Compilation::Continue,
        };
        let crate_name = tcx.crate_name(rustc_hir::def_id::LOCAL_CRATE).to_string();
        let mut bodies = Vec::new();
        let mut promoted = Vec::new();
        for ldid in tcx.mir_keys(()).iter() {
            if let Some(j) = dump_body(tcx, *ldid) {
                bodies.push(j);
            }
            promoted.extend(dump_promoted(tcx, *ldid));
        }
        // statics, adts, fns (unsafe), impls (unsafe / Drop)
        let mut statics = Vec::new();
        let mut adts = Vec::new();
        let mut unsafe_items = Vec::new();
        let mut impls = Vec::new();
        for ldid in tcx.hir_crate_items(()).definitions() {
            let def_id = ldid.to_def_id();
            match tcx.def_kind(def_id) {
                DefKind::Static { mutability, nested, .. } => {
                    let ty = tcx.type_of(def_id).instantiate_identity().skip_norm_wip();
                    statics.push(J::Obj(vec![
                        ("id", s(uid(tcx, def_id))),
                        ("name", s(pretty(tcx, def_id))),
                        ("ty", s(ty_str(ty))),
                        ("mut", J::Bool(mutability.is_mut())),
                        ("nested", J::Bool(nested)),
                        ("parent", s(uid(tcx, tcx.parent(def_id)))),
                        ("thread_local", J::Bool(tcx.is_thread_local_static(def_id))),
                        ("span", span_j(tcx, tcx.def_span(def_id))),
                    ]));
                }
                DefKind::Struct | DefKind::Enum | DefKind::Union => {
                    let adt = tcx.adt_def(def_id);
                    let env = TypingEnv::post_analysis(tcx, def_id);
                    let self_ty = tcx.type_of(def_id).instantiate_identity().skip_norm_wip();
                    let variants: Vec<J> = adt
                        .variants()
                        .iter()
                        .map(|v| {
                            J::Obj(vec![
                                ("name", s(v.name.to_string())),
                                (
                                    "explicit_discr",
                                    J::Bool(matches!(v.discr, rustc_middle::ty::VariantDiscr::Explicit(_))),
                                ),
                                (
                                    "fields",
                                    J::Arr(
                                        v.fields
                                            .iter()
                                            .map(|f| {
                                                J::Obj(vec![
                                                    ("name", s(f.name.to_string())),
                                                    (
                                                        "ty",
                                                        s(ty_str(
                                                            tcx.type_of(f.did)
                                                                .instantiate_identity()
                                                                .skip_norm_wip(),
                                                        )),
                                                    ),
                                                    ("pub", J::Bool(f.vis.is_public())),
                                                ])
                                            })
                                            .collect(),
                                    ),
                                ),
                            ])
                        })
                        .collect();
                    adts.push(J::Obj(vec![
                        ("id", s(uid(tcx, def_id))),
                        ("name", s(pretty(tcx, def_id))),
                        ("kind", s(format!("{:?}", tcx.def_kind(def_id)))),
                        ("pub", J::Bool(tcx.visibility(def_id).is_public())),
                        ("freeze", J::Bool(self_ty.is_freeze(tcx, env))),
                        ("needs_drop", J::Bool(self_ty.needs_drop(tcx, env))),
                        ("variants", J::Arr(variants)),
                    ]));
                }
                DefKind::Fn | DefKind::AssocFn => {
                    let sig = tcx.fn_sig(def_id).skip_binder();
                    if !sig.safety().is_safe() {
                        unsafe_items.push(J::Obj(vec![
                            ("what", s("unsafe_fn")),
                            ("name", s(pretty(tcx, def_id))),
                            ("span", span_j(tcx, tcx.def_span(def_id))),
                        ]));
                    }
                    let abi = format!("{:?}", sig.abi());
                    if !abi.starts_with("Rust") {
                        unsafe_items.push(J::Obj(vec![
                            ("what", s("extern_abi")),
                            ("abi", s(abi)),
                            ("name", s(pretty(tcx, def_id))),
                            ("span", span_j(tcx, tcx.def_span(def_id))),
                        ]));
                    }
                }
                DefKind::Impl { of_trait } => {
                    let self_ty = tcx.type_of(def_id).instantiate_identity().skip_norm_wip();
                    let mut o: Vec<(&'static str, J)> = vec![
                        ("id", s(uid(tcx, def_id))),
                        ("self", s(ty_str(self_ty))),
                        ("span", span_j(tcx, tcx.def_span(def_id))),
                    ];
                    if of_trait {
                        let tr = tcx.impl_trait_ref(def_id).instantiate_identity().skip_norm_wip();
                        o.push(("trait", s(pretty(tcx, tr.def_id))));
                        o.push(("trait_ref", s(with_no_trimmed_paths!(format!("{}", tr)))));
                        o.push(("derived", J::Bool(tcx.is_automatically_derived(def_id))));
                        // a crate-local trait that cannot be named from outside has a closed set of impls
                        if let Some(tl) = tr.def_id.as_local() {
                            o.push(("trait_local", J::Bool(true)));
                            o.push(("trait_reachable", J::Bool(tcx.effective_visibilities(()).is_reachable(tl))));
                        }
                        let safety = tcx.impl_trait_header(def_id).safety;
                        if !safety.is_safe() && !tcx.def_span(def_id).from_expansion() {
                            unsafe_items.push(J::Obj(vec![
                                ("what", s("unsafe_impl")),
                                ("span", span_j(tcx, tcx.def_span(def_id))),
                            ]));
                        }
                    }
                    impls.push(J::Obj(o));
                }
                DefKind::ForeignMod => {
                    unsafe_items.push(J::Obj(vec![
                        ("what", s("extern_block")),
                        ("span", span_j(tcx, tcx.def_span(def_id))),
                    ]));
                }
                _ => {}
            }
        }
        let mut scan = UnsafeScan { tcx, found: Vec::new() };
        tcx.hir_visit_all_item_likes_in_crate(&mut scan);
        unsafe_items.extend(scan.found);

        let root = J::Obj(vec![
            ("crate", s(crate_name.clone())),
            ("schema", J::Num(1)),
            (
                "cfg_test",
                J::Bool(tcx.sess.opts.test),
            ),
            ("bodies", J::Arr(bodies)),
            ("promoted", J::Arr(promoted)),
            ("statics", J::Arr(statics)),
            ("adts", J::Arr(adts)),
            ("impls", J::Arr(impls)),
            ("unsafe", J::Arr(unsafe_items)),
        ]);
        let mut out = String::new();
        root.write(&mut out);
        let path = format!("{}/{}.json", out_dir, crate_name);
        std::fs::write(&path, out).expect("ee-facts: cannot write fact file");
        Compilation::Continue
    }
}

fn main() {
    let mut args: Vec<String> = std::env::args().collect();
    // RUSTC_WORKSPACE_WRAPPER: argv[1] is the path of the real rustc; drop it.
    if args.len() > 1 && (args[1].ends_with("rustc") || args[1].contains("/rustc")) {
        args.remove(1);
    }
    let mut cb = Cb;
    rustc_driver::run_compiler(&args, &mut cb);
}
