// C13: a registration appears to take effect entirely before or entirely after any evaluation.
// `tornop` is flipped between two complete registrations:
//   A = (CALC,   handler returning 1)   -> `x tornop 0` yields 1 and leaves x alone
//   B = (SETTER, handler returning 2)   -> `x tornop 0` yields None and binds x = 2
// An evaluation that pairs A's type with B's handler (yields 2, x untouched) or B's type with A's handler
// (yields None, x = 1) used a registration that never existed.
use expression_engine::{parse_expression, register_infix_op, Context, InfixOpAssociativity, InfixOpType, Value};
use std::sync::atomic::{AtomicBool, Ordering};
use std::sync::Arc;
use std::time::{Duration, Instant};

fn reg_a() {
    register_infix_op("tornop", 100, InfixOpType::CALC, InfixOpAssociativity::LEFT, Arc::new(|_, _| Ok(Value::from(1))));
}
fn reg_b() {
    register_infix_op("tornop", 100, InfixOpType::SETTER, InfixOpAssociativity::LEFT, Arc::new(|_, _| Ok(Value::from(2))));
}

#[test]
fn operator_type_and_handler_come_from_one_registration() {
    reg_a();
    let ast = parse_expression("x tornop 0").unwrap();
    let stop = Arc::new(AtomicBool::new(false));
    let s2 = stop.clone();
    let flipper = std::thread::spawn(move || {
        let mut i = 0u64;
        while !s2.load(Ordering::Relaxed) {
            if i % 2 == 0 { reg_b() } else { reg_a() }
            i += 1;
        }
    });
    let deadline = Instant::now() + Duration::from_secs(8);
    let mut torn = None;
    let mut n = 0u64;
    while Instant::now() < deadline && torn.is_none() {
        let mut ctx = Context::new();
        ctx.set_variable("x", Value::from(7));
        let r = ast.exec(&mut ctx).unwrap();
        let x = ctx.get_variable("x").unwrap();
        let a = r == Value::from(1) && x == Value::from(7);
        let b = r == Value::None && x == Value::from(2);
        if !(a || b) {
            torn = Some((r, x));
        }
        n += 1;
    }
    stop.store(true, Ordering::Relaxed);
    flipper.join().unwrap();
    assert!(torn.is_none(), "after {} evaluations: result {:?} with x = {:?} matches neither registration", n, torn.as_ref().unwrap().0, torn.as_ref().unwrap().1);
}
