#!/usr/bin/env python3
"""fills the SEEDED-TABLE of DESIGN.md from seeded/*/meta.json and the last `seeded.py run --all` result"""
import json, os, re, sys
V = os.path.dirname(os.path.dirname(os.path.abspath(__file__)))
res = {r['seed']: r for r in json.load(open(os.path.join(V, 'selftest', 'seeded_last_run.json')))}
rows = ['| seed | property | what the change does | needs | result | caught by (all checks run) | first report of the property\'s own check |', '|---|---|---|---|---|---|---|']
for name in sorted(os.listdir(os.path.join(V, 'seeded'))):
    mp = os.path.join(V, 'seeded', name, 'meta.json')
    if not os.path.exists(mp):
        continue
    m = json.load(open(mp))
    r = res.get(name, {})
    det = r.get('detail', '')
    mm = re.match(r"by (\[.*?\])\s*(.*)", det, re.S)
    by = mm.group(1) if mm else ''
    first = (mm.group(2) if mm else '').split(';')[0][:160].replace('|', '\\|')
    def cut(s, n):
        s = (s or '').replace('\n', ' ').replace('|', '\\|')
        return s if len(s) <= n else s[:n - 1] + '…'
    rows.append('| %s | %s | %s | %s | %s | %s | %s |' % (name, m['property'], cut(m.get('summary'), 230), cut(m.get('needs'), 150), r.get('status', '?') + (' ' + m.get('note', '') if m.get('note') else ''), by.replace("'", ''), first))
p = os.path.join(V, 'DESIGN.md')
t = open(p).read()
t = re.sub(r'SEEDED-TABLE-BEGIN.*?SEEDED-TABLE-END', 'SEEDED-TABLE-BEGIN\n' + '\n'.join(rows) + '\nSEEDED-TABLE-END', t, flags=re.S)
open(p, 'w').write(t)
print(len(rows) - 2, 'rows')

# ---- refactoring table (rows only; the prose above the table is hand-written)
rp = os.path.join(V, 'selftest', 'refactors_last_run.json')
if os.path.exists(rp):
    rres = {r['refactor']: r for r in json.load(open(rp))}
    rrows = ['| refactoring | what it changes | all 17 quick checks |', '|---|---|---|']
    def rkey(n):
        a, b = n[1:].split('-')
        return (int(a), int(b))
    for name in sorted(os.listdir(os.path.join(V, 'refactors')), key=rkey):
        mp = os.path.join(V, 'refactors', name, 'meta.json')
        if not os.path.exists(mp):
            continue
        m = json.load(open(mp))
        s = (m.get('summary') or '').replace('\n', ' ').replace('|', '\\|')
        s = s if len(s) <= 260 else s[:259] + '…'
        rrows.append('| %s | %s | %s |' % (name, s, rres.get(name, {}).get('status', '?')))
    t = open(p).read()
    m = re.search(r'(REFACTOR-TABLE-BEGIN\n)(.*?)(\| refactoring \|.*?)(REFACTOR-TABLE-END)', t, flags=re.S)
    if m:
        t = t[:m.start()] + m.group(1) + m.group(2) + '\n'.join(rrows) + '\n' + m.group(4) + t[m.end():]
        open(p, 'w').write(t)
        print(len(rrows) - 2, 'refactor rows')

# ---- current rule set per property (from the evidence the last quick runs wrote)
rows3 = ['| property | rules that produced obligations on the last run (count) |', '|---|---|']
for pid in ['C%02d' % i for i in range(1, 19)]:
    ep = os.path.join(V, 'evidence', pid + '.json')
    if not os.path.exists(ep):
        rows3.append('| %s | not applicable |' % pid)
        continue
    e = json.load(open(ep))
    br = e.get('coverage', {}).get('by_rule', {})
    rows3.append('| %s | %s |' % (pid, ', '.join('%s (%d)' % (k, sum(v.values())) for k, v in br.items())))
t = open(p).read()
if 'RULESET-TABLE-BEGIN' in t:
    t = re.sub(r'RULESET-TABLE-BEGIN.*?RULESET-TABLE-END', 'RULESET-TABLE-BEGIN\n' + '\n'.join(rows3) + '\nRULESET-TABLE-END', t, flags=re.S)
    open(p, 'w').write(t)
    print('ruleset table')
