#!/usr/bin/env python3
"""Seeded changes (written by independent sub-agents): confirm and run the checks.
  seeded.py import <Cxx> <A|B> <src dir>     confirm (tests pass with patch, demo fails with / passes without) and store under /verif/seeded/
  seeded.py run [--only X] [--tier quick|thorough]   run the property's check (and all checks with --all) against every stored seed
Scratch copies live under /tmp and are removed immediately."""
import json, os, shutil, subprocess, sys, tempfile
HERE = os.path.dirname(os.path.abspath(__file__))
VERIF = os.path.dirname(HERE)
SEEDED = os.path.join(VERIF, 'seeded')
REPO = '/repo'


def sh(cmd, cwd, env=None, timeout=900):
    e = dict(os.environ)
    if env:
        e.update(env)
    p = subprocess.run(cmd, cwd=cwd, env=e, stdout=subprocess.PIPE, stderr=subprocess.STDOUT, text=True, timeout=timeout)
    return p.returncode, p.stdout


def scratch():
    d = tempfile.mkdtemp(prefix='ee-seed-')
    dst = os.path.join(d, 'repo')
    shutil.copytree(REPO, dst, ignore=shutil.ignore_patterns('target', '.git'))
    return d, dst


def apply_patch(dst, patch):
    rc, out = sh(['patch', '-p1', '--no-backup-if-mismatch', '-i', patch], dst)
    return rc == 0, out


OLD_BASE = '3bf2588'      # the commit the stored patches of waves 1-7 were written against
OLD_BASE_SKIP = 'REG-RECORD:|get_op_type+get_handler'   # 08c3146 repaired the two-lookup read (get_op_type, then get_handler) after that; REG-RECORD reports exactly that pair on the old base


def tree_with(patch, force_old=False):
    """(tmp dir, tree, extra env, ok): /repo's working tree with the patch applied; if the patch no longer applies there
    (it rewrites code a later fix: commit touched) — or applies but no longer builds (force_old, asked for by the caller
    after a tool failure) — the commit it was written against with the patch applied"""
    d, dst = scratch()
    if not force_old:
        okp, pout = apply_patch(dst, patch)
        if okp:
            return d, dst, {}, True
    shutil.rmtree(dst, ignore_errors=True)
    os.makedirs(dst)
    p1 = subprocess.Popen(['git', '-C', REPO, 'archive', OLD_BASE], stdout=subprocess.PIPE)
    subprocess.run(['tar', '-x', '-C', dst], stdin=p1.stdout)
    p1.wait()
    okp, pout = apply_patch(dst, patch)
    return d, dst, {'VERIF_SELFTEST_SKIP_RULES': OLD_BASE_SKIP}, okp


def place_demo(dst, demo, kind):
    if kind.startswith('in-crate-test'):
        f = kind.split(':', 1)[1].strip()
        with open(os.path.join(dst, f), 'a') as out:
            out.write('\n' + open(demo).read())
        return ['cargo', 'test', '--offline', '--lib', 'demo']
    os.makedirs(os.path.join(dst, 'tests'), exist_ok=True)
    shutil.copy(demo, os.path.join(dst, 'tests', 'demo.rs'))
    return ['cargo', 'test', '--offline', '--test', 'demo']


def confirm(pid, ab, src, label=None):
    meta = json.load(open(os.path.join(src, 'meta.json')))
    m = meta[ab]
    patch = os.path.join(src, '%s.patch.diff' % ab)
    demo = os.path.join(src, '%s.demo.rs' % ab)
    kind = m.get('demo_kind', 'integration-test')
    d, dst = scratch()
    res = {}
    try:
        env = {'CARGO_TARGET_DIR': os.path.join(d, 'target'), 'CARGO_NET_OFFLINE': 'true'}
        # without patch: demo passes
        cmd = place_demo(dst, demo, kind)
        rc, out = sh(cmd, dst, env, timeout=1800)
        res['demo_without_patch_passes'] = (rc == 0)
        res['demo_without_tail'] = out[-600:]
        shutil.rmtree(dst)
        shutil.copytree(REPO, dst, ignore=shutil.ignore_patterns('target', '.git'))
        okp, pout = apply_patch(dst, patch)
        res['patch_applies'] = okp
        if not okp:
            res['patch_out'] = pout[-600:]
            return res
        rc, out = sh(['cargo', 'test', '--offline'], dst, env, timeout=1800)
        res['suite_passes_with_patch'] = (rc == 0)
        cmd = place_demo(dst, demo, kind)
        rc, out = sh(cmd, dst, env, timeout=1800)
        res['demo_with_patch_fails'] = (rc != 0)
        res['demo_with_tail'] = out[-600:]
    except subprocess.TimeoutExpired:
        res['timeout'] = True
    finally:
        shutil.rmtree(d, ignore_errors=True)
    good = res.get('patch_applies') and res.get('suite_passes_with_patch') and res.get('demo_with_patch_fails') and res.get('demo_without_patch_passes')
    res['confirmed'] = bool(good)
    if good:
        out = os.path.join(SEEDED, '%s-%s' % (pid, label or ab))
        os.makedirs(out, exist_ok=True)
        shutil.copy(patch, os.path.join(out, 'patch.diff'))
        shutil.copy(demo, os.path.join(out, 'demo.rs'))
        json.dump({'property': pid, 'summary': m.get('summary'), 'needs': m.get('needs'), 'demo_kind': kind,
                   'author_verified': m.get('verified'),
                   'confirmed_by_me': 'scratch copy of /repo HEAD: `cargo test --offline` green with patch.diff applied; demo (%s) FAILS with the patch and PASSES without it' % kind,
                   'repo_commit': subprocess.check_output(['git', '-C', REPO, 'rev-parse', '--short', 'HEAD'], text=True).strip()},
                  open(os.path.join(out, 'meta.json'), 'w'), indent=1)
    return res


def run_checks(only=None, tier='quick', all_props=False):
    rows = []
    for name in sorted(os.listdir(SEEDED)):
        sd = os.path.join(SEEDED, name)
        if not os.path.isdir(sd) or (only and only not in name):
            continue
        meta = json.load(open(os.path.join(sd, 'meta.json')))
        pid = meta['property']
        d, dst, xenv, okp = tree_with(os.path.join(sd, 'patch.diff'))
        try:
            if not okp:
                rows.append((name, 'PATCH-DOES-NOT-APPLY', ''))
                continue
            props = [pid]
            if all_props:
                sys.path.insert(0, os.path.join(VERIF, 'rules'))
                import props as P
                props = sorted(P.PROPS)
            for attempt in (0, 1):
                caught = []
                detail = ''
                for p in props:
                    rc, out = sh([os.path.join(VERIF, 'check'), p, tier], VERIF, dict({'VERIF_REPO': dst, 'VERIF_NO_EVIDENCE': '1'}, **xenv))
                    if rc == 1:
                        caught.append(p)
                        if p == pid:
                            detail = '; '.join(l.strip() for l in out.splitlines() if l and not l.startswith(('VIOLATION', 'KNOWN', ' ')) and ':' in l)[:300]
                    elif rc != 0:
                        caught.append(p + '(tool-failure)')
                        if attempt == 0 and not xenv:
                            break
                if attempt == 0 and not xenv and any('tool-failure' in c for c in caught):
                    # the patch applies to HEAD textually but the result does not build: replay on the commit it was written against
                    shutil.rmtree(d, ignore_errors=True)
                    d, dst, xenv, okp = tree_with(os.path.join(sd, 'patch.diff'), force_old=True)
                    if okp:
                        continue
                break
            rows.append((name, 'CAUGHT' if pid in caught else 'MISSED', 'by %s  %s' % (caught, detail)))
        finally:
            shutil.rmtree(d, ignore_errors=True)
    for r in rows:
        print('%-10s %-8s %s' % r)
    if os.environ.get('SEEDED_JSON'):
        json.dump([{'seed': a, 'status': b, 'detail': c} for a, b, c in rows], open(os.environ['SEEDED_JSON'], 'w'), indent=1)
    return rows


if __name__ == '__main__':
    if sys.argv[1] == 'import':
        r = confirm(sys.argv[2], sys.argv[3], sys.argv[4], sys.argv[5] if len(sys.argv) > 5 else None)
        print(json.dumps(r, indent=1))
    elif sys.argv[1] == 'run':
        only = sys.argv[sys.argv.index('--only') + 1] if '--only' in sys.argv else None
        tier = sys.argv[sys.argv.index('--tier') + 1] if '--tier' in sys.argv else 'quick'
        run_checks(only, tier, '--all' in sys.argv)
