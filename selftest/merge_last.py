#!/usr/bin/env python3
"""merge a partial corpus run (SEEDED_JSON / REFACTOR_JSON output of `seeded.py run --only ..` / `refactors.py run --only ..`)
into selftest/seeded_last_run.json / selftest/refactors_last_run.json:   merge_last.py seeded|refactors <partial.json> ..."""
import json, os, sys
V = os.path.dirname(os.path.dirname(os.path.abspath(__file__)))
kind = sys.argv[1]
key = 'seed' if kind == 'seeded' else 'refactor'
path = os.path.join(V, 'selftest', '%s_last_run.json' % kind)
cur = {r[key]: r for r in json.load(open(path))}
for f in sys.argv[2:]:
    for r in json.load(open(f)):
        cur[r[key]] = r
json.dump([cur[k] for k in sorted(cur)], open(path, 'w'), indent=1)
ok = 'CAUGHT' if kind == 'seeded' else 'QUIET'
print('%s: %d entries, %d %s' % (kind, len(cur), sum(1 for r in cur.values() if r['status'] == ok), ok))
