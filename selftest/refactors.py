#!/usr/bin/env python3
"""Behaviour-preserving refactorings (written by independent sub-agents): every check must stay
quiet on them.   refactors.py import <id> <src dir>   |   refactors.py run [--only X]"""
import json, os, shutil, subprocess, sys, tempfile
HERE = os.path.dirname(os.path.abspath(__file__))
VERIF = os.path.dirname(HERE)
STORE = os.path.join(VERIF, 'refactors')
REPO = '/repo'
sys.path.insert(0, HERE)
from seeded import sh, scratch, apply_patch, tree_with


def do_import(rid, src):
    meta = json.load(open(os.path.join(src, 'meta.json')))
    out = {}
    for n in sorted(meta):
        patch = os.path.join(src, '%s.patch.diff' % n)
        if not os.path.exists(patch):
            continue
        d, dst = scratch()
        try:
            okp, pout = apply_patch(dst, patch)
            if not okp:
                out[n] = 'patch does not apply'
                continue
            rc, o = sh(['cargo', 'test', '--offline'], dst, {'CARGO_TARGET_DIR': os.path.join(d, 'target'), 'CARGO_NET_OFFLINE': 'true'}, timeout=1800)
            if rc != 0:
                out[n] = 'suite fails'
                continue
            od = os.path.join(STORE, '%s-%s' % (rid, n))
            os.makedirs(od, exist_ok=True)
            shutil.copy(patch, os.path.join(od, 'patch.diff'))
            json.dump({'summary': meta[n].get('summary'), 'why_preserving': meta[n].get('why_preserving'),
                       'confirmed_by_me': 'applies to /repo HEAD; cargo test --offline green'}, open(os.path.join(od, 'meta.json'), 'w'), indent=1)
            out[n] = 'stored'
        finally:
            shutil.rmtree(d, ignore_errors=True)
    return out


def run(only=None, tier='quick'):
    sys.path.insert(0, os.path.join(VERIF, 'rules'))
    import props as P
    rows = []
    for name in sorted(os.listdir(STORE)):
        sd = os.path.join(STORE, name)
        if not os.path.isdir(sd) or (only and only not in name):
            continue
        d, dst, xenv, okp = tree_with(os.path.join(sd, 'patch.diff'))
        try:
            if not okp:
                rows.append((name, 'PATCH-DOES-NOT-APPLY', ''))
                continue
            for attempt in (0, 1):
                alarms = []
                tool = False
                for p in sorted(P.PROPS if not os.environ.get('REFACTOR_PROPS') else os.environ['REFACTOR_PROPS'].split(',')):
                    rc, out = sh([os.path.join(VERIF, 'check'), p, tier], VERIF, dict({'VERIF_REPO': dst, 'VERIF_NO_EVIDENCE': '1', 'VERIF_CONTROLS': '0'}, **xenv))
                    if rc != 0:
                        first = [l.strip() for l in out.splitlines() if l and not l.startswith(('VIOLATION', 'KNOWN', ' ')) and ':' in l][:2]
                        alarms.append('%s(rc=%d): %s' % (p, rc, ' / '.join(first)[:400]))
                    if rc == 2 and attempt == 0 and not xenv:
                        tool = True
                        break
                if tool:
                    # applies to HEAD textually but does not build there: replay on the commit it was written against
                    shutil.rmtree(d, ignore_errors=True)
                    d, dst, xenv, okp = tree_with(os.path.join(sd, 'patch.diff'), force_old=True)
                    if okp:
                        continue
                break
            rows.append((name, 'QUIET' if not alarms else 'ALARM', '\n      '.join(alarms)))
        finally:
            shutil.rmtree(d, ignore_errors=True)
    for r in rows:
        print('%-8s %-6s %s' % r)
    if os.environ.get('REFACTOR_JSON'):
        json.dump([{'refactor': a, 'status': b, 'detail': c} for a, b, c in rows], open(os.environ['REFACTOR_JSON'], 'w'), indent=1)


if __name__ == '__main__':
    if sys.argv[1] == 'import':
        print(json.dumps(do_import(sys.argv[2], sys.argv[3]), indent=1))
    else:
        only = sys.argv[sys.argv.index('--only') + 1] if '--only' in sys.argv else None
        run(only)
