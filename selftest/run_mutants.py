#!/usr/bin/env python3
"""Development self-test (not part of any verdict): apply scripted single edits to a scratch
copy of /repo, check that (a) the named checks report a violation naming the mutated instance and
(b) optionally that the edit compiles and the repo's own tests still pass.
usage: run_mutants.py [--tests] [--only substr] [--idioms]
--idioms: selftest/idiom_mutants.json — edits relative to a stored refactoring / feature tree (`base`), the positive side of
the idioms /repo itself does not use (a refactoring must stay quiet, the same tree with one instance broken must not)
Scratch copies live under /tmp and are removed immediately."""
import json, os, shutil, subprocess, sys, tempfile, concurrent.futures as cf
HERE = os.path.dirname(os.path.abspath(__file__))
VERIF = os.path.dirname(HERE)
REPO = '/repo'

def run_one(m, with_tests):
    d = tempfile.mkdtemp(prefix='ee-mut-')
    try:
        dst = os.path.join(d, 'repo')
        xenv = {}
        if m.get('base'):
            # an edit relative to a stored behaviour-preserving refactoring / feature (an idiom /repo does not use today)
            sys.path.insert(0, HERE)
            import seeded
            shutil.rmtree(d, ignore_errors=True)
            d, dst, xenv, okp = seeded.tree_with(os.path.join(VERIF, 'refactors', m['base'], 'patch.diff'))
            if not okp:
                return m['name'], 'EDIT-FAILED', 'base patch %s does not apply' % m['base'], {}
        else:
            shutil.copytree(REPO, dst, ignore=shutil.ignore_patterns('target', '.git'))
        for e in m['edits']:
            p = os.path.join(dst, e['file'])
            t = open(p).read()
            if e['old'] not in t:
                return m['name'], 'EDIT-FAILED', 'old text not found in %s' % e['file'], {}
            t = t.replace(e['old'], e['new'], e.get('count', 1))
            open(p, 'w').write(t)
        tests = None
        if with_tests:
            env = dict(os.environ, CARGO_TARGET_DIR=os.path.join(d, 'target'), CARGO_NET_OFFLINE='true')
            p = subprocess.run(['cargo', 'test', '--offline', '--lib', '-q'], cwd=dst, env=env, stdout=subprocess.PIPE, stderr=subprocess.STDOUT, text=True)
            tests = (p.returncode == 0)
        res = {}
        for pid in m['expect']:
            env = dict(os.environ, VERIF_REPO=dst, VERIF_NO_EVIDENCE='1', **xenv)
            p = subprocess.run([os.path.join(VERIF, 'check'), pid, m.get('tier', 'quick')], env=env, stdout=subprocess.PIPE, stderr=subprocess.STDOUT, text=True)
            viol = [l for l in p.stdout.splitlines() if l.startswith('VIOLATION')]
            res[pid] = (p.returncode, len(viol), p.stdout)
        for pid in m.get('silent', []):
            env = dict(os.environ, VERIF_REPO=dst, VERIF_NO_EVIDENCE='1')
            p = subprocess.run([os.path.join(VERIF, 'check'), pid, m.get('tier', 'quick')], env=env, stdout=subprocess.PIPE, stderr=subprocess.STDOUT, text=True)
            res['!' + pid] = (p.returncode, 0, p.stdout)
        okk = all(rc == 1 and nv > 0 for k, (rc, nv, _) in res.items() if not k.startswith('!')) and \
              all(rc == 0 for k, (rc, nv, _) in res.items() if k.startswith('!'))
        if m.get('must_name'):
            for pid in m['expect']:
                if m['must_name'] not in res[pid][2]:
                    okk = False
        status = 'CAUGHT' if okk else 'MISSED'
        if with_tests and tests is False:
            status += ' (but repo tests FAIL with this edit)'
        return m['name'], status, '', res
    finally:
        shutil.rmtree(d, ignore_errors=True)

def main():
    with_tests = '--tests' in sys.argv
    only = None
    if '--only' in sys.argv:
        only = sys.argv[sys.argv.index('--only') + 1]
    verbose = '-v' in sys.argv
    ms = json.load(open(os.path.join(HERE, 'idiom_mutants.json' if '--idioms' in sys.argv else 'mutants.json')))
    if only:
        ms = [m for m in ms if only in m['name']]
    bad = 0
    with cf.ThreadPoolExecutor(max_workers=6) as ex:
        for name, status, msg, res in ex.map(lambda m: run_one(m, with_tests), ms):
            print('%-46s %s %s' % (name, status, msg))
            if not status.startswith('CAUGHT'):
                bad += 1
                for k, (rc, nv, out) in res.items():
                    print('   %s rc=%d violations=%d' % (k, rc, nv))
                    if verbose or True:
                        print('      ' + '\n      '.join(out.splitlines()[-8:]))
            elif verbose:
                for k, (rc, nv, out) in res.items():
                    print('      ' + '\n      '.join(l for l in out.splitlines() if not l.startswith('VIOLATION'))[:1500])
    print('%d mutants, %d not caught' % (len(ms), bad))
    return 1 if bad else 0

if __name__ == '__main__':
    sys.exit(main())
