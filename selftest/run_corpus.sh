#!/bin/bash
# Development self-test: the whole corpus (stored refactorings / features: must be QUIET; stored seeds: must be CAUGHT),
# sharded over the cores.  Writes selftest/refactors_last_run.json and selftest/seeded_last_run.json.
cd "$(dirname "$0")/.."
out=$(mktemp -d)
for s in F R1 R2 R3 R4 R5 R6 R7 R8 R9; do
  REFACTOR_JSON=$out/ref_$s.json python3 selftest/refactors.py run --only $s > $out/ref_$s.log 2>&1 &
done
for p in C01 C02 C03 C04 C05 C06 C07 C08 C09 C10 C11 C13 C14 C15 C16 C17 C18; do
  SEEDED_JSON=$out/seed_$p.json python3 selftest/seeded.py run --only $p- --all > $out/seed_$p.log 2>&1 &
done
wait
python3 - "$out" <<'P'
import json, glob, sys, os
out = sys.argv[1]
ref = {}
for f in sorted(glob.glob(out + '/ref_*.json')):
    for r in json.load(open(f)):
        ref[r['refactor']] = r
json.dump([ref[k] for k in sorted(ref)], open('selftest/refactors_last_run.json', 'w'), indent=1)
seed = {}
for f in sorted(glob.glob(out + '/seed_*.json')):
    for r in json.load(open(f)):
        seed[r['seed']] = r
json.dump([seed[k] for k in sorted(seed)], open('selftest/seeded_last_run.json', 'w'), indent=1)
print('refactorings: %d, quiet %d' % (len(ref), sum(1 for r in ref.values() if r['status'] == 'QUIET')))
for r in ref.values():
    if r['status'] != 'QUIET':
        print('   ', r['refactor'], r['status'], (r['detail'] or '')[:160].replace('\n', ' '))
print('seeds: %d, caught %d' % (len(seed), sum(1 for r in seed.values() if r['status'] == 'CAUGHT')))
for r in seed.values():
    if r['status'] != 'CAUGHT':
        print('   ', r['seed'], r['status'], (r['detail'] or '')[:120])
P
rm -rf "$out"
