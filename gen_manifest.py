#!/usr/bin/env python3
"""writes MANIFEST.json from rules/props.py (single source of truth for what is claimed)"""
import json, os, sys
HERE = os.path.dirname(os.path.abspath(__file__))
sys.path.insert(0, os.path.join(HERE, 'rules'))
import props

ALL = ['C%02d' % i for i in range(1, 19)]
NA = {
    'C12': 'static analysis cannot decide it: printer/parser round-trip equality is a joint property of two algorithms over all ASTs (whether parentheses are needed depends on binding-power values and on how the parser regroups the printed text); any structural rule would restate one particular printer and still not imply the round trip. A runtime round-trip generator is a different technique family (DESIGN §4.12).',
}
PENDING = 'claim planned (DESIGN §4) but its rule set is not implemented yet in this revision; not claimed until it is'

checks = []
for pid in ALL:
    if pid in props.PROPS:
        sp = props.PROPS[pid]
        checks.append({
            'property_id': pid,
            'quick_cmd': './check %s quick' % pid,
            'thorough_cmd': './check %s thorough' % pid,
            'evidence_file': '/verif/evidence/%s.json' % pid,
            'replay_cmd_template': './check %s --explain {path}' % pid,
            'engine': 'mir-rules',
            'level_claimed': {
                'category': 'other',
                'text': sp.get('level_text') or ('Static analysis over the type-checked program (MIR with resolved callees): every path of every analysed body is covered, so the decided clause holds for all inputs / schedules / handlers, not for samples. Decides: ' + sp['explanation'][:600]),
                'design_ref': 'DESIGN.md §4.%d' % int(pid[1:]),
            },
            'level_note': ('Decides the named structural clause(s), not the full behaviour. Not decided: %s. Trusted: rustc MIR + callee resolution, the driver dump, spec/*.tsv API tables; external callees not in the tables assumed harmless.' % (sp.get('not_decided') or 'n/a')),
            'technique': sp.get('technique', 'static analysis: custom rustc_private MIR dataflow / dominance / call-graph rules'),
        })
na = []
for pid in ALL:
    if pid not in props.PROPS:
        na.append({'property_id': pid, 'reason': NA.get(pid, PENDING)})

m = {
    'version': 1,
    'setup_cmd': 'cd /verif/driver && CARGO_NET_OFFLINE=true cargo build --release --offline && cd /verif && ./check selftest-setup',
    'hooks': {
        'guard': 'expression_engine_verif',
        'enable': 'none needed: the checks read /repo\'s private modules directly through the compiler (cargo +nightly check with RUSTC_WORKSPACE_WRAPPER=/verif/driver/target/release/ee-facts); no hook code exists in /repo',
        'baseline_off_cmd': 'cd /repo && cargo test --workspace --no-fail-fast --offline',
        'source_commits': [],
        'add_only': True,
    },
    'engines': [
        {'name': 'ee-facts', 'path': 'driver/', 'serves_properties': sorted(props.PROPS), 'kind_free_text': 'rustc_private driver: dumps MIR (opt-level 0), resolved callees, types, statics, ADTs, unsafe inventory as JSON'},
        {'name': 'mir-rules', 'path': 'rules/', 'serves_properties': sorted(props.PROPS), 'kind_free_text': 'python3 rule engine: guard-liveness dataflow, panic-site inventory + discharge rules, dominance / must-pass-through, who-may-call, table agreement'},
    ],
    'checks': checks,
    'not_applicable': na,
    'notes': 'Technique family: static analysis only. Every check re-extracts facts from /repo\'s current working tree (cache keyed by a hash of every file). exit 0 / exit 1 + VIOLATION line / exit 2 = tool failure. known_findings.json lists recorded genuine defects (exact keys) and fixed ones.',
}
with open(os.path.join(HERE, 'MANIFEST.json'), 'w') as f:
    json.dump(m, f, indent=1)
print('claimed:', sorted(props.PROPS), ' not claimed:', [x['property_id'] for x in na])
