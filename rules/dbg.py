#!/usr/bin/env python3
"""debug: dbg.py <repo root> <name substring>  — pretty-print bodies of that tree"""
import sys, os
sys.path.insert(0, os.path.dirname(os.path.abspath(__file__)))
from extract import extract
from facts import Facts
path, info = extract(sys.argv[1], 'expression_engine', 'base')
f = Facts(path)
for b in f.bodies:
    if sys.argv[2] in b.name:
        print('\n'.join(l for l in b.pretty().splitlines() if 'Storage' not in l and not l.startswith('    let')))
