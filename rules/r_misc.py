"""UNWIND, UNSAFE, STATICS, FREEZE and other whole-crate inventory rules."""
import os, re
from engine import ok, bad, assumed, floor
from analysis import dyn_fn_class

UNWIND_DENY = re.compile(r'^(std::panic::catch_unwind|std::panic::resume_unwind|std::process::abort|std::process::exit|'
                         r'std::panic::set_hook|std::panic::take_hook|std::panic::always_abort|std::intrinsics::abort|std::panic::panic_any)$')


def rule_unwind(ctx):
    prog = ctx.prog
    obs = []
    hits = []
    for b in prog.bodies:
        for c in b.live_calls:
            if c.callee and UNWIND_DENY.match(c.callee):
                hits.append(c)
    for k, c in enumerate(hits):
        obs.append(bad('UNWIND', 'UNWIND|call|%s|%s' % (c.body.name, c.callee),
                       '%s in %s: a handler panic must reach the caller as an ordinary unwind' % (c.callee, c.body.name), c.where(), body=c.body.name, bb=c.bb))
    if not hits:
        obs.append(ok('UNWIND', 'UNWIND|calls', 'no catch_unwind / resume_unwind / abort / exit / panic-hook call in %d bodies' % len(prog.bodies)))
    # Cargo.toml profiles
    cargo = os.path.join(ctx.root, 'Cargo.toml')
    txt = open(cargo).read() if os.path.exists(cargo) else ''
    sect = None
    abort = []
    for line in txt.splitlines():
        s = line.split('#')[0].strip()
        m = re.match(r'^\[(.+)\]$', s)
        if m:
            sect = m.group(1)
            continue
        if sect and sect.startswith('profile') and re.match(r'^panic\s*=\s*["\']abort["\']', s):
            abort.append(sect)
    cfg = os.path.join(ctx.root, '.cargo', 'config.toml')
    if os.path.exists(cfg) and re.search(r'panic\s*=\s*["\']abort["\']|-C\s*panic=abort|-Cpanic=abort', open(cfg).read()):
        abort.append('.cargo/config.toml')
    if abort:
        obs.append(bad('UNWIND', 'UNWIND|panic-abort', 'panic = "abort" configured in %s: a handler panic kills the process instead of unwinding' % ', '.join(abort), 'Cargo.toml'))
    else:
        obs.append(ok('UNWIND', 'UNWIND|panic-abort', 'no panic="abort" in Cargo.toml profiles / .cargo/config.toml'))
    # user Drop impls (a panicking destructor during unwinding aborts) and extern ABIs
    drops = [i for i in prog.f.impls if i.get('trait') in ('std::ops::Drop', 'core::ops::Drop')]
    if drops:
        import r_panic
        for d in drops:
            bodies = [b for b in prog.bodies if b.impl_trait in ('std::ops::Drop', 'core::ops::Drop') and b.impl_self == d['self']]
            reach = [prog.by_id[i] for b in bodies for i in prog.reach([b.id])]
            pobs, sites = r_panic.evaluate(reach)
            risky = [o for o in pobs if o.status == 'violated']
            cbs = [c for b in reach for c in b.live_calls if prog.is_callback(c)]
            key = 'UNWIND|drop-impl|%s' % d['self']
            where = '%s:%d' % (d['span']['file'], d['span']['line'])
            if risky or cbs:
                obs.append(bad('UNWIND', key, 'user Drop impl for %s can panic / call back (%s): a second panic while unwinding out of a handler aborts the process' % (d['self'], (risky[0].what if risky else 'callback')[:120]), where))
            else:
                obs.append(ok('UNWIND', key, 'user Drop impl for %s has no undischarged panic site and calls nothing back (%d bodies)' % (d['self'], len(reach)), where))
    else:
        obs.append(ok('UNWIND', 'UNWIND|drop-impl', 'no user Drop impl among %d impls' % len(prog.f.impls)))
    ext = [u for u in prog.f.unsafe if u['what'] in ('extern_abi', 'extern_block')]
    if ext:
        for u in ext:
            obs.append(bad('UNWIND', 'UNWIND|extern|%s' % u.get('name', '?'), 'non-Rust ABI boundary: unwinding across it aborts', '%s:%d' % (u['span']['file'], u['span']['line'])))
    else:
        obs.append(ok('UNWIND', 'UNWIND|extern', 'no extern "C" function or block'))
    return obs


def rule_unsafe(ctx):
    f = ctx.prog.f
    obs = []
    us = [u for u in f.unsafe if not u['span'].get('exp')]
    for k, u in enumerate(us):
        obs.append(bad('UNSAFE', 'UNSAFE|%s|%s|#%d' % (u['what'], u.get('name', os.path.basename(u['span']['file'])), k),
                       '%s in the crate: data-race freedom is no longer guaranteed by the type system' % u['what'], '%s:%d' % (u['span']['file'], u['span']['line'])))
    if not us:
        obs.append(ok('UNSAFE', 'UNSAFE|none', 'no unsafe block / fn / impl outside macro expansions (HIR scan of the whole crate)'))
    muts = [s for s in f.statics if s['mut']]
    for s in muts:
        obs.append(bad('UNSAFE', 'UNSAFE|static-mut|%s' % s['name'], 'static mut %s' % s['name'], '%s:%d' % (s['span']['file'], s['span']['line'])))
    if not muts:
        obs.append(ok('UNSAFE', 'UNSAFE|static-mut', 'no static mut among %d statics' % len(f.statics)))
    return obs


SYNC_CELL = re.compile(r'^(once_cell::sync::OnceCell<(.*)>|std::sync::OnceLock<(.*)>|std::sync::LazyLock<(.*)>|once_cell::sync::Lazy<(.*)>|std::sync::Mutex<(.*)>|std::sync::RwLock<(.*)>)$')


def classify_static(s):
    """REGISTRY / DESCRIPTOR / ONCE / other"""
    ty = s['ty']
    if re.match(r'^(once_cell::sync::OnceCell|std::sync::OnceLock)<\(\)>$', ty) or ty in ('std::sync::Once',):
        return 'ONCE'
    if 'descriptor::DescriptorKey' in ty:
        return 'DESCRIPTOR'
    if 'std::sync::Mutex<std::collections::HashMap<std::string::String,' in ty or 'std::sync::RwLock<std::collections::HashMap<std::string::String,' in ty:
        if 'dyn std::ops::Fn' in ty or 'operator::InfixOpConfig' in ty:
            return 'REGISTRY'
    return 'OTHER'


def rule_statics(ctx, rule='STATICS'):
    """the set of statics is exactly {ONCE flag, registries, descriptor store}; all are
    synchronised cells; no thread_local"""
    f = ctx.prog.f
    obs = []
    cls = {}
    for s in f.statics:
        c = classify_static(s)
        cls.setdefault(c, []).append(s)
        key = '%s|static|%s' % (rule, s['ty'][:120])
        where = '%s:%d' % (s['span']['file'], s['span']['line'])
        if s.get('thread_local'):
            obs.append(bad(rule, key, 'thread_local static %s: per-thread state leaks between evaluations on one thread and differs across threads' % s['name'], where))
        elif c == 'OTHER':
            obs.append(bad(rule, key, 'static %s of type %s is not one of the engine\'s known cells (once flag, operator/function registries, descriptor store): '
                           'global state outside the registries (cache, counter, memo) makes results depend on history' % (s['name'], s['ty'][:100]), where))
        elif not SYNC_CELL.match(s['ty']):
            obs.append(bad(rule, key, 'static %s is not behind a synchronised cell' % s['name'], where))
        else:
            obs.append(ok(rule, key, 'static %s is the %s cell, type %s' % (s['name'], c, s['ty'][:80]), where))
    obs.append(floor(rule, 'registry-statics', len(cls.get('REGISTRY', [])), 4, 'prefix, infix, postfix operator and function registries'))
    obs.append(floor(rule, 'once-flag', len(cls.get('ONCE', [])), 1, 'once-initialisation flag'))
    return obs


def rule_freeze(ctx, names=('parser::ExprAST', 'parser::Literal', 'value::Value')):
    f = ctx.prog.f
    obs = []
    for n in names:
        a = f.adt_by_name.get(n)
        key = 'FREEZE|%s' % n
        if a is None:
            obs.append(bad('FREEZE', key, 'anchor lost: public type %s not found' % n))
        elif not a['freeze']:
            obs.append(bad('FREEZE', key, '%s contains interior mutability (not Freeze): evaluating through &self can change the tree / value' % n))
        else:
            obs.append(ok('FREEZE', key, '%s is Freeze (no UnsafeCell anywhere inside): exec(&self) cannot mutate it' % n))
    return obs


# ----------------------------------------------------------------------------- UNWIND-PAIR
AMBIENT_WRITE = re.compile(r'^(std::thread::LocalKey::<T>::(with|set|replace|take|with_borrow_mut|try_with)|'
                           r'std::thread::LocalKey::<std::cell::(Ref)?Cell<T>>::(set|replace|take|with_borrow_mut|update)|'
                           r'std::sync::atomic::Atomic\w*(::<\w+>)?::(store|swap|fetch_\w+|compare_exchange\w*)|'
                           r'core::sync::atomic::Atomic\w*(::<\w+>)?::(store|swap|fetch_\w+|compare_exchange\w*))$')


def rule_unwind_pair(ctx, lm, em):
    """engine state that is changed before a handler can run and put back afterwards must also be put back when the
    handler panics: if ambient state (thread-local / atomic) is written on a path before a call that can reach a
    callback and written again after it, the unwind edge of that call must pass a write too (a Drop guard);
    otherwise every contained handler panic leaves the engine's state changed"""
    prog = ctx.prog
    direct = {b.id: [c for c in b.live_calls if AMBIENT_WRITE.match(c.callee or '') or AMBIENT_WRITE.match(c.rdef or '')] for b in prog.bodies}
    amb = lm._closure(lambda bid: bool(direct.get(bid)))
    drop_impls = {}
    for b in prog.bodies:
        if b.impl_trait in ('std::ops::Drop', 'core::ops::Drop') and b.impl_self:
            drop_impls[b.impl_self.split('<')[0]] = b
    obs = []
    n = 0
    for bid in sorted(em.reach if em.exec else []):
        body = prog.by_id[bid]
        wblocks = set()
        for c in body.all_calls() if hasattr(body, 'all_calls') else body.live_calls:
            # a direct write, or a helper that writes and cannot itself reach a handler (guard constructor, counter bump)
            if AMBIENT_WRITE.match(c.callee or '') or (c.ruid in amb and c.ruid not in lm.can_cb):
                wblocks.add(c.bb)
        # drop terminators of guard locals whose Drop impl writes ambient state (normal and cleanup blocks)
        for bb, blk in enumerate(body.blocks):
            t = blk['term']
            if t['k'] == 'drop':
                ty = (t['pl'].get('ty') or body.locals[t['pl']['l']]['ty']).split('<')[0]
                d = drop_impls.get(ty)
                if d is not None and d.id in amb:
                    wblocks.add(bb)
        if not wblocks:
            continue
        for c in body.live_calls:
            is_cb = prog.is_callback(c) or (c.ruid in lm.can_cb) or any(tu in lm.can_cb for tu in prog.generic_cb_targets.get((body.id, c.bb), []))
            if not is_cb or c.bb in wblocks:
                continue
            before = [w for w in wblocks if not body.blocks[w]['cleanup'] and c.bb in body.reachable_after(w)]
            after = [w for w in wblocks if not body.blocks[w]['cleanup'] and c.target is not None and w in body.reachable_from(c.target)]
            if not before or not after:
                continue
            n += 1
            key = 'UNWIND-PAIR|%s|%s|#%d' % (body.name, (c.rdef or c.callee or 'call'), len([o for o in obs if o.key.startswith('UNWIND-PAIR|%s|' % body.name)]))
            uw = c.unwind if isinstance(c.unwind, int) else None
            on_unwind = set()
            if uw is not None:
                st, seen = [uw], set()
                while st:
                    x = st.pop()
                    if x in seen:
                        continue
                    seen.add(x)
                    st.extend(body.succ_all(x) if hasattr(body, 'succ_all') else _succ_with_unwind(body, x))
                on_unwind = seen & wblocks
            if on_unwind:
                obs.append(ok('UNWIND-PAIR', key, 'ambient state written before and after this callback-reaching call is also written on its unwind path (guard dropped in cleanup)', c.where()))
            else:
                obs.append(bad('UNWIND-PAIR', key, 'ambient state (thread-local / atomic) is written before this call (bb%s) and put back after it (bb%s) only on the normal path: when a handler below the call panics the unwind skips the second write, so every contained panic leaves the engine state changed' % (sorted(before)[0], sorted(after)[0]),
                               c.where(), body=body.name, bb=c.bb))
    if n == 0:
        obs.append(ok('UNWIND-PAIR', 'UNWIND-PAIR|none', 'no evaluator body brackets a callback-reaching call with writes to thread-local / atomic state'))
    return obs


def _succ_with_unwind(body, x):
    t = body.blocks[x]['term']
    out = list(body.succ[x]) if x < len(body.succ) else []
    if isinstance(t.get('unwind'), int):
        out.append(t['unwind'])
    k = t['k']
    if k == 'goto':
        out.append(t['target'])
    elif k in ('drop', 'assert') or (k == 'call' and t.get('target') is not None):
        out.append(t['target'])
    elif k == 'switch':
        out += [tb for _, tb in t['targets']] + [t['otherwise']]
    return out
