"""LOOP and REC (C01): every loop advances; recursion needs a depth guard."""
import re
from facts import op_local, op_place, op_const_int, Call, _sccs
from analysis import (defuse, trace_operand, trace_local, single_origin, TRANSPARENT_CALLS)
from engine import ok, bad, assumed, floor
import r_order, r_errd

CHAR_NEXT = "<std::str::CharIndices<'a> as std::iter::Iterator>::next"
# Iterator::next of any std iterator counts as drawing an item from a finite source, except the
# unbounded ones (deny-list)
INFINITE_NEXT = re.compile(r"(std::ops::RangeFrom<|std::iter::Repeat<|std::iter::RepeatWith<|std::iter::Cycle<|std::iter::Successors<|std::iter::FromFn<|std::iter::RepeatN<|std::sync::mpsc|std::io::Lines<|std::iter::Once<.*Cycle)")


class _Finite:
    def match(self, rd):
        if not rd:
            return None
        if not (rd.endswith('as std::iter::Iterator>::next') or re.search(r'impl std::iter::Iterator for .*>::next$', rd) or rd.endswith('as std::iter::DoubleEndedIterator>::next_back')):
            return None
        if INFINITE_NEXT.search(rd):
            return None
        return True


FINITE_NEXT = _Finite()


class TermModel:
    def __init__(self, prog, roles):
        self.prog = prog
        self.roles = roles
        # char-level ADVANCE primitives: bodies that step the real `chars` field of &mut self
        self.char_adv = set()
        for b in prog.bodies:
            if b.arg_count >= 1 and b.locals[1]['ty'].startswith('&mut ') and roles.tok_name and roles.is_scanner_ty(b.locals[1]['ty']):
                for c in b.live_calls:
                    if (c.rdef or '') == CHAR_NEXT:
                        o = single_origin(trace_operand(b, c.args[0], through_calls=set(TRANSPARENT_CALLS)))
                        if o is not None and o.kind == 'param' and o.data == 1 and o.proj and o.proj[0][0] == 'f':
                            # must not be a clone: traced without Clone::clone
                            self.char_adv.add(b.id)
        # token-level: must-advance-on-Ok parser bodies
        self.ma = set(roles.next_family) | set(roles.expect_family)
        changed = True
        while changed:
            changed = False
            for b in prog.bodies:
                if b.id in self.ma or b.arg_count < 1 or not b.locals[1]['ty'].startswith('&mut ') or not r_errd.is_crate_result(b.locals[0]['ty']):
                    continue
                blocks = {c.bb for c in b.live_calls if c.ruid in self.ma and c.term['arg_tys'] and c.term['arg_tys'][0].startswith('&mut ')}
                if blocks and not r_order._ok_return_reachable(b, 0, blocks):
                    self.ma.add(b.id)
                    changed = True

    def advancing_blocks(self, body, scc):
        """blocks of the cycle whose terminator consumes input / draws a fresh item"""
        out = set()
        for bb in scc:
            c = body.call_at(bb)
            if c is None:
                continue
            rd = c.rdef or c.callee or ''
            if FINITE_NEXT.match(rd) and rd != CHAR_NEXT:
                # the iterator must not be re-created inside the cycle
                if not self._recreated_in(body, c.args[0], scc):
                    out.add(bb)
            elif rd == CHAR_NEXT or c.ruid in self.char_adv:
                # receiver root (self, or a clone made before the loop) must not be re-assigned in the cycle
                if c.term['arg_tys'] and c.term['arg_tys'][0].startswith('&mut ') and not self._recreated_in(body, c.args[0], scc):
                    out.add(bb)
            elif c.ruid in self.ma and c.term['arg_tys'] and c.term['arg_tys'][0].startswith('&mut '):
                out.add(bb)
            else:
                # `item(self)` through a fn-pointer / generic Fn parameter: every value a caller passes must advance
                oid = getattr(body, 'orig_id', body.id)
                tg = self.prog.resolved_indirect.get((oid, bb)) or getattr(self.prog, 'generic_cb_targets', {}).get((oid, bb))
                if tg and all(t in self.ma for t in tg) and not getattr(body, 'is_view', False):
                    out.add(bb)
        return out

    def descent_blocks(self, body, scc):
        """blocks of the cycle that step a cursor to a *child* of what it pointed to: a reference-typed
        local re-assigned, inside the cycle, to a place reached from its own previous value through at
        least one field / variant projection (Box-owned trees are finite and acyclic)"""
        out = set()
        du = defuse(body)
        for bb in scc:
            for st in body.blocks[bb]['stmts']:
                if st['k'] != 'assign' or st['pl']['p']:
                    continue
                l = st['pl']['l']
                if not body.locals[l]['ty'].startswith('&'):
                    continue
                rv = st['rv']
                if rv['k'] not in ('ref', 'use', 'copy_for_deref'):
                    continue
                # does the new value derive from l itself, with a projection, through defs inside the cycle?
                seen = set()
                work = [(rv['pl'] if rv['k'] != 'use' else (rv['op'].get('pl')), 0)]
                hit = False
                while work:
                    pl, nproj = work.pop()
                    if pl is None:
                        continue
                    np2 = nproj + len([e for e in pl['p'] if isinstance(e, dict) and ('f' in e or 'dc' in e)])
                    if pl['l'] == l and np2 > 0:
                        hit = True
                        break
                    if (pl['l'], np2 > 0) in seen:
                        continue
                    seen.add((pl['l'], np2 > 0))
                    for (b2, i2, kind, payload, dproj) in du.defs.get(pl['l'], []):
                        if b2 not in scc or kind != 'assign':
                            continue
                        r2 = payload
                        if r2['k'] in ('ref', 'copy_for_deref'):
                            work.append((r2['pl'], np2))
                        elif r2['k'] == 'use' and r2['op'].get('pl') is not None:
                            work.append((r2['op']['pl'], np2))
                        elif r2['k'] == 'cast' and r2['op'].get('pl') is not None:
                            work.append((r2['op']['pl'], np2))
                if hit:
                    out.add(bb)
        return out

    def _recreated_in(self, body, op, scc):
        """is the root local of a &mut receiver (re)assigned by something other than a reborrow inside the cycle?"""
        from r_panic import root_place
        rp = root_place(body, op)
        if rp is None:
            return True
        l = rp[0]
        if 1 <= l <= body.arg_count:
            return False
        for (b, i, kind, payload, dproj) in defuse(body).defs.get(l, []):
            if b in scc:
                if kind == 'assign' and payload['k'] == 'ref':
                    # a fresh &mut reborrow of an outer local each iteration is fine: follow it
                    inner = payload['pl']['l']
                    if any(bb in scc and k2 != 'assign' or (bb in scc and k2 == 'assign' and p2['k'] not in ('ref',)) for (bb, i2, k2, p2, d2) in defuse(body).defs.get(inner, [])) and not (1 <= inner <= body.arg_count):
                        return True
                    continue
                return True
        return False


def rule_loop(tm, bodies):
    obs = []
    n = 0
    for b0 in bodies:
        first, n0 = _loop_body(tm, b0)
        n += n0
        if any(o.status == 'violated' for o in first):
            # second reading: helpers of this body inlined (a helper that reports whether it consumed a token,
            # `if !self.take_x()? { return .. }`, is only readable together with its caller)
            tried = []
            if any(p.id == b0.id for p in tm.roles.parse_bodies):
                for tag in ('shallow', 'deep'):
                    vr = tm.roles.views(tag)
                    tried += [v for v in vr.parse_bodies if getattr(v, 'orig_id', v.id) == b0.id and v is not b0]
            else:
                v = tm.prog.view(b0)
                if v is not b0:
                    tried.append(v)
            for v in tried:
                second, _ = _loop_body(tm, v)
                if not any(o.status == 'violated' for o in second):
                    for o in second:
                        o.what += ' [read with helpers inlined]'
                    first = second
                    break
        obs += first
    return obs, n


def _loop_body(tm, b):
    obs = []
    n = 0
    if True:
        for k, scc in enumerate(sorted(b.sccs(), key=lambda s: min(s))):
            n += 1
            key = 'LOOP|%s|#%d' % (b.name, k)
            adv = tm.advancing_blocks(b, scc) | tm.descent_blocks(b, scc)
            rest = sorted(scc - adv)
            succ = {x: [y for y in b.succ[x] if y in scc and y not in adv] for x in rest}
            cyc = _sccs(rest, succ)
            if cyc:
                obs.append(bad('LOOP', key, 'a loop in %s can iterate without consuming a character / token / iterator item (cycle through bb%s)' % (b.name.split('::')[-1], sorted(cyc[0])[:6]),
                               b.where(min(cyc[0])), body=b.name, bb=min(cyc[0])))
            else:
                obs.append(ok('LOOP', key, 'every cycle of this loop passes an advancing step (%d advancing block(s) in a %d-block cycle)' % (len(adv), len(scc)), b.where(min(scc))))
    return obs, n


def _scc_label(tm, prog, scc):
    roles = tm.roles
    members = [prog.by_id[x] for x in scc]
    if roles.token_next and roles.token_next.id in scc:
        return 'tokenizer-lookahead'
    tn = getattr(roles, 'tok_name', None)
    if tn and roles.token_next and all(m.arg_count >= 1 and tn in m.locals[1]['ty'] for m in members if not m.is_closure) \
            and any(m.id in tm.prog.reach([roles.token_next.id]) for m in members):
        # the scanner proper was split off the bookkeeping wrapper (`next` = save prev/cur + `scan_token`): the cycle
        # scan -> name -> look-ahead -> scan is the same recursion, one level below the role root
        return 'tokenizer-lookahead'
    if any(m.id in {p.id for p in roles.parse_bodies} for m in members):
        return 'parser-descent'
    names = sorted(m.name for m in members)
    if all(m.derived for m in members):
        tys = sorted({re.sub(r"<'\w+>", '', (m.impl_self or '?')) for m in members})
        return 'derived-impls-of:' + '+'.join(tys)
    pub = [m.name for m in members if m.is_pub and not m.is_closure]
    if pub:
        return 'through:' + sorted(pub)[0]
    imp = [m.name for m in members if m.impl_trait]
    # a private recursion entered only through one public wrapper that returns its result (`exec` = `Eval::new(ctx).eval(self)`):
    # the recursion the public function stands for
    entries = set()
    for m in members:
        for cid in prog.callers.get(m.id, ()):
            if cid in scc:
                continue
            cb = prog.by_id[cid]
            if cb.is_pub and not cb.is_closure and any(c.ruid == m.id and c.dest['l'] == 0 and not c.dest['p'] for c in cb.live_calls):
                entries.add(cb.name)
            else:
                entries.add(None)
    if len(entries) == 1 and None not in entries:
        return 'through:' + next(iter(entries))
    if imp:
        return 'through:' + sorted(imp)[0]
    return 'through:' + names[0]


def _has_depth_guard(prog, scc):
    """some body on the cycle compares an integer against a constant bound, fails on one side,
    and that test dominates its recursive calls"""
    for bid in scc:
        b = prog.by_id[bid]
        rec_calls = [c for c in b.live_calls if c.ruid in scc or any(cu in scc for cu, calls in prog.closure_call_sites.items() if any(cc.body is b and cc.bb == c.bb for cc in calls))]
        if not rec_calls:
            continue
        du = defuse(b)
        for sb in sorted(b.live_blocks):
            t = b.blocks[sb]['term']
            if t['k'] != 'switch':
                continue
            l = op_local(t['discr'])
            defs = du.defs.get(l, []) if l is not None else []
            if len(defs) == 1 and defs[0][2] == 'assign' and defs[0][3]['k'] == 'binop' and defs[0][3]['op'] in ('Lt', 'Le', 'Gt', 'Ge') \
                    and re.match(r'^(u|i)(8|16|32|64|size)$', defs[0][3].get('aty', '')):
                rv = defs[0][3]
                if op_const_int(rv['a']) is None and op_const_int(rv['b']) is None:
                    continue
                targets = [tb for v, tb in t['targets']] + [t['otherwise']]
                fails = [tb for tb in targets if r_errd.returns_failure_only(b, tb)[0] and not any(c.bb in b.reachable_from(tb) for c in rec_calls)]
                if fails and all(b.dominates(sb, c.bb) for c in rec_calls):
                    return b.name
    return None


def rule_rec(tm, reach_ids):
    prog = tm.prog
    obs = []
    sccs = prog.call_sccs(set(reach_ids))
    seen_labels = {}
    for scc in sccs:
        label = _scc_label(tm, prog, scc)
        k = seen_labels.get(label, 0)
        seen_labels[label] = k + 1
        key = 'REC|%s' % label
        g = _has_depth_guard(prog, scc)
        names = sorted(prog.by_id[x].name.split('::')[-1] if not prog.by_id[x].impl_trait else prog.by_id[x].name for x in scc)
        if label == 'tokenizer-lookahead':
            # look-ahead recursion runs on a *copy* of the scanner (nothing is consumed), so its cost is not bounded by
            # the input being used up: one recursive entry per activation is a chain (linear), two on one path
            # re-scan the rest of the input twice per token: exponential time
            fan = []
            for bid in sorted(scc):
                b = prog.by_id[bid]
                sites = [c for c in b.live_calls if c.ruid in scc or any(t in scc for t in prog.generic_cb_targets.get((b.id, c.bb), []))
                         or any(cu in scc for cu, calls in prog.closure_call_sites.items() if any(cc.body is b and cc.bb == c.bb for cc in calls))]
                for x in sites:
                    for y in sites:
                        if x is not y and y.bb in b.reachable_after(x.bb):
                            fan.append((b, x, y))
                    if x.bb in b.reachable_after(x.bb):
                        fan.append((b, x, x))
            k2 = 'REC-FANOUT|%s' % label
            if fan:
                b, x, y = fan[0]
                obs.append(bad('REC', k2, 'the look-ahead recursion is entered twice on one path in %s (%s at bb%d and %s at bb%d): every look-ahead re-scans the rest of the input twice, time doubles with every further name token — practically non-terminating' % (
                    b.name, (x.rdef or x.callee or '?').split('::')[-1], x.bb, (y.rdef or y.callee or '?').split('::')[-1], y.bb), x.where(), body=b.name, bb=x.bb))
            else:
                obs.append(ok('REC', k2, 'every body of the look-ahead cycle enters it at most once per activation: a chain, not a tree'))
        if g:
            obs.append(ok('REC', key, 'recursive cycle of %d bodies passes a depth guard in %s' % (len(scc), g)))
        else:
            obs.append(bad('REC', key, 'input-driven recursion without a depth guard (%d bodies: %s): nesting / run length proportional to the input exhausts the stack' % (len(scc), ', '.join(names)[:300]),
                           prog.by_id[sorted(scc)[0]].where(), members=names))
    return obs, len(sccs)
