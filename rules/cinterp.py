"""A small concrete interpreter for *pure* local bodies over scalars and field-less / small aggregates.

Used to evaluate character predicates on sample characters (`is_delim_char(ch) = DelimTokenType::from(ch).is_bracket()`,
`ch.is_ascii_digit() || matches!(ch, '.' | '_')`): the predicate is a finite computation on one character, so running the
MIR on a value decides it exactly.  Anything the interpreter does not understand raises Unknown (callers fail closed).

Values: int (char / bool / integer), str (a `&'static str` constant), ('adt', name, variant index, (fields..)), ('tuple', (fields..)).  References are
transparent (`&x` is the value of x; deref is the identity): the bodies read here never write through a reference.
"""
from facts import Call, op_const_str


class Unknown(Exception):
    pass


# Unicode White_Space (what char::is_whitespace accepts)
WHITE_SPACE = set(range(0x09, 0x0E)) | {0x20, 0x85, 0xA0, 0x1680} | set(range(0x2000, 0x200B)) | {0x2028, 0x2029, 0x202F, 0x205F, 0x3000}

_CHAR = 'std::char::methods::<impl char>::'
_U8 = 'core::num::<impl u8>::'


def _is(lo, hi):
    return lambda c: int(lo <= c <= hi)


STD_CHAR_METHODS = {
    'is_ascii': lambda c: int(c < 0x80),
    'is_ascii_digit': _is(0x30, 0x39),
    'is_ascii_alphabetic': lambda c: int(0x41 <= c <= 0x5A or 0x61 <= c <= 0x7A),
    'is_ascii_alphanumeric': lambda c: int(0x30 <= c <= 0x39 or 0x41 <= c <= 0x5A or 0x61 <= c <= 0x7A),
    'is_ascii_uppercase': _is(0x41, 0x5A),
    'is_ascii_lowercase': _is(0x61, 0x7A),
    'is_ascii_hexdigit': lambda c: int(0x30 <= c <= 0x39 or 0x41 <= c <= 0x46 or 0x61 <= c <= 0x66),
    'is_ascii_whitespace': lambda c: int(c in (0x20, 0x09, 0x0A, 0x0C, 0x0D)),
    'is_ascii_punctuation': lambda c: int(0x21 <= c <= 0x2F or 0x3A <= c <= 0x40 or 0x5B <= c <= 0x60 or 0x7B <= c <= 0x7E),
    'is_ascii_graphic': _is(0x21, 0x7E),
    'is_ascii_control': lambda c: int(c < 0x20 or c == 0x7F),
    'is_whitespace': lambda c: int(c in WHITE_SPACE),
}
# characters at which the std predicates above change their answer (for the finite partition of the domain)
STD_CHAR_EDGES = {
    'is_ascii': {0x7F, 0x80},
    'is_ascii_digit': {0x2F, 0x30, 0x39, 0x3A},
    'is_ascii_alphabetic': {0x40, 0x41, 0x5A, 0x5B, 0x60, 0x61, 0x7A, 0x7B},
    'is_ascii_alphanumeric': {0x2F, 0x30, 0x39, 0x3A, 0x40, 0x41, 0x5A, 0x5B, 0x60, 0x61, 0x7A, 0x7B},
    'is_ascii_uppercase': {0x40, 0x41, 0x5A, 0x5B},
    'is_ascii_lowercase': {0x60, 0x61, 0x7A, 0x7B},
    'is_ascii_hexdigit': {0x2F, 0x30, 0x39, 0x3A, 0x40, 0x41, 0x46, 0x47, 0x60, 0x61, 0x66, 0x67},
    'is_ascii_whitespace': {0x08, 0x09, 0x0A, 0x0B, 0x0C, 0x0D, 0x0E, 0x1F, 0x20, 0x21},
    'is_ascii_punctuation': {0x20, 0x21, 0x2F, 0x30, 0x39, 0x3A, 0x40, 0x41, 0x5A, 0x5B, 0x60, 0x61, 0x7A, 0x7B, 0x7E, 0x7F},
    'is_ascii_graphic': {0x20, 0x21, 0x7E, 0x7F},
    'is_ascii_control': {0x1F, 0x20, 0x7E, 0x7F, 0x80},
    'is_whitespace': set().union(*[{c - 1, c, c + 1} for c in WHITE_SPACE]),
}


def std_char_method(callee):
    n = callee or ''
    if n.startswith(_CHAR):
        return n[len(_CHAR):]
    return None


def _variant_index(facts, adt_name, variant):
    adt = facts.adt_by_name.get(adt_name)
    if adt is None:
        # Option / Result / bool-like std enums used in pure code
        std = {'None': 0, 'Some': 1, 'Ok': 0, 'Err': 1}
        if variant in std:
            return std[variant]
        raise Unknown('adt %s' % adt_name)
    if any(v.get('explicit_discr') for v in adt['variants']):
        raise Unknown('explicit discriminants in %s' % adt_name)
    for i, v in enumerate(adt['variants']):
        if v['name'] == variant:
            return i
    raise Unknown('variant')


class Interp:
    def __init__(self, prog, fuel=4000):
        self.prog = prog
        self.fuel = fuel

    def run(self, body, args, depth=0):
        if depth > 6:
            raise Unknown('depth')
        if len(args) != body.arg_count:
            raise Unknown('arity')
        env = {i + 1: a for i, a in enumerate(args)}
        bb = 0
        while True:
            self.fuel -= 1
            if self.fuel <= 0:
                raise Unknown('fuel')
            blk = body.blocks[bb]
            for st in blk['stmts']:
                k = st['k']
                if k in ('live', 'dead', 'nop', 'fake_read', 'coverage', 'retag', 'ascribe', 'const_eval_counter'):
                    continue
                if k != 'assign':
                    raise Unknown('stmt %s' % k)
                if st['pl']['p']:
                    raise Unknown('projected store')
                env[st['pl']['l']] = self.rvalue(body, env, st['rv'], depth)
            t = blk['term']
            tk = t['k']
            if tk == 'goto':
                bb = t['target']
            elif tk == 'switch':
                d = self.operand(body, env, t['discr'], depth)
                if not isinstance(d, int):
                    raise Unknown('switch on non-int')
                nxt = t['otherwise']
                for v, tb in t['targets']:
                    if v == d:
                        nxt = tb
                bb = nxt
            elif tk == 'return':
                if 0 not in env:
                    raise Unknown('no return value')
                return env[0]
            elif tk == 'drop':
                bb = t['target']
            elif tk == 'call':
                if t.get('target') is None or t['dest']['p']:
                    raise Unknown('call shape')
                c = Call(body, bb, t)
                vals = [self.operand(body, env, a, depth) for a in c.args]
                env[t['dest']['l']] = self.call(body, c, vals, depth)
                bb = t['target']
            else:
                raise Unknown('terminator %s' % tk)

    # -- operands / places
    def place(self, body, env, pl):
        if pl['l'] not in env:
            raise Unknown('unset local _%d' % pl['l'])
        v = env[pl['l']]
        for e in pl['p']:
            if e == 'deref':
                continue
            if isinstance(e, dict) and 'dc' in e:
                continue
            if isinstance(e, dict) and 'f' in e:
                if isinstance(v, tuple) and v[0] == 'adt':
                    fs = v[3]
                elif isinstance(v, tuple) and v[0] == 'tuple':
                    fs = v[1]
                else:
                    raise Unknown('field of scalar')
                if e['f'] >= len(fs):
                    raise Unknown('field index')
                v = fs[e['f']]
                continue
            raise Unknown('projection %r' % (e,))
        return v

    def operand(self, body, env, op, depth):
        if op['k'] == 'const':
            if 'int' in op:
                return op['int']
            cs = op_const_str(op)
            if cs is not None:
                return cs        # a &'static str constant: Python str
            if 'promoted' in op and 'uneval_uid' in op:
                pb = body.facts.promoted.get('%s::promoted[%d]' % (op['uneval_uid'], op['promoted']))
                if pb is None:
                    raise Unknown('promoted')
                return self.run(pb, [], depth + 1)
            raise Unknown('const %s' % op.get('s'))
        return self.place(body, env, op['pl'])

    def rvalue(self, body, env, rv, depth):
        k = rv['k']
        if k == 'use':
            return self.operand(body, env, rv['op'], depth)
        if k in ('ref', 'copy_for_deref', 'addr_of'):
            return self.place(body, env, rv['pl'])
        if k == 'binop':
            a, b = self.operand(body, env, rv['a'], depth), self.operand(body, env, rv['b'], depth)
            if not isinstance(a, int) or not isinstance(b, int):
                raise Unknown('binop on aggregate')
            op = rv['op']
            f = {'Eq': lambda: a == b, 'Ne': lambda: a != b, 'Lt': lambda: a < b, 'Le': lambda: a <= b, 'Gt': lambda: a > b, 'Ge': lambda: a >= b,
                 'BitOr': lambda: a | b, 'BitAnd': lambda: a & b, 'BitXor': lambda: a ^ b}.get(op)
            if f is None:
                raise Unknown('binop %s' % op)
            return int(f())
        if k == 'unop' and rv['op'] == 'Not':
            a = self.operand(body, env, rv['a'], depth)
            if a not in (0, 1):
                raise Unknown('not on non-bool')
            return int(not a)
        if k == 'cast':
            v = self.operand(body, env, rv['op'], depth)
            if isinstance(v, int) and rv.get('cast', '').startswith('IntToInt') and (rv.get('from'), rv.get('to')) in (
                    ('char', 'u32'), ('char', 'u64'), ('char', 'usize'), ('char', 'i64'), ('char', 'u128'), ('char', 'i128'), ('u8', 'char'), ('u8', 'u32'), ('bool', 'u8')):
                return v      # widenings keep the number (narrowing casts are not read here)
            raise Unknown('cast')
        if k == 'discr':
            v = self.place(body, env, rv['pl'])
            if isinstance(v, tuple) and v[0] == 'adt':
                return v[2]
            raise Unknown('discriminant of non-adt')
        if k == 'agg':
            ops = tuple(self.operand(body, env, o, depth) for o in rv['ops'])
            if rv['agg'] == 'adt':
                if rv.get('variant') is None:
                    return ('adt', rv.get('adt'), 0, ops)
                return ('adt', rv.get('adt'), _variant_index(body.facts, rv.get('adt'), rv['variant']), ops)
            if rv['agg'] == 'tuple':
                return ('tuple', ops)
            raise Unknown('aggregate %s' % rv['agg'])
        raise Unknown('rvalue %s' % k)

    # -- calls
    def call(self, body, c, vals, depth):
        m = std_char_method(c.callee)
        if m in STD_CHAR_METHODS and len(vals) == 1 and isinstance(vals[0], int):
            return STD_CHAR_METHODS[m](vals[0])
        g = self.prog.by_id.get(c.ruid) if c.ruid else None
        path = (c.fn or {}).get('path') or ''
        if g is None and c.callee == 'std::cmp::PartialEq::ne' and path.endswith('as std::cmp::PartialEq>::ne') and len(vals) == 2:
            eq = path[:-2] + 'eq'
            for b2 in self.prog.bodies:
                if b2.name == eq:
                    return int(not self.run(b2, vals, depth + 1))
            raise Unknown('no local eq for %s' % c.callee)
        if g is None:
            if (c.callee or '') in ('std::convert::Into::into',):
                tu = self.prog.conv_target_of(c) if hasattr(self.prog, 'conv_target_of') else None
                g = self.prog.by_id.get(tu) if tu else None
            if g is None:
                raise Unknown('external call %s' % c.callee)
        if g.is_closure:
            raise Unknown('closure call')
        return self.run(g, vals, depth + 1)


def callee_edges_and_consts(prog, body, depth=0, seen=None):
    """(char constants compared against, std predicate edge characters) in body and the local bodies it calls"""
    seen = seen if seen is not None else set()
    consts = set()
    if body.id in seen or depth > 4:
        return consts
    seen.add(body.id)
    for b in range(body.n):
        for st in body.blocks[b]['stmts']:
            if st['k'] == 'assign' and st['rv']['k'] == 'binop':
                for o in (st['rv']['a'], st['rv']['b']):
                    if o['k'] == 'const' and 'int' in o and o['ty'] in ('char', 'u32', 'u8'):
                        consts |= {o['int'] - 1, o['int'], o['int'] + 1}
        t = body.blocks[b]['term']
        if t['k'] == 'switch' and t.get('dty') in ('char', 'u32', 'u8'):
            for v, tb in t['targets']:
                consts |= {v - 1, v, v + 1}
        if t['k'] == 'call':
            c = Call(body, b, t)
            m = std_char_method(c.callee)
            if m in STD_CHAR_EDGES:
                consts |= STD_CHAR_EDGES[m]
            g = prog.by_id.get(c.ruid) if c.ruid else None
            if g is not None:
                consts |= callee_edges_and_consts(prog, g, depth + 1, seen)
            elif (c.callee or '') == 'std::convert::Into::into' and hasattr(prog, 'conv_target_of'):
                tu = prog.conv_target_of(c)
                if tu and tu in prog.by_id:
                    consts |= callee_edges_and_consts(prog, prog.by_id[tu], depth + 1, seen)
    return consts


# ----------------------------------------------------------------------------- partial evaluation from the middle of a body
class _Unk:
    def __repr__(self):
        return 'UNK'


UNK = _Unk()


class PartialInterp(Interp):
    """`Interp` started in the middle of a body with only some locals known (a scanning loop right after it drew a
    character): unknown locals read as UNK and UNK propagates through moves, aggregates and calls; a *decision* on UNK
    (a switch, an arithmetic result that is needed) raises Unknown — fail closed."""

    def place(self, body, env, pl):
        if pl['l'] not in env:
            return UNK
        v = env[pl['l']]
        for e in pl['p']:
            if v is UNK:
                return UNK
            if e == 'deref':
                continue
            if isinstance(e, dict) and 'dc' in e:
                continue
            if isinstance(e, dict) and 'f' in e:
                if isinstance(v, tuple) and v[0] == 'adt':
                    fs = v[3]
                elif isinstance(v, tuple) and v[0] == 'tuple':
                    fs = v[1]
                else:
                    return UNK
                if e['f'] >= len(fs):
                    return UNK
                v = fs[e['f']]
                continue
            return UNK
        return v

    def rvalue(self, body, env, rv, depth):
        k = rv['k']
        try:
            if k == 'binop':
                a, b = self.operand(body, env, rv['a'], depth), self.operand(body, env, rv['b'], depth)
                if a is UNK or b is UNK:
                    return UNK
            if k == 'unop':
                if self.operand(body, env, rv['a'], depth) is UNK:
                    return UNK
            if k == 'cast':
                if self.operand(body, env, rv['op'], depth) is UNK:
                    return UNK
            if k == 'discr':
                if self.place(body, env, rv['pl']) is UNK:
                    return UNK
            return Interp.rvalue(self, body, env, rv, depth)
        except Unknown:
            return UNK

    def walk(self, body, start_bb, env, outcome, max_steps=400, fn_params=None):
        """run from start_bb; `outcome(bb)` is asked on entering every block and ends the walk when it answers.
        fn_params: {parameter index of `body`: local body} for `fn(..)` / `impl Fn` parameters bound at the call site"""
        from analysis import trace_operand, single_origin
        fn_params = fn_params or {}
        bb = start_bb
        env = dict(env)
        for _ in range(max_steps):
            r = outcome(bb)
            if r is not None:
                return r
            blk = body.blocks[bb]
            for st in blk['stmts']:
                if st['k'] != 'assign':
                    continue
                if st['pl']['p']:
                    env[st['pl']['l']] = UNK
                    continue
                env[st['pl']['l']] = self.rvalue(body, env, st['rv'], 0)
            t = blk['term']
            tk = t['k']
            if tk == 'goto':
                bb = t['target']
            elif tk == 'switch':
                try:
                    d = self.operand(body, env, t['discr'], 0)
                except Unknown:
                    d = UNK
                if not isinstance(d, int):
                    raise Unknown('decision on an unknown value at bb%d' % bb)
                nxt = t['otherwise']
                for v, tb in t['targets']:
                    if v == d:
                        nxt = tb
                bb = nxt
            elif tk == 'return':
                return 'return'
            elif tk in ('drop', 'assert'):
                bb = t['target']
            elif tk == 'call':
                if t.get('target') is None:
                    raise Unknown('diverging call')
                c = Call(body, bb, t)
                val = UNK
                try:
                    vals = [self.operand(body, env, a, 0) for a in c.args]
                    bound = None
                    if fn_params and c.ruid is None:
                        fop = t['func'] if c.is_indirect else (c.args[0] if c.args and (c.callee or '') in ('std::ops::Fn::call', 'std::ops::FnMut::call_mut', 'std::ops::FnOnce::call_once') else None)
                        fo = single_origin(trace_operand(body, fop, through_calls=set())) if fop is not None and fop.get('k') != 'const' else None
                        if fo is not None and fo.kind == 'param' and not fo.proj:
                            bound = fn_params.get(fo.data)
                    if bound is not None:
                        if not c.is_indirect:
                            # Fn::call(f, (args,)): the argument tuple
                            tv = vals[1] if len(vals) == 2 else UNK
                            vals = list(tv[1]) if isinstance(tv, tuple) and tv[0] == 'tuple' else [UNK]
                        if not any(v is UNK for v in vals) and not bound.is_closure:
                            val = Interp(self.prog, fuel=2000).run(bound, vals, 1)
                    elif not any(v is UNK for v in vals):
                        val = Interp(self.prog, fuel=2000).call(body, c, vals, 0)
                except Unknown:
                    val = UNK
                if t['dest']['p']:
                    env[t['dest']['l']] = UNK
                else:
                    env[t['dest']['l']] = val
                bb = t['target']
            else:
                raise Unknown('terminator %s' % tk)
        raise Unknown('walk too long')
