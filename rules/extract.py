"""Fact extraction: run the rustc_private driver over a crate's current working tree.

The tree is hashed (every file except target/ and .git/); a cache under /verif/.work keyed by
(tree hash, driver hash, configuration) avoids re-running the compiler when several checks are
run on the same tree.  A fresh CARGO_TARGET_DIR per extraction keeps cargo's freshness cache
from skipping the wrapper.  Tool failure raises ToolError (exit 2 in `check`), never a verdict.
"""
import hashlib, os, subprocess, shutil, tempfile, fcntl, json, time, sys

VERIF = os.path.dirname(os.path.dirname(os.path.abspath(__file__)))
WORK = os.path.join(VERIF, '.work')
DRIVER = os.path.join(VERIF, 'driver', 'target', 'release', 'ee-facts')

CONFIGS = {
    # name: (RUSTFLAGS, extra cargo args)
    'base':      ('-Zmir-opt-level=0 -Awarnings -Cdebug-assertions=off -Coverflow-checks=on', []),
    'nooverflow': ('-Zmir-opt-level=0 -Awarnings -Cdebug-assertions=off -Coverflow-checks=off', []),
    'release':   ('-Zmir-opt-level=0 -Awarnings', ['--release']),
    'debugasserts': ('-Zmir-opt-level=0 -Awarnings -Cdebug-assertions=on -Coverflow-checks=on', []),
}


class ToolError(Exception):
    pass


def tree_hash(root):
    h = hashlib.sha256()
    for dirpath, dirnames, filenames in os.walk(root):
        dirnames[:] = sorted(d for d in dirnames if d not in ('target', '.git'))
        for fn in sorted(filenames):
            p = os.path.join(dirpath, fn)
            if os.path.islink(p) or not os.path.isfile(p):
                continue
            rel = os.path.relpath(p, root)
            h.update(rel.encode())
            h.update(b'\0')
            with open(p, 'rb') as f:
                h.update(f.read())
            h.update(b'\0')
    return h.hexdigest()[:24]


def driver_hash():
    h = hashlib.sha256()
    try:
        with open(DRIVER, 'rb') as f:
            h.update(f.read())
    except OSError:
        raise ToolError('driver binary missing: %s (run setup_cmd)' % DRIVER)
    return h.hexdigest()[:12]


def sysroot():
    try:
        return subprocess.check_output(['rustc', '+nightly', '--print', 'sysroot'], text=True).strip()
    except Exception as e:
        raise ToolError('nightly toolchain not available: %s' % e)


def extract(root, crate_name, config='base', use_cache=True):
    """returns (path to fact json, info dict)"""
    os.makedirs(os.path.join(WORK, 'cache'), exist_ok=True)
    th = tree_hash(root)
    key = '%s-%s-%s-%s' % (crate_name, th, driver_hash(), config)
    out = os.path.join(WORK, 'cache', key + '.json')
    info = {'tree_hash': th, 'config': config, 'cached': False, 'root': root}
    lock = open(os.path.join(WORK, 'cache', '.lock-' + key), 'w')
    fcntl.flock(lock, fcntl.LOCK_EX)
    try:
        if use_cache and os.path.exists(out) and os.path.getsize(out) > 0:
            info['cached'] = True
            try:
                os.utime(out, None)      # keep recently used fact files away from the pruning
            except OSError:
                pass
            return out, info
        t0 = time.time()
        tdir = tempfile.mkdtemp(prefix='tgt-', dir=WORK)
        fdir = tempfile.mkdtemp(prefix='facts-', dir=WORK)
        try:
            flags, extra = CONFIGS[config]
            env = dict(os.environ)
            env.update({
                'LD_LIBRARY_PATH': sysroot() + '/lib',
                'RUSTFLAGS': flags,
                'RUSTC_WORKSPACE_WRAPPER': DRIVER,
                'CARGO_TARGET_DIR': tdir,
                'EE_FACTS_OUT': fdir,
                'CARGO_NET_OFFLINE': 'true',
            })
            env.pop('RUSTC_WRAPPER', None)
            cmd = ['cargo', '+nightly', 'check', '--offline', '--lib'] + extra
            p = subprocess.run(cmd, cwd=root, env=env, stdout=subprocess.PIPE, stderr=subprocess.STDOUT, text=True)
            if p.returncode != 0:
                raise ToolError('cargo check failed for %s [%s]:\n%s' % (root, config, p.stdout[-4000:]))
            src = os.path.join(fdir, crate_name + '.json')
            if not os.path.exists(src):
                raise ToolError('driver wrote no fact file for crate %s (wrapper skipped?)\n%s' % (crate_name, p.stdout[-2000:]))
            with open(src) as f:
                j = json.load(f)
            if j.get('crate') != crate_name or not j.get('bodies'):
                raise ToolError('fact file does not describe crate %s' % crate_name)
            tmp = out + '.tmp%d' % os.getpid()
            shutil.copyfile(src, tmp)
            os.replace(tmp, out)
        finally:
            shutil.rmtree(tdir, ignore_errors=True)
            shutil.rmtree(fdir, ignore_errors=True)
        info['extract_s'] = round(time.time() - t0, 2)
        _gc_cache(keep=out)
        return out, info
    finally:
        fcntl.flock(lock, fcntl.LOCK_UN)
        lock.close()


def _gc_cache(keep, max_files=60):
    """best-effort pruning of old fact files; several checks may run concurrently, so every step
    tolerates files vanishing underneath it"""
    d = os.path.join(WORK, 'cache')
    try:
        files = []
        for f in os.listdir(d):
            if f.endswith('.json'):
                p = os.path.join(d, f)
                try:
                    files.append((os.path.getmtime(p), p))
                except OSError:
                    pass
        if len(files) <= max_files:
            return
        files.sort()
        for _, p in files[:len(files) - max_files]:
            if p != keep:
                for q in (p, os.path.join(d, '.lock-' + os.path.basename(p)[:-5])):
                    try:
                        os.remove(q)
                    except OSError:
                        pass
    except OSError:
        pass
