"""Fact loading and per-body CFG helpers over the JSON written by driver/ee-facts.

Everything here is structural (MIR blocks, resolved callees, types).  Nothing matches
source text or line numbers; spans are carried for reports only.
"""
import json, re, functools

# ----------------------------------------------------------------------------- operands / places

def pl_local(pl):
    return pl['l']

def pl_is_local(pl):
    return not pl['p']

def pl_str(pl):
    s = '_%d' % pl['l']
    for e in pl['p']:
        if e == 'deref':
            s = '(*%s)' % s
        elif isinstance(e, dict) and 'f' in e:
            s = '%s.%d' % (s, e['f'])
        elif isinstance(e, dict) and 'dc' in e:
            s = '(%s as %s)' % (s, e['dc'])
        elif isinstance(e, dict) and 'idx' in e:
            s = '%s[_%d]' % (s, e['idx'])
        elif isinstance(e, dict) and 'cidx' in e:
            s = '%s[%s%d]' % (s, '-' if e.get('from_end') else '', e['cidx'])
        else:
            s = '%s.<%s>' % (s, e)
    return s

def op_str(op):
    if op['k'] in ('copy', 'move'):
        return '%s %s' % (op['k'], pl_str(op['pl']))
    if op['k'] == 'const':
        if 'fn' in op:
            return 'fn %s' % op['fn']['path']
        return op['s']
    return op.get('dbg', '?')

def op_place(op):
    return op['pl'] if op['k'] in ('copy', 'move') else None

def op_local(op):
    """local index if the operand is a bare local (no projection)"""
    if op['k'] in ('copy', 'move') and not op['pl']['p']:
        return op['pl']['l']
    return None

def op_const_int(op):
    if op['k'] == 'const' and 'int' in op:
        return op['int']
    return None

_STR_RE = re.compile(r'^(?:const )?"(.*)"$', re.S)
_CHAR_RE = re.compile(r"^const '(.*)'$", re.S)

def _unescape(s):
    # rustc prints string constants with Rust escapes
    out = []
    i = 0
    while i < len(s):
        c = s[i]
        if c == '\\' and i + 1 < len(s):
            n = s[i + 1]
            if n == 'n': out.append('\n'); i += 2; continue
            if n == 't': out.append('\t'); i += 2; continue
            if n == 'r': out.append('\r'); i += 2; continue
            if n == '0': out.append('\0'); i += 2; continue
            if n == '\\': out.append('\\'); i += 2; continue
            if n == '"': out.append('"'); i += 2; continue
            if n == "'": out.append("'"); i += 2; continue
            if n == 'u' and i + 2 < len(s) and s[i + 2] == '{':
                j = s.index('}', i)
                out.append(chr(int(s[i + 3:j], 16))); i = j + 1; continue
        out.append(c); i += 1
    return ''.join(out)

def op_const_str(op):
    """content of a &str constant, else None"""
    if op['k'] == 'const' and op['ty'] in ('&str', "&'static str"):
        m = _STR_RE.match(op['s'])
        if m:
            return _unescape(m.group(1))
    return None

def op_const_char(op):
    if op['k'] == 'const' and op['ty'] == 'char':
        if 'int' in op:
            return chr(op['int'])
    return None

def rv_str(rv):
    k = rv['k']
    if k == 'use': return op_str(rv['op'])
    if k == 'ref': return '&%s%s' % ('mut ' if rv['mut'] else '', pl_str(rv['pl']))
    if k == 'rawptr': return '&raw %s' % pl_str(rv['pl'])
    if k == 'cast': return '%s as %s (%s)' % (op_str(rv['op']), rv['to'], rv['cast'])
    if k == 'binop': return '%s(%s, %s)' % (rv['op'], op_str(rv['a']), op_str(rv['b']))
    if k == 'unop': return '%s(%s)' % (rv['op'], op_str(rv['a']))
    if k == 'discr': return 'discriminant(%s)' % pl_str(rv['pl'])
    if k == 'agg':
        if rv['agg'] == 'adt':
            head = '%s::%s' % (rv['adt'], rv['variant'])
        elif rv['agg'] == 'closure':
            head = 'closure %s' % rv['closure']
        else:
            head = rv['agg']
        return '%s(%s)' % (head, ', '.join(op_str(o) for o in rv['ops']))
    if k == 'copy_for_deref': return 'deref_copy %s' % pl_str(rv['pl'])
    if k == 'repeat': return '[%s; n]' % op_str(rv['op'])
    return rv.get('dbg', k)


class Call:
    """one Call terminator"""
    __slots__ = ('body', 'bb', 'term', 'fn', 'args', 'dest', 'target', 'unwind')

    def __init__(self, body, bb, term):
        self.body = body
        self.bb = bb
        self.term = term
        f = term['func']
        self.fn = f.get('fn') if f['k'] == 'const' else None
        self.args = term['args']
        self.dest = term['dest']
        self.target = term['target']
        self.unwind = term['unwind']

    # original (unresolved) callee def path, e.g. std::ops::Fn::call
    @property
    def callee(self):
        return self.fn['def'] if self.fn else None

    @property
    def path(self):
        return self.fn['path'] if self.fn else ('indirect ' + self.term['fty'])

    @property
    def resolved(self):
        return self.fn['resolved'] if self.fn else {'kind': 'indirect'}

    @property
    def rdef(self):
        """resolved def path if any else the original"""
        if not self.fn:
            return None
        r = self.fn['resolved']
        return r.get('def', self.fn['def'])

    @property
    def ruid(self):
        """uid of resolved local body, if the callee resolves to a local item"""
        if not self.fn:
            return None
        r = self.fn['resolved']
        uid = None
        if r.get('kind') in ('item', 'closure_once_shim', 'reify_shim', 'fn_ptr_shim') and r.get('local'):
            uid = r['uid']
        elif r.get('kind') in ('unresolved', 'error') and self.fn.get('local'):
            uid = self.fn['uid']
        if uid is not None:
            # a trait method *declaration* called on a generic Self has no body of its own (its impls are reached
            # through Program.trait_targets)
            by_id = getattr(self.body.facts, 'by_id', None)
            if by_id is not None and uid not in by_id:
                return None
        return uid

    @property
    def is_virtual(self):
        return bool(self.fn) and self.fn['resolved'].get('kind') == 'virtual'

    @property
    def is_indirect(self):
        return self.fn is None

    @property
    def crate(self):
        if not self.fn:
            return None
        r = self.fn['resolved']
        return r.get('crate', self.fn['crate'])

    @property
    def span(self):
        return self.term['fn_span']

    @property
    def from_expansion(self):
        return self.term['fn_span'].get('exp', False)

    def where(self):
        sp = self.body.blocks[self.bb]['span']
        return '%s:%d' % (sp['file'], sp['line'])

    def __repr__(self):
        return '<call %s bb%d -> %s>' % (self.body.name, self.bb, self.path)


class Body:
    def __init__(self, j, facts):
        self.j = j
        self.facts = facts
        self.id = j['id']
        self.name = j['name']
        self.kind = j['kind']
        self.blocks = j['blocks']
        self.locals = j['locals']
        self.arg_count = j['arg_count']
        self.n = len(self.blocks)
        self._succ = None
        self._pred = None
        self._calls = None
        self._dom = None
        self._pdom = None

    # --- basic attributes
    @property
    def is_closure(self):
        return self.kind == 'Closure'

    @property
    def is_pub(self):
        return bool(self.j.get('pub'))

    @property
    def derived(self):
        return bool(self.j.get('derived'))

    @property
    def impl_trait(self):
        return self.j.get('impl_trait')

    @property
    def impl_self(self):
        return self.j.get('impl_self')

    @property
    def sig(self):
        return self.j.get('sig', '')

    @property
    def root(self):
        """uid of the enclosing fn for closures, else own id"""
        return self.j.get('root', self.id)

    def local_ty(self, l):
        return self.locals[l]['ty']

    def where(self, bb=None):
        sp = self.j['span'] if bb is None else self.blocks[bb]['span']
        return '%s:%d' % (sp['file'], sp['line'])

    def var_name(self, l):
        for v in self.j['vars']:
            if v['pl']['l'] == l and not v['pl']['p']:
                return v['name']
        return None

    # --- CFG (cleanup blocks / unwind edges excluded: the "normal" CFG)
    def term(self, bb):
        return self.blocks[bb]['term']

    def succs_of(self, bb, with_unwind=False):
        t = self.blocks[bb]['term']
        k = t['k']
        out = []
        if k == 'goto':
            out = [t['target']]
        elif k == 'switch':
            out = [x[1] for x in t['targets']] + [t['otherwise']]
        elif k in ('drop', 'assert'):
            out = [t['target']]
        elif k == 'call':
            if t['target'] is not None:
                out = [t['target']]
        if with_unwind and isinstance(t.get('unwind'), int):
            out = out + [t['unwind']]
        # dedupe preserving order
        seen = []
        for x in out:
            if x not in seen:
                seen.append(x)
        return seen

    @property
    def succ(self):
        if self._succ is None:
            self._succ = [self.succs_of(b) if not self.blocks[b]['cleanup'] else [] for b in range(self.n)]
        return self._succ

    @property
    def pred(self):
        if self._pred is None:
            p = [[] for _ in range(self.n)]
            for b in range(self.n):
                for s in self.succ[b]:
                    p[s].append(b)
            self._pred = p
        return self._pred

    def reachable_from(self, start, avoid=()):
        """blocks reachable from block `start` (inclusive) on the normal CFG without entering `avoid`"""
        avoid = set(avoid)
        seen = set()
        st = [start]
        while st:
            b = st.pop()
            if b in seen or b in avoid:
                continue
            seen.add(b)
            st.extend(self.succ[b])
        return seen

    def reachable_after(self, bb, avoid=()):
        """blocks reachable strictly after leaving block bb (bb itself only if on a cycle)"""
        out = set()
        for s in self.succ[bb]:
            out |= self.reachable_from(s, avoid)
        return out

    @property
    def live_blocks(self):
        return self.reachable_from(0)

    @property
    def dom(self):
        """dom[b] = set of blocks dominating b (normal CFG, entry 0)"""
        if self._dom is None:
            self._dom = _dominators(self.n, 0, self.succ, self.pred, self.live_blocks)
        return self._dom

    def dominates(self, a, b):
        return b in self.dom and a in self.dom[b]

    @property
    def exits(self):
        return [b for b in self.live_blocks if self.blocks[b]['term']['k'] == 'return']

    @property
    def calls(self):
        if self._calls is None:
            self._calls = [Call(self, b, self.blocks[b]['term'])
                           for b in range(self.n)
                           if self.blocks[b]['term']['k'] == 'call']
        return self._calls

    @property
    def live_calls(self):
        lb = self.live_blocks
        return [c for c in self.calls if c.bb in lb]

    def call_at(self, bb):
        t = self.blocks[bb]['term']
        if t['k'] == 'call':
            return Call(self, bb, t)
        return None

    def assigns(self):
        """yield (bb, idx, place, rvalue) for every Assign in non-cleanup live blocks"""
        lb = self.live_blocks
        for b in sorted(lb):
            for i, st in enumerate(self.blocks[b]['stmts']):
                if st['k'] == 'assign':
                    yield b, i, st['pl'], st['rv']

    def sccs(self):
        """non-trivial strongly connected components (cycles) of the normal CFG"""
        return _sccs(sorted(self.live_blocks), self.succ)

    def pretty(self):
        out = ['fn %s  [%s]  %s' % (self.name, self.id, self.where())]
        for i, l in enumerate(self.locals):
            nm = self.var_name(i)
            out.append('    let _%d: %s%s' % (i, l['ty'], ('  // ' + nm) if nm else ''))
        for b in range(self.n):
            blk = self.blocks[b]
            out.append('  bb%d%s:   // line %d' % (b, ' (cleanup)' if blk['cleanup'] else '', blk['span']['line']))
            for st in blk['stmts']:
                if st['k'] == 'assign':
                    out.append('      %s = %s' % (pl_str(st['pl']), rv_str(st['rv'])))
                elif st['k'] in ('live', 'dead'):
                    out.append('      Storage%s(_%d)' % (st['k'].capitalize(), st['l']))
                elif st['k'] == 'set_discr':
                    out.append('      discriminant(%s) = %d' % (pl_str(st['pl']), st['vi']))
                else:
                    out.append('      %s' % st.get('dbg', st['k']))
            t = blk['term']
            k = t['k']
            if k == 'call':
                c = Call(self, b, t)
                r = c.resolved
                extra = ''
                if r.get('kind') not in ('item',):
                    extra = ' {%s}' % r.get('kind')
                elif r.get('def') != (c.callee):
                    extra = ' {=> %s}' % r.get('def')
                out.append('      %s = %s(%s)%s -> bb%s unwind %s' % (
                    pl_str(t['dest']), c.path, ', '.join(op_str(a) for a in t['args']), extra,
                    t['target'], t['unwind']))
            elif k == 'switch':
                out.append('      switchInt(%s) [%s, otherwise: bb%d]' % (
                    op_str(t['discr']), ', '.join('%d: bb%d' % (v, tb) for v, tb in t['targets']), t['otherwise']))
            elif k == 'goto':
                out.append('      goto bb%d' % t['target'])
            elif k == 'drop':
                out.append('      drop(%s) -> bb%d unwind %s' % (pl_str(t['pl']), t['target'], t['unwind']))
            elif k == 'assert':
                out.append('      assert(%s%s, %s) -> bb%d' % ('' if t['expected'] else '!', op_str(t['cond']), t['kind'], t['target']))
            else:
                out.append('      %s' % k)
        return '\n'.join(out)


def _dominators(n, entry, succ, pred, live):
    # iterative set-based algorithm; bodies are small (<= a few hundred blocks)
    live = set(live)
    order = []
    seen = set()
    def dfs(b):
        st = [(b, iter(succ[b]))]
        seen.add(b)
        while st:
            node, it = st[-1]
            adv = False
            for s in it:
                if s not in seen:
                    seen.add(s)
                    st.append((s, iter(succ[s])))
                    adv = True
                    break
            if not adv:
                order.append(node)
                st.pop()
    dfs(entry)
    rpo = list(reversed(order))
    dom = {b: set(rpo) for b in rpo}
    dom[entry] = {entry}
    changed = True
    while changed:
        changed = False
        for b in rpo:
            if b == entry:
                continue
            ps = [p for p in pred[b] if p in dom]
            if not ps:
                continue
            new = set(dom[ps[0]])
            for p in ps[1:]:
                new &= dom[p]
            new.add(b)
            if new != dom[b]:
                dom[b] = new
                changed = True
    return dom


def _sccs(nodes, succ):
    """Tarjan; returns list of sets, only components containing a cycle"""
    index = {}
    low = {}
    onstack = set()
    stack = []
    out = []
    counter = [0]
    nodeset = set(nodes)
    def strong(v):
        # iterative Tarjan
        work = [(v, 0)]
        while work:
            node, i = work.pop()
            if i == 0:
                index[node] = low[node] = counter[0]
                counter[0] += 1
                stack.append(node)
                onstack.add(node)
            recurse = False
            ss = [s for s in (succ[node] if not isinstance(succ, dict) else succ.get(node, ())) if s in nodeset]
            for j in range(i, len(ss)):
                w = ss[j]
                if w not in index:
                    work.append((node, j + 1))
                    work.append((w, 0))
                    recurse = True
                    break
                elif w in onstack:
                    low[node] = min(low[node], index[w])
            if recurse:
                continue
            if low[node] == index[node]:
                comp = set()
                while True:
                    w = stack.pop()
                    onstack.discard(w)
                    comp.add(w)
                    if w == node:
                        break
                if len(comp) > 1 or node in ss:
                    out.append(comp)
            if work:
                parent = work[-1][0]
                low[parent] = min(low[parent], low[node])
    for v in nodes:
        if v not in index:
            strong(v)
    return out


class Facts:
    def __init__(self, path, j=None, like=None):
        if j is not None:
            # an already canonicalised / erased fact tree that was rewritten (openho.normalise)
            self.j = j
            self.renamed = like.renamed if like is not None else {}
            self.erased = like.erased if like is not None else {}
        else:
            with open(path) as f:
                text = f.read()
            import canon
            text, self.renamed = canon.canonicalise(text)      # {actual path: canonical path} (empty on the pinned layout)
            self.j = json.loads(text)
            import erase
            self.j, self.erased = erase.erase(self.j)          # {newtype over an integer: the integer} (empty on the pinned tree)
        self.crate = self.j['crate']
        self.bodies = [Body(b, self) for b in self.j['bodies']]
        self.by_id = {b.id: b for b in self.bodies}
        self.promoted = {p['id']: Body(p, self) for p in self.j.get('promoted', [])}
        self.statics = self.j['statics']
        self.adts = self.j['adts']
        self.impls = self.j['impls']
        self.unsafe = self.j['unsafe']
        self.adt_by_name = {a['name']: a for a in self.adts}

    def body(self, uid):
        return self.by_id.get(uid)

    def find(self, pred):
        return [b for b in self.bodies if pred(b)]

    def by_name(self, name):
        """bodies whose pretty def path equals `name` (public API anchors only)"""
        return [b for b in self.bodies if b.name == name]

    def closures_of(self, body):
        return [b for b in self.bodies if b.is_closure and b.j.get('parent') == body.id]
