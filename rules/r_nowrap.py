"""NOWRAP: no wrapping / masking / truncating integer construct (C04)."""
import re
from facts import op_const_int
from engine import ok, bad

INT_RE = re.compile(r'^(i|u)(8|16|32|64|128|size)$')
ARITH = {'Add', 'Sub', 'Mul', 'Div', 'Rem', 'AddWithOverflow', 'SubWithOverflow', 'MulWithOverflow',
         'AddUnchecked', 'SubUnchecked', 'MulUnchecked'}
SHIFT = {'Shl', 'Shr', 'ShlUnchecked', 'ShrUnchecked'}
DENY_METHOD = re.compile(r'^core::num::<impl (i|u)(8|16|32|64|128|size)>::(wrapping_\w+|overflowing_\w+|saturating_\w+|unchecked_\w+|unbounded_\w+|rotate_\w+|cast_signed|cast_unsigned)$')
DENY_DECIMAL = re.compile(r'^rust_decimal::Decimal::(saturating_\w+|wrapping_\w+)$')
# a Decimal leaving the decimal domain by a truncating / wrapping route
LOSSY_CONV = re.compile(r'(ToPrimitive>?::to_(i|u)(8|16|32|64|128|size)$|^rust_decimal::Decimal::(mantissa|trunc|trunc_with_scale|floor|ceil|round|round_dp\w*|unpack|serialize)$)')
INTEGRAL_TESTS = {'rust_decimal::Decimal::is_integer'}

INT_BITS = {'8': 8, '16': 16, '32': 32, '64': 64, '128': 128, 'size': 64}


def _narrowing(frm, to):
    mf, mt = INT_RE.match(frm), INT_RE.match(to)
    if not mf or not mt:
        return False
    bf, bt = INT_BITS[mf.group(2)], INT_BITS[mt.group(2)]
    sf, st = mf.group(1) == 'i', mt.group(1) == 'i'
    if bt < bf:
        return True
    if sf != st:
        # same width sign change always lossy; widening signed->unsigned lossy; unsigned->wider signed fine
        if bt == bf:
            return True
        if sf and not st:
            return True
    return False


def _sign_flag_guard(body, c):
    """the call is dominated by the `false` edge of is_sign_negative() or the `true` edge of is_sign_positive()"""
    from r_panic import bool_source, edge_dominates, switch_edges
    for sb in sorted(body.live_blocks):
        t = body.blocks[sb]['term']
        if t['k'] != 'switch':
            continue
        src = bool_source(body, t['discr'])
        if src is None:
            continue
        tc, parity = src
        nm = (tc.rdef or tc.callee or '')
        want = {'rust_decimal::Decimal::is_sign_negative': 0, 'rust_decimal::Decimal::is_sign_positive': 1}.get(nm)
        if want is None:
            continue
        listed = [v for v, _ in t['targets']]
        for v, tb in switch_edges(body, sb):
            tv = (1 if listed == [0] else 0 if listed == [1] else None) if v == 'otherwise' else (1 if v != 0 else 0)
            if tv is not None and (tv ^ parity) == want and edge_dominates(body, sb, tb, c.bb):
                return True
    return False


def _integral_guard(body, c):
    from r_panic import bool_source, edge_dominates, switch_edges
    from analysis import defuse, trace_operand, single_origin
    from facts import op_local
    for sb in sorted(body.live_blocks):
        t = body.blocks[sb]['term']
        if t['k'] != 'switch':
            continue
        src = bool_source(body, t['discr'])
        if src is None:
            continue
        tc, parity = src
        if (tc.rdef or tc.callee) == 'rust_decimal::Decimal::is_zero' and tc.args:
            fo = single_origin(trace_operand(body, tc.args[0], through_calls=set(['std::ops::Deref::deref'])))
            if fo is not None and fo.kind == 'callres' and (fo.data.callee or '').endswith('Decimal::fract'):
                tc_ok = True
            else:
                tc_ok = False
        else:
            tc_ok = (tc.rdef or tc.callee) in INTEGRAL_TESTS
        if tc_ok:
            listed = [v for v, _ in t['targets']]
            for v, tb in switch_edges(body, sb):
                tv = (1 if listed == [0] else 0 if listed == [1] else None) if v == 'otherwise' else (1 if v != 0 else 0)
                if tv is not None and (tv ^ parity) == 1 and edge_dominates(body, sb, tb, c.bb):
                    return True
    # `x.scale() == 0` on the true edge
    du = defuse(body)
    for sb in sorted(body.live_blocks):
        t = body.blocks[sb]['term']
        if t['k'] != 'switch':
            continue
        l = op_local(t['discr'])
        defs = du.defs.get(l, []) if l is not None else []
        if len(defs) == 1 and defs[0][2] == 'assign' and defs[0][3]['k'] == 'binop' and defs[0][3]['op'] == 'Eq' and op_const_int(defs[0][3]['b']) == 0:
            ao = single_origin(trace_operand(body, defs[0][3]['a'], through_calls=set()))
            if ao is not None and ao.kind == 'callres' and (ao.data.callee or '').endswith('Decimal::scale'):
                listed = [v for v, _ in t['targets']]
                for v, tb in switch_edges(body, sb):
                    tv = (1 if listed == [0] else 0 if listed == [1] else None) if v == 'otherwise' else (1 if v != 0 else 0)
                    if tv == 1 and edge_dominates(body, sb, tb, c.bb):
                        return True
    return False


# bodies of built-in *functions the documented language does not have* (`round`, `floor`, `ceil` added by a feature) and
# what only they call: dropping digits there is what the function is for, not a silent truncation (set by props)
UNDOCUMENTED_HANDLER_BODIES = set()


def rule_nowrap(bodies, rule='NOWRAP'):
    obs = []
    n = 0
    for body in bodies:
        cnt = {}
        for b, i, pl, rv in body.assigns():
            sp = body.blocks[b]['stmts'][i].get('span', {})
            if sp.get('exp'):
                pass
            if rv['k'] == 'binop' and INT_RE.match(rv.get('aty', '')) and not (rv['a']['k'] == 'const' and rv['b']['k'] == 'const'):
                op = rv['op']
                what = None
                if op in SHIFT:
                    if op_const_int(rv['b']) is None:
                        what = 'primitive %s with a non-constant count on %s: panics in debug builds, masks the count in release builds' % (op, rv['aty'])
                elif op in ARITH:
                    what = 'primitive %s on %s: panics (overflow checks on) or wraps (off)' % (op, rv['aty'])
                if what:
                    k = cnt.get(op, 0); cnt[op] = k + 1
                    n += 1
                    obs.append(bad(rule, '%s|%s|binop:%s|#%d' % (rule, body.name, op.replace('WithOverflow', ''), k), what, '%s:%d' % (sp.get('file', '?'), sp.get('line', 0)), body=body.name, bb=b))
            elif rv['k'] == 'unop' and rv['op'] == 'Neg' and INT_RE.match(rv.get('aty', '')):
                k = cnt.get('Neg', 0); cnt['Neg'] = k + 1
                obs.append(bad(rule, '%s|%s|unop:Neg|#%d' % (rule, body.name, k), 'primitive negation of %s overflows on MIN' % rv['aty'], '%s:%d' % (sp.get('file', '?'), sp.get('line', 0)), body=body.name, bb=b))
            elif rv['k'] == 'cast':
                ck = rv['cast']
                if ck == 'IntToInt' and rv['op']['k'] != 'const' and _narrowing(rv['from'], rv['to']):
                    k = cnt.get('cast', 0); cnt['cast'] = k + 1
                    obs.append(bad(rule, '%s|%s|cast:%s->%s|#%d' % (rule, body.name, rv['from'], rv['to'], k), '`as` cast %s -> %s truncates / changes sign silently' % (rv['from'], rv['to']),
                                   '%s:%d' % (sp.get('file', '?'), sp.get('line', 0)), body=body.name, bb=b))
                elif ck == 'FloatToInt' and rv['op']['k'] != 'const':
                    k = cnt.get('cast', 0); cnt['cast'] = k + 1
                    obs.append(bad(rule, '%s|%s|cast:%s->%s|#%d' % (rule, body.name, rv['from'], rv['to'], k), 'float -> int `as` cast saturates / truncates silently',
                                   '%s:%d' % (sp.get('file', '?'), sp.get('line', 0)), body=body.name, bb=b))
        for c in body.live_calls:
            nme = c.rdef or c.callee or ''
            if (LOSSY_CONV.search(nme) or LOSSY_CONV.search(c.callee or '')) and c.fn and any('rust_decimal::Decimal' in a for a in c.fn.get('args', []) + c.term['arg_tys']):
                if getattr(body, 'orig_id', body.id) in UNDOCUMENTED_HANDLER_BODIES and re.search(r'::(round\w*|trunc\w*|floor|ceil|fract|rescale|normalize)$', nme):
                    continue
                if re.search(r'ToPrimitive>?::to_u(8|16|32|64|128|size)$', nme) and not _sign_flag_guard(body, c):
                    # an unsigned target refuses every Decimal that carries the sign flag, a zero with the flag set (`-0`,
                    # the negation of 0, Value::from(-0.0)) included: a guard on the numeric order (`val < 0`) does not cover it
                    k = cnt.get(nme + '#sign', 0); cnt[nme + '#sign'] = k + 1
                    obs.append(bad(rule, '%s|%s|unsigned:%s|#%d' % (rule, body.name, nme.split('::')[-1], k),
                                   '%s refuses every Decimal carrying the sign flag (a negative zero included) and is not behind a test of that flag (is_sign_negative / is_sign_positive): a number whose value is the integer 0 is rejected' % nme, c.where(), body=body.name, bb=c.bb))
                    continue
                if not _integral_guard(body, c):
                    k = cnt.get(nme, 0); cnt[nme] = k + 1
                    obs.append(bad(rule, '%s|%s|lossy:%s|#%d' % (rule, body.name, nme.split('::')[-1], k),
                                   '%s drops the fractional part / high bits of a Decimal without a dominating is_integer() test: a non-integral or out-of-range number is silently truncated' % nme, c.where(), body=body.name, bb=c.bb))
                continue
            if DENY_METHOD.match(nme) or DENY_METHOD.match(c.callee or '') or DENY_DECIMAL.match(nme):
                k = cnt.get(nme, 0); cnt[nme] = k + 1
                obs.append(bad(rule, '%s|%s|call:%s|#%d' % (rule, body.name, nme, k), '%s silently wraps / saturates / masks' % nme, c.where(), body=body.name, bb=c.bb))
    if not obs:
        obs.append(ok(rule, '%s|none' % rule, 'no primitive integer arithmetic, non-constant shift, narrowing cast or wrapping/saturating method in %d bodies' % len(bodies)))
    return obs
