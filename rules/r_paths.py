"""Thorough-tier second decision procedure for ORDER: explicit path enumeration over the
site-reduced CFG of every evaluator body.  Its verdicts must agree with the dominance-based
rules of r_order (a disagreement is itself reported as a violation)."""
from engine import ok, bad
import r_order


def reduced_paths(body, site_blocks, limit=20000):
    """paths entry -> return through the graph whose nodes are the site blocks: a->b if b is
    reachable from a without crossing another site block.  Loops: each node at most twice."""
    sites = sorted(site_blocks)
    nodes = ['entry'] + sites + ['ret']
    rets = {b for b in body.live_blocks if body.blocks[b]['term']['k'] == 'return'}

    def nxt(frm):
        starts = [0] if frm == 'entry' else body.succ[frm]
        seen = set()
        out = set()
        st = list(starts)
        while st:
            b = st.pop()
            if b in seen:
                continue
            seen.add(b)
            if b in site_blocks:
                out.add(b)
                continue
            if b in rets:
                out.add('ret')
            st.extend(body.succ[b])
        return out
    adj = {n: nxt(n) for n in nodes if n != 'ret'}
    paths = []
    stack = [('entry', ())]
    while stack:
        n, path = stack.pop()
        if len(paths) > limit:
            return paths, True
        for m in adj.get(n, ()):
            if m == 'ret':
                paths.append(path)
            elif path.count(m) < 2:
                stack.append((m, path + (m,)))
    return paths, False


def rule_paths(em):
    obs = []
    total = 0
    for body in em.bodies:
        kinds = {}
        for c in em.child_sites(body):
            kinds[c.bb] = ('child', em.child_prov(c), c)
        for c in em.handler_sites(body):
            kinds[c.bb] = ('handler', None, c)
        nexts = {}
        for c in em.child_sites(body):
            n = r_order._next_call_of(em, body, c)
            if n is not None:
                kinds.setdefault(n.bb, ('next', None, n))
        if not kinds:
            continue
        paths, truncated = reduced_paths(body, set(kinds))
        total += len(paths)
        problems = set()
        for p in paths:
            seen_handler = False
            last_key = {}
            seen_field = set()
            since_next = set()
            tern_branch = None
            tern_cond = False
            for bb in p:
                k, prov, c = kinds[bb]
                if k == 'handler':
                    seen_handler = True
                elif k == 'next':
                    since_next = set()
                    last_key = {kk: v for kk, v in last_key.items() if not kk[1]}
                elif k == 'child':
                    if seen_handler:
                        problems.add('O5: a child is evaluated after the handler call on a path')
                    if prov is None:
                        continue
                    root = r_order.prov_root(prov)
                    if root is None:
                        continue
                    key = r_order.prov_order_key(prov)
                    is_item = prov[0] != 'F'
                    lk = (root[0], is_item)
                    if lk in last_key and key < last_key[lk]:
                        problems.add('O1: %s evaluated after a later sibling on a path' % r_order.prov_str(prov))
                    last_key[lk] = key
                    if not is_item:
                        if prov in seen_field:
                            problems.add('O2: %s evaluated twice on a path' % r_order.prov_str(prov))
                        seen_field.add(prov)
                    else:
                        if prov in since_next:
                            problems.add('O2: %s evaluated twice for one item on a path' % r_order.prov_str(prov))
                        since_next.add(prov)
                    if root[0] == 'Ternary':
                        if root[1] == 0:
                            tern_cond = True
                        else:
                            if not tern_cond:
                                problems.add('O3: a branch is evaluated before the condition on a path')
                            if tern_branch is not None and tern_branch != root[1]:
                                problems.add('O3: both branches of the conditional are evaluated on a path')
                            tern_branch = root[1]
        key = 'PATHS|%s' % body.name
        if problems:
            obs.append(bad('ORDER-PATHS', key, 'path enumeration (%d site-reduced paths%s): %s' % (len(paths), ', truncated' if truncated else '', '; '.join(sorted(problems))), body.where(), body=body.name))
        else:
            obs.append(ok('ORDER-PATHS', key, 'all %d site-reduced entry->return paths%s respect order, at-most-once, laziness and call-after-arguments' % (len(paths), ' (truncated)' if truncated else ''), body.where()))
    return obs, total
