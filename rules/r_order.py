"""ORDER (C07) and the evaluator roles shared with C06 / C08 / C15.

Child-evaluation sites are the calls to the public `ExprAST::exec`.  Each gets a provenance
relative to the node being evaluated:
    ('F', variant, i)                 field i of the node's variant  (through the dispatch in exec)
    ('I', <prov of the container>)    an item of a forward iteration over that container
    ('T', <prov of the item>, j)      tuple component j of that item
Provenance is traced through the helper's parameters to the dispatching call site, so the rule
keeps holding if helpers are renamed, merged or inlined.
"""
import re
from facts import op_local, op_place, Call
from analysis import (defuse, trace_operand, trace_local, single_origin, Origin, TRY_BRANCH,
                      FROM_RESIDUAL, TRANSPARENT_CALLS, dyn_fn_class)
from engine import ok, bad, assumed, floor

EXEC = "parser::ExprAST::<'a>::exec"
THROUGH = set(TRANSPARENT_CALLS) | {'std::clone::Clone::clone', 'std::borrow::ToOwned::to_owned', 'std::convert::Into::into'}
FORWARD_ITER_MAKERS = {'std::iter::IntoIterator::into_iter', 'std::slice::<impl [T]>::iter', 'core::slice::<impl [T]>::iter',
                       'std::vec::Vec::<T, A>::iter', 'std::slice::<impl [T]>::iter_mut'}
FORWARD_NEXT_RE = re.compile(r"^<(std::vec::IntoIter<T, A>|std::slice::Iter<'a, T>|std::slice::IterMut<'a, T>) as std::iter::Iterator>::next$")


class EvalModel:
    def __init__(self, prog, inlined=False):
        """inlined=True: one evaluator body = the view of `exec` with every evaluator helper (the bodies on the
        exec recursion, other than exec itself) and every combinator closure inlined — the same program, read
        without its helper boundaries (used when a rule cannot read the helper structure as written)"""
        self.prog = prog
        self.inlined = inlined
        ex = [b for b in prog.bodies if b.name == EXEC]
        self.exec = ex[0] if ex else None
        self.reach = prog.reach([self.exec.id]) if self.exec else set()
        self.bodies = []
        self.root, self.node_param = self.exec, 1
        if not self.exec:
            self.eval_ids = set()
            return
        # `exec` may only wrap the evaluator proper (`Eval::new(ctx).eval(self)`): the recursive evaluator is then the
        # private body it hands its node to, and the node is whichever parameter of that body receives it
        for _ in range(2):
            r = self.root
            adt_switch = any(st['k'] == 'assign' and st['rv']['k'] == 'discr' and 'parser::ExprAST' in (st['rv']['pl'].get('ty') or '')
                             for blk in r.blocks for st in blk['stmts'])
            if adt_switch:
                break
            cands = []
            for c in r.live_calls:
                g = prog.by_id.get(c.ruid) if c.ruid else None
                if g is None or g.id == r.id or g.is_closure:
                    continue
                for k, a in enumerate(c.args):
                    o = single_origin(trace_operand(r, a, through_calls=THROUGH))
                    if o is not None and o.kind == 'param' and o.data == self.node_param and not o.proj and k + 1 <= g.arg_count \
                            and 'parser::ExprAST' in g.locals[k + 1]['ty'] and (g.locals[0]['ty'] == r.locals[0]['ty'] or re.match(r'^<\w+ as [^>]*(<.*>)?>::\w+$', g.locals[0]['ty'])):
                        # (second form: a generic `fn accept<V: Visitor>(&self, v: &mut V) -> V::Out`, instantiated once)
                        cands.append((g, k + 1))
            if len(cands) != 1:
                break
            self.root, self.node_param = cands[0]
        self.eval_ids = {self.exec.id, self.root.id}
        if inlined:
            rex = set(self.eval_ids)
            changed = True
            while changed:
                changed = False
                for bid, succ in prog.edges.items():
                    if bid not in rex and any(x in rex for x in succ):
                        rex.add(bid)
                        changed = True
            helpers = {bid for bid in self.reach if bid in rex and bid not in self.eval_ids}
            # private *higher-order* helpers that are handed a closure by the evaluator (`call_prefix(op, || rhs.exec(ctx))`):
            # what they evaluate and when depends on that closure, so they are read at their call sites too
            for bid in self.reach:
                g = prog.by_id[bid]
                if bid in helpers or bid in self.eval_ids or g.is_closure or g.j.get('reachable', g.is_pub):
                    continue
                if any(re.search(r'Fn(Mut|Once)?\(', g.locals[k]['ty']) or 'closure@' in g.locals[k]['ty'] or re.match(r'^(&(mut )?)?[A-Z]\w{0,3}$', g.locals[k]['ty'])
                       for k in range(1, g.arg_count + 1)):
                    if any(c in rex for c in prog.callers.get(bid, ())):
                        helpers.add(bid)
            self.ctx_writers()
            v = prog.view(self.root, keep=lambda g: g.id not in helpers or g.id in self._cw, tag='eval')
            self.bodies = [v]
            # whatever was not opened into the view (closures handed to iterator adaptors, helpers beyond the
            # inlining bound) is still an evaluator body of its own
            opened = set(v.j.get('inlined') or []) if getattr(v, 'is_view', False) else set()
            for bid in sorted(self.reach):
                b = prog.by_id[bid]
                if b.id == self.root.id or b.name in opened:
                    continue
                if self.child_sites(b) or self.handler_sites(b) or self.ctx_writes(b):
                    self.bodies.append(b)
            return
        for bid in sorted(self.reach):
            b = prog.by_id[bid]
            if self.child_sites(b) or self.handler_sites(b) or self.ctx_writes(b):
                self.bodies.append(b)

    # --- site kinds
    def child_sites(self, body):
        return [c for c in body.live_calls if c.ruid in self.eval_ids and self.node_arg(c) is not None
                and not (c.ruid == self.root.id and getattr(body, 'orig_id', body.id) == self.exec.id and self.root is not self.exec)]

    def node_arg(self, c):
        """the operand of an evaluation call that denotes the node to evaluate"""
        k = 0 if c.ruid == self.exec.id else self.node_param - 1
        return c.args[k] if k < len(c.args) else None

    def handler_sites(self, body):
        out = []
        for c in body.live_calls:
            if (c.is_virtual or c.is_indirect):
                ty = c.term['arg_tys'][0] if (c.is_virtual and c.term['arg_tys']) else c.term['fty']
                if dyn_fn_class(ty) == 'handler':
                    out.append(c)
        return out

    def ctx_writers(self):
        """the context-writing API: local bodies that (transitively) mutate the context map and
        are not part of the evaluator recursion (do not reach exec)"""
        if hasattr(self, '_cw'):
            return self._cw
        prog = self.prog
        direct = set()
        for b in prog.bodies:
            for c in b.live_calls:
                if (c.callee or '').startswith('std::collections::HashMap::<K, V, S, A>::') and c.callee.split('::')[-1] in (
                        'insert', 'remove', 'clear', 'entry', 'retain', 'extend', 'get_mut', 'drain', 'try_insert', 'remove_entry', 'insert_unique_unchecked'):
                    if 'context::ContextValue' in ' '.join(c.term['arg_tys']) or 'context::ContextValue' in c.term['dest']['ty']:
                        direct.add(b.id)
        reach_exec = set()
        sat = set(direct)
        changed = True
        while changed:
            changed = False
            for bid, succ in prog.edges.items():
                if bid not in sat and any(s in sat for s in succ):
                    sat.add(bid)
                    changed = True
        rex = set(self.eval_ids)
        changed = True
        while changed:
            changed = False
            for bid, succ in prog.edges.items():
                if bid not in rex and any(s in rex for s in succ):
                    rex.add(bid)
                    changed = True
        self._cw_direct = direct
        self._cw = sat - rex
        return self._cw

    def ctx_writes(self, body):
        """context write sites of an evaluator body: calls into the context-writing API, or a direct
        HashMap mutator on the context map (argument positions are the same: map/ctx, name, value)"""
        cw = self.ctx_writers()
        if body.id in cw:
            return []
        out = [c for c in body.live_calls if c.ruid in cw]
        if body.id in self._cw_direct or getattr(body, 'is_view', False):
            for c in body.live_calls:
                if (c.callee or '').startswith('std::collections::HashMap::<K, V, S, A>::') and c.callee.split('::')[-1] in (
                        'insert', 'remove', 'clear', 'entry', 'retain', 'extend', 'get_mut', 'drain', 'try_insert', 'remove_entry'):
                    if 'context::ContextValue' in ' '.join(c.term['arg_tys']) or 'context::ContextValue' in c.term['dest']['ty']:
                        out.append(c)
        return out

    # --- provenance
    def prov_of_operand(self, body, op, depth=0):
        """provenance of a value relative to the evaluated node; None = not traceable (⊤)"""
        origins = trace_operand(body, op, through_calls=THROUGH)
        o = single_origin(origins)
        if o is None:
            # a reference *selected* between two children (`match cond { true => lhs, false => rhs }` handed on as
            # one `&ExprAST`): provenance ('SEL', p1, p2); only the conditional may do that (checked by O3)
            if len(origins) == 2 and depth == 0:
                ps = sorted({self._prov(body, x, depth + 1) for x in origins if x is not None}, key=str)
                if len(ps) == 2 and all(p is not None and p[0] == 'F' and p[1] == 'Ternary' for p in ps) and {p[2] for p in ps} == {1, 2}:
                    return ('SEL', ps[0], ps[1])
            return None
        return self._prov(body, o, depth)

    def _prov(self, body, o, depth):
        if depth > 6:
            return None
        if o.kind == 'param':
            if getattr(body, 'orig_id', body.id) == self.root.id and o.data == self.node_param:
                return self._field_path(o.proj)
            # map through every call site of this helper inside the evaluator
            provs = set()
            sites = []
            for caller_id in self.prog.callers.get(body.id, ()):
                if caller_id not in self.reach:
                    continue
                for c in self.prog.edge_sites.get((caller_id, body.id), []):
                    sites.append(c)
            if not sites:
                return None
            for c in sites:
                k = o.data - 1
                if k >= len(c.args):
                    return None
                base = self.prov_of_operand(c.body, c.args[k], depth + 1)
                if base is None:
                    return None
                provs.add(self._extend(base, o.proj))
            if len(provs) == 1:
                return next(iter(provs))
            return None
        if o.kind == 'callres':
            c = o.data
            rd = c.rdef or ''
            if FORWARD_NEXT_RE.match(rd) and o.proj[:2] == (('dc', 'Some'), ('f', 0)):
                # receiver: iterator made directly from the container
                it = single_origin(trace_operand(body, c.args[0], through_calls=THROUGH))
                if it is None or it.kind != 'callres' or it.proj:
                    return None
                mk = it.data
                if mk.callee not in FORWARD_ITER_MAKERS:
                    return None
                # `x.into_iter()` in a `for` desugars to into_iter(into_iter(x)): identity on iterators
                for _ in range(3):
                    inner = single_origin(trace_operand(body, mk.args[0], through_calls=THROUGH))
                    if inner is not None and inner.kind == 'callres' and not inner.proj and inner.data.callee in FORWARD_ITER_MAKERS:
                        mk = inner.data
                    else:
                        break
                cont = self.prov_of_operand(body, mk.args[0], depth + 1)
                if cont is None:
                    return None
                p = ('I', cont)
                return self._extend(p, o.proj[2:])
            return None
        return None

    def _field_path(self, proj):
        # (dc V)(f i) [more]
        if len(proj) >= 2 and proj[0][0] == 'dc' and proj[1][0] == 'f':
            p = ('F', proj[0][1], proj[1][1])
            return self._extend(p, proj[2:])
        if not proj:
            return ('SELF',)
        return None

    def _extend(self, p, proj):
        for e in proj:
            if e[0] == 'f':
                if p[0] == 'SELF':
                    return None
                p = ('T', p, e[1])
            elif e[0] == 'dc':
                if p[0] == 'SELF':
                    p = ('V', e[1])
                    continue
                return None
            else:
                return None
        # normalise ('T', ('V', name), i) -> ('F', name, i)
        return _norm(p)

    def child_prov(self, c):
        return self.prov_of_operand(c.body, self.node_arg(c))


def _norm(p):
    if p and p[0] == 'T' and p[1] and p[1][0] == 'V':
        return ('F', p[1][1], p[2])
    if p and p[0] == 'T':
        return ('T', _norm(p[1]), p[2])
    if p and p[0] == 'I':
        return ('I', _norm(p[1]))
    return p


def prov_str(p):
    if p is None:
        return '⊤'
    if p[0] == 'SEL':
        return 'selected(%s | %s)' % (prov_str(p[1]), prov_str(p[2]))
    if p[0] == 'F':
        return '%s.%d' % (p[1], p[2])
    if p[0] == 'I':
        return 'item(%s)' % prov_str(p[1])
    if p[0] == 'T':
        return '%s.%d' % (prov_str(p[1]), p[2])
    return str(p)


def prov_root(p):
    """(variant, field) the provenance hangs off"""
    while p and p[0] in ('I', 'T'):
        p = p[1]
    if p and p[0] == 'F':
        return (p[1], p[2])
    return None


def prov_order_key(p):
    """comparable key inside one variant: field index, then tuple index"""
    r = prov_root(p)
    t = []
    q = p
    while q and q[0] in ('I', 'T'):
        if q[0] == 'T':
            t.append(q[2])
        q = q[1]
    return (r[1] if r else -1, tuple(reversed(t)))


def in_cycle(body, bb):
    return bb in body.reachable_after(bb)


def cycles_with(body, bb):
    return [s for s in body.sccs() if bb in s]


def err_edge_of_try(body, try_call):
    """(switch bb, Break target) for the `?` whose Try::branch call is try_call"""
    l = try_call.dest['l']
    du = defuse(body)
    for b in sorted(body.live_blocks):
        t = body.blocks[b]['term']
        if t['k'] != 'switch':
            continue
        dl = op_local(t['discr'])
        defs = du.defs.get(dl, []) if dl is not None else []
        if len(defs) == 1 and defs[0][2] == 'assign' and defs[0][3]['k'] == 'discr' and defs[0][3]['pl']['l'] == l:
            for v, tb in t['targets']:
                if v == 1:
                    return b, tb
    return None


def switch_err_edge(body, c):
    """(switch bb, Err target) of a switch on the discriminant of call c's Result (through whole moves), or None"""
    if c.dest['p'] or not c.term['dest']['ty'].startswith('std::result::Result<'):
        return None
    held = {c.dest['l']}
    changed = True
    while changed:
        changed = False
        for b, i, pl, rv in body.assigns():
            if rv['k'] == 'use' and not pl['p'] and op_local(rv['op']) in held and not (op_place(rv['op']) or {}).get('p') and pl['l'] not in held:
                held.add(pl['l']); changed = True
    du = defuse(body)
    for b in sorted(body.live_blocks):
        t = body.blocks[b]['term']
        if t['k'] != 'switch':
            continue
        dl = op_local(t['discr'])
        defs = du.defs.get(dl, []) if dl is not None else []
        if len(defs) == 1 and defs[0][2] == 'assign' and defs[0][3]['k'] == 'discr' and defs[0][3]['pl']['l'] in held and not defs[0][3]['pl']['p']:
            listed = [v for v, _ in t['targets']]
            for v, tb in t['targets']:
                if v == 1:
                    return b, tb
            if listed == [0]:
                return b, t['otherwise']
    return None


def try_of(body, c):
    """the Try::branch call that consumes call c's result (through moves), or None"""
    l = c.dest['l']
    if c.dest['p']:
        return None
    seen = set()
    while l not in seen:
        seen.add(l)
        nxt = None
        for cc in body.live_calls:
            if cc.callee == TRY_BRANCH and cc.args and op_local(cc.args[0]) == l:
                return cc
        for b, i, pl, rv in body.assigns():
            if rv['k'] == 'use' and op_local(rv['op']) == l and not pl['p']:
                nxt = pl['l']
        if nxt is None:
            return None
        l = nxt
    return None


def effect_sites(em, body):
    return ([('child', c) for c in em.child_sites(body)] + [('handler', c) for c in em.handler_sites(body)]
            + [('ctxwrite', c) for c in em.ctx_writes(body)])


FAILURE_KEEPING = ('map_err', 'map', 'inspect', 'inspect_err')


def failure_carried(body, c, depth=0):
    """`handler(x).map_err(|e| wrap(e))`: the Result goes through a combinator that keeps a failure a failure (an Err
    stays an Err, only its payload / the Ok payload is rewritten); what happens to the failure is decided by what consumes
    the combinator's result"""
    import r_errd
    if depth > 3 or c.dest['p'] or c.dest['l'] == 0:
        return c
    uses = r_errd.uses_of_local(body, c.dest['l'])
    real = [u for u in uses if u[2][0] not in ('drop',)]
    if len(real) != 1 or real[0][2][0] != 'arg':
        return c
    cc, k = real[0][2][1], real[0][2][2]
    if k != 0 or r_errd._method(cc) not in FAILURE_KEEPING or not (cc.callee or '').startswith('std::result::Result'):
        return c
    return failure_carried(body, cc, depth + 1)


def rule_o4(em, only_kinds=('child', 'handler')):
    """stop at first error: after the failure of a child evaluation / handler call nothing else is
    evaluated, called or assigned"""
    obs = []
    for body in em.bodies:
        effs = effect_sites(em, body)
        eff_blocks = {c.bb: k for k, c in effs}
        cnt = {}
        for kind, c in effs:
            if kind not in only_kinds:
                continue
            n = cnt.get(kind, 0); cnt[kind] = n + 1
            key = 'O4|%s|%s|#%d' % (body.name, kind, n)
            c = failure_carried(body, c)
            if c.dest['l'] == 0 and not c.dest['p'] and body.is_closure and not getattr(body, 'is_view', False):
                # the result of a *closure* goes to whoever runs the closure.  When that is a std Option / Result
                # combinator in the enclosing body (`self.get(name).map_or(Ok(None), |entry| .. func(vec![]))`), read the
                # enclosing body with the combinator opened and decide the site there
                o = _o4_in_parent(em, body, kind, c, key)
                if o is not None:
                    obs.append(o)
                    continue
                # otherwise (Iterator::map, fold, ..) whether a failure stops the evaluation is decided by that consumer, not visible here
                obs.append(bad('ORDER-O4', key, '%s result is the return value of a closure: whether a failure stops the evaluation depends on what consumes the closure (not decidable from the closure alone)' % kind, c.where(), body=body.name, bb=c.bb))
                continue
            obs.append(_o4_site(body, kind, c, eff_blocks, key))
    if 'handler' in only_kinds:
        # a call of a body that itself runs a handler and hands its Result back (`ctx.value(name)` runs a context
        # function): its failure is a handler's failure one level up, and must stop the evaluation there too
        import r_errd
        carriers = set()
        known_ids = {getattr(b, 'orig_id', b.id) for b in em.bodies}
        for b in list(em.bodies) + [em.prog.by_id[i] for i in sorted(em.reach) if i in em.prog.by_id and i not in known_ids]:
            oid = getattr(b, 'orig_id', b.id)
            if oid not in em.eval_ids and not b.is_closure and r_errd.is_crate_result(b.locals[0]['ty']) and (em.handler_sites(b) or any(em.handler_sites(cl) for cl in em.prog.f.closures_of(b))):
                carriers.add(oid)
        covered = set(known_ids)
        for b in em.bodies:
            covered |= set(b.j.get('inlined_ids') or [])
        for body in list(em.bodies) + [em.prog.by_id[i] for i in sorted(em.reach) if i in em.prog.by_id and i not in covered]:
            effs = effect_sites(em, body)
            eff_blocks = {c.bb: k for k, c in effs}
            known = {c.bb for k, c in effs}
            n = 0
            for c in body.live_calls:
                if c.ruid in carriers and c.bb not in known and c.ruid != getattr(body, 'orig_id', body.id):
                    key = 'O4|%s|handler-call|#%d' % (body.name, n)
                    n += 1
                    cc = failure_carried(body, c)
                    if cc.dest['l'] == 0 and not cc.dest['p'] and body.is_closure and not getattr(body, 'is_view', False):
                        continue
                    eb = dict(eff_blocks)
                    eb[c.bb] = 'handler'
                    obs.append(_o4_site(body, 'handler', cc, eb, key))
    return obs


def _o4_in_parent(em, clo, kind, c, key):
    prog = em.prog
    parent = prog.by_id.get(clo.j.get('parent'))
    if parent is None or parent.is_closure:
        return None
    pv = prog.view(parent, keep=lambda g: True, tag='comb')
    if pv is parent or clo.name not in (pv.j.get('inlined') or []):
        return None
    bo = pv.j.get('block_origin') or {}
    sites = [nb for nb, org in bo.items() if tuple(org) == (clo.id, c.bb) and pv.blocks[int(nb)]['term']['k'] == 'call']
    if len(sites) != 1:
        return None
    pc = pv.call_at(int(sites[0]))
    if pc is None:
        return None
    effs = effect_sites(em, pv)
    eff_blocks = {x.bb: k for k, x in effs}
    eff_blocks.setdefault(pc.bb, kind)
    o = _o4_site(pv, kind, failure_carried(pv, pc), eff_blocks, key)
    o.what += ' [the closure read inside %s with the combinator that runs it opened]' % parent.name.split('::')[-1]
    return o


def _o4_site(body, kind, c, eff_blocks, key):
    if (c.dest['l'] == 0 or (c.dest['l'] in _flows_to_return(body) and try_of(body, c) is None and switch_err_edge(body, c) is None)) and not c.dest['p']:
        after = body.reachable_after(c.bb)
        hit = [b for b in after if b in eff_blocks]
        if hit:
            return bad('ORDER-O4', key, '%s result is returned directly but a further %s site (bb%d) is reachable after it' % (kind, eff_blocks[hit[0]], hit[0]), c.where(), body=body.name, bb=c.bb)
        return ok('ORDER-O4', key, '%s result is the return value; no evaluation / call / assignment is reachable after it' % kind, c.where())
    tc = try_of(body, c)
    if tc is None:
        # no `?`: the result may be matched on directly (`r.and_then(|v| handler(v))` read with the closure opened is
        # `match r { Ok(v) => handler(v), Err(e) => Err(e) }`): the failure edge must reach nothing but the return,
        # and what is returned there must be a failure
        se = switch_err_edge(body, c)
        if se is not None:
            sb, tb = se
            after = body.reachable_from(tb)
            hit = sorted(b for b in after if b in eff_blocks)
            if hit:
                return bad('ORDER-O4', key, 'after the failure edge (bb%d->bb%d) of the match on this %s result a %s site (bb%d) is still reachable' % (sb, tb, kind, eff_blocks[hit[0]], hit[0]),
                           c.where(), body=body.name, bb=c.bb)
            if _ok_return_reachable(body, tb, set()):
                return bad('ORDER-O4', key, 'the failure edge (bb%d->bb%d) of the match on this %s result can reach a success return: the failure is swallowed, evaluation goes on in the caller' % (sb, tb, kind), c.where(), body=body.name, bb=c.bb)
            return ok('ORDER-O4', key, 'failure edge bb%d->bb%d of the match on this %s result reaches only drops and a failing return' % (sb, tb, kind), c.where())
        return bad('ORDER-O4', key, '%s result is neither returned nor ?-propagated: a failure does not stop the evaluation' % kind, c.where(), body=body.name, bb=c.bb)
    ee = err_edge_of_try(body, tc)
    if ee is None:
        return bad('ORDER-O4', key, 'cannot find the failure edge of the ? after this %s site' % kind, c.where(), body=body.name, bb=c.bb)
    sb, tb = ee
    after = body.reachable_from(tb)
    hit = sorted(b for b in after if b in eff_blocks)
    if hit:
        return bad('ORDER-O4', key, 'after the failure edge (bb%d->bb%d) of this %s site a %s site (bb%d) is still reachable' % (sb, tb, kind, eff_blocks[hit[0]], hit[0]),
                   c.where(), body=body.name, bb=c.bb)
    return ok('ORDER-O4', key, 'failure edge bb%d->bb%d of the ? after this %s site reaches only drops and the return' % (sb, tb, kind), c.where())


def never_ok(prog, g, depth=0):
    """every value g returns is a failure: `_0` is only ever assigned an `Err(..)` aggregate, the residual of `?`, or the
    result of another such body (error-constructor helpers `fn unexpected_eof<T>(&self) -> Result<T>`)"""
    memo = prog.__dict__.setdefault('_never_ok', {})
    if g.id in memo:
        return memo[g.id]
    memo[g.id] = False
    if depth > 3 or 'Result<' not in g.locals[0]['ty']:
        return False
    n = 0
    for b in g.live_blocks:
        blk = g.blocks[b]
        for st in blk['stmts']:
            if st['k'] == 'assign' and st['pl']['l'] == 0:
                if st['pl']['p'] or st['rv']['k'] != 'agg' or st['rv'].get('variant') != 'Err':
                    return False
                n += 1
        t = blk['term']
        if t['k'] == 'call' and t['dest']['l'] == 0:
            c = Call(g, b, t)
            h = prog.by_id.get(c.ruid)
            if t['dest']['p'] or not (c.callee == FROM_RESIDUAL or (h is not None and h.id != g.id and never_ok(prog, h, depth + 1))):
                return False
            n += 1
    memo[g.id] = n > 0
    return n > 0


def _flows_to_return(body):
    """locals whose only use is a whole move (chain) into the return place"""
    cached = body.__dict__.get('_flows_to_ret')
    if cached is not None:
        return cached
    du = defuse(body)
    out = {0}
    changed = True
    while changed:
        changed = False
        for b, i, pl, rv in body.assigns():
            if pl['l'] in out and not pl['p'] and rv['k'] == 'use' and rv['op']['k'] in ('move', 'copy') and not rv['op']['pl']['p']:
                src = rv['op']['pl']['l']
                if src not in out:
                    uses = [u for u in du.uses.get(src, []) if not (u[1] == 'term' and body.blocks[u[0]]['term']['k'] == 'drop')]
                    if all(body.blocks[u[0]]['stmts'][u[1]]['k'] == 'assign' and body.blocks[u[0]]['stmts'][u[1]]['pl']['l'] in out for u in uses if u[1] != 'term') and not any(u[1] == 'term' for u in uses):
                        out.add(src); changed = True
    body.__dict__['_flows_to_ret'] = out
    return out


def _ok_return_reachable(body, start, removed):
    """is a return reachable from start that is not preceded by a failure assignment, avoiding
    `removed` blocks?"""
    fail = set()
    prog = getattr(body.facts, '_prog', None)
    for b in body.live_blocks:
        blk = body.blocks[b]
        t = blk['term']
        if t['k'] == 'call' and t['dest']['l'] == 0 and (Call(body, b, t).callee == FROM_RESIDUAL):
            fail.add(b)
        elif t['k'] == 'call' and t['dest']['l'] == 0 and not t['dest']['p'] and prog is not None:
            # `return self.unexpected_eof()`: an error-constructor helper, whose every return value is a failure
            g = prog.by_id.get(Call(body, b, t).ruid)
            if g is not None and never_ok(prog, g):
                fail.add(b)
        for st in blk['stmts']:
            if st['k'] == 'assign' and st['pl']['l'] == 0 and not st['pl']['p'] and st['rv']['k'] == 'agg' and st['rv'].get('variant') == 'Err':
                fail.add(b)
            elif st['k'] == 'assign' and not st['pl']['p'] and st['rv']['k'] == 'agg' and st['rv'].get('variant') == 'Err' and st['pl']['l'] in _flows_to_return(body):
                fail.add(b)      # `tmp = Err(e); .. _0 = move tmp`: the re-wrapped failure of an opened combinator
    reach = body.reachable_from(start, avoid=set(removed) | fail)
    return any(body.blocks[b]['term']['k'] == 'return' for b in reach)


def rule_order(em):
    """O1 O2 O3 O5 O7 per evaluator body"""
    obs = []
    prog = em.prog
    n_sites = 0
    for body in em.bodies:
        sites = em.child_sites(body)
        provs = []
        cnt = {}
        for c in sites:
            p = em.child_prov(c)
            n_sites += 1
            ps = prov_str(p)
            n = cnt.get(ps, 0); cnt[ps] = n + 1
            provs.append((c, p, ps, n))
            key = 'O0|%s|%s|#%d' % (body.name, ps, n)
            if p is None:
                obs.append(bad('ORDER', key, 'cannot tell which child this evaluation site evaluates (receiver not traceable to a field of the node through forward iteration): order not provable', c.where(), body=body.name, bb=c.bb))
            else:
                obs.append(ok('ORDER', key, 'child site evaluates %s' % ps, c.where()))
        known = [(c, p, ps, n) for (c, p, ps, n) in provs if p is not None and prov_root(p) is not None]
        sels = [(c, p, ps, n) for (c, p, ps, n) in provs if p is not None and p[0] == 'SEL']
        # O1: order
        for i in range(len(known)):
            for j in range(len(known)):
                if i == j:
                    continue
                ca, pa, psa, na = known[i]
                cb, pb, psb, nb = known[j]
                ra, rb = prov_root(pa), prov_root(pb)
                if ra[0] != rb[0]:
                    continue
                if prov_order_key(pa) < prov_order_key(pb):
                    key = 'O1|%s|%s#%d<%s#%d' % (body.name, psa, na, psb, nb)
                    a_reaches_b = cb.bb in body.reachable_after(ca.bb)
                    b_reaches_a = ca.bb in body.reachable_after(cb.bb)
                    lazy_pair = ra[0] == 'Ternary'
                    if not a_reaches_b and not b_reaches_a:
                        obs.append(ok('ORDER-O1', key, '%s and %s are evaluated on mutually exclusive paths' % (psa, psb), cb.where()))
                    elif body.dominates(ca.bb, cb.bb) and (not b_reaches_a or _same_loop_item(pa, pb)):
                        # in a loop over map entries the value site reaches the key site of the
                        # *next* item through the back edge: allowed when both hang off the same item
                        obs.append(ok('ORDER-O1', key, '%s is evaluated before %s on every path (bb%d dominates bb%d)' % (psa, psb, ca.bb, cb.bb), cb.where()))
                    else:
                        obs.append(bad('ORDER-O1', key, 'left-to-right order broken: %s (bb%d) does not precede %s (bb%d) on every path' % (psa, ca.bb, psb, cb.bb),
                                       cb.where(), body=body.name, bb=cb.bb))
        # O2: at most once
        for (c, p, ps, n) in known:
            key = 'O2|%s|%s|#%d' % (body.name, ps, n)
            if p[0] in ('F',):
                if in_cycle(body, c.bb):
                    obs.append(bad('ORDER-O2', key, '%s is evaluated inside a loop: more than once' % ps, c.where(), body=body.name, bb=c.bb))
                else:
                    obs.append(ok('ORDER-O2', key, '%s is not inside any CFG cycle' % ps, c.where()))
            else:
                # item site: every cycle through it must draw a fresh item (contain the next() call)
                nxt = _next_call_of(em, body, c)
                bad_c = [s for s in cycles_with(body, c.bb) if nxt is None or nxt.bb not in s]
                if bad_c or not in_cycle(body, c.bb) and nxt is None:
                    obs.append(bad('ORDER-O2', key, '%s can be evaluated again without drawing a new item' % ps, c.where(), body=body.name, bb=c.bb))
                else:
                    obs.append(ok('ORDER-O2', key, 'every cycle through this site passes the iterator step that yields its item', c.where()))
        for i in range(len(known)):
            for j in range(i + 1, len(known)):
                ca, pa, psa, na = known[i]
                cb, pb, psb, nb = known[j]
                if pa == pb:
                    key = 'O2|%s|%s|dup#%d#%d' % (body.name, psa, na, nb)
                    if cb.bb in body.reachable_after(ca.bb) or ca.bb in body.reachable_after(cb.bb):
                        if pa[0] == 'F' or not _only_via_next(em, body, ca, cb):
                            obs.append(bad('ORDER-O2', key, '%s is evaluated twice on one path (bb%d and bb%d)' % (psa, ca.bb, cb.bb), cb.where(), body=body.name, bb=cb.bb))
                            continue
                    obs.append(ok('ORDER-O2', key, 'the two sites evaluating %s lie on mutually exclusive paths' % psa, cb.where()))
        # O3: laziness (Ternary)
        tern = [(c, p, ps, n) for (c, p, ps, n) in known if prov_root(p)[0] == 'Ternary']
        if sels:
            # the branch was picked first and is evaluated at one site: lazy iff the pick depends on the Bool value
            # of the condition and the condition is evaluated before it
            cond = [x for x in tern if prov_root(x[1])[1] == 0]
            for (c, p, ps, n) in sels:
                key = 'O3|%s' % body.name
                problems = []
                if not cond or not all(body.dominates(cc[0].bb, c.bb) for cc in cond):
                    problems.append('the selected branch is not dominated by the evaluation of the condition')
                else:
                    defs = _selection_defs(em, body, em.node_arg(c))
                    if not defs[1] or not defs[2]:
                        problems.append('cannot find where the branch is selected')
                    else:
                        class _At:      # a stand-in "site" at the block where one alternative is picked
                            def __init__(self, bb): self.bb = bb
                        if not all(_dominated_by_bool_switch(em, body, cond[0][0], _At(bb)) for bb in defs[1] | defs[2]) or (defs[1] & defs[2]):
                            problems.append('the selection of the branch is not control-dependent on the Bool value of the condition')
                if [x for x in tern if prov_root(x[1])[1] in (1, 2)]:
                    problems.append('a branch is also evaluated at a site of its own')
                if problems:
                    obs.append(bad('ORDER-O3', key, 'conditional not lazy: ' + '; '.join(problems), body.where(), body=body.name))
                else:
                    obs.append(ok('ORDER-O3', key, 'the branch is selected on the Bool value of the condition (after it was evaluated) and evaluated at a single site: the other branch is never evaluated', body.where()))
            tern = []
        if tern:
            cond = [x for x in tern if prov_root(x[1])[1] == 0]
            br = [x for x in tern if prov_root(x[1])[1] in (1, 2)]
            key = 'O3|%s' % body.name
            problems = []
            for x in br:
                for y in br:
                    if x is not y and prov_root(x[1])[1] != prov_root(y[1])[1]:
                        if y[0].bb in body.reachable_after(x[0].bb):
                            problems.append('branch %s (bb%d) can be followed by branch %s (bb%d)' % (x[2], x[0].bb, y[2], y[0].bb))
                if not cond or not all(body.dominates(cc[0].bb, x[0].bb) for cc in cond):
                    problems.append('branch %s is not dominated by the evaluation of the condition' % x[2])
                elif not _dominated_by_bool_switch(em, body, cond[0][0], x[0]):
                    problems.append('branch %s is not control-dependent on the Bool value of the condition' % x[2])
            if len({prov_root(x[1])[1] for x in br}) < 2:
                problems.append('both branches must have an evaluation site')
            if problems:
                obs.append(bad('ORDER-O3', key, 'conditional not lazy: ' + '; '.join(sorted(set(problems))), body.where(), body=body.name))
            else:
                obs.append(ok('ORDER-O3', key, 'then/else sites are mutually unreachable, both dominated by the condition site and by the switch on its Bool payload', body.where()))
        # O5: call after arguments
        hs = em.handler_sites(body)
        for k, h in enumerate(hs):
            key = 'O5|%s|#%d' % (body.name, k)
            after = body.reachable_after(h.bb)
            hit = [c for c in sites if c.bb in after]
            if hit:
                obs.append(bad('ORDER-O5', key, 'a child is evaluated (bb%d) after the handler has been invoked (bb%d)' % (hit[0].bb, h.bb), h.where(), body=body.name, bb=h.bb))
            else:
                obs.append(ok('ORDER-O5', key, 'no child evaluation is reachable from the handler call', h.where()))
        # O7: exactly once on Ok  (unconditional children on every Ok path)
        by_p = {}
        for (c, p, ps, n) in known:
            by_p.setdefault(p, []).append(c)
        for p, cs in by_p.items():
            r = prov_root(p)
            if r[0] == 'Ternary' and r[1] in (1, 2):
                continue
            start = _arm_entry(em, body, r[0])
            key = 'O7|%s|%s' % (body.name, prov_str(p))
            if p[0] == 'F':
                if _ok_return_reachable(body, start, {c.bb for c in cs}):
                    obs.append(bad('ORDER-O7', key, 'an Ok return is reachable without evaluating %s' % prov_str(p), cs[0].where(), body=body.name, bb=cs[0].bb))
                else:
                    obs.append(ok('ORDER-O7', key, 'every Ok path evaluates %s' % prov_str(p), cs[0].where()))
            else:
                # loop: left towards an Ok return only on the None edge of the iterator
                nxt = _next_call_of(em, body, cs[0])
                okk = False
                why = 'iterator step not found'
                if nxt is not None:
                    # blocks of the loop = cycle containing nxt; exits not via None edge & not failure => bad
                    okk, why = _loop_exits_only_on_none(body, nxt)
                if okk:
                    # .. and no item is passed over inside the loop: from the iterator step the next step is not
                    # reachable without evaluating this child (`if seen(key) { continue }` drops an entry's value)
                    loop = set().union(*[s for s in body.sccs() if nxt.bb in s])
                    site_bbs = {c.bb for c in cs}
                    if site_bbs <= loop and nxt.bb not in site_bbs:
                        for s in body.succ[nxt.bb]:
                            if s in loop and s not in site_bbs and nxt.bb in body.reachable_from(s, avoid=site_bbs):
                                okk = False
                                why = 'from the iterator step (bb%d) the next step is reachable without evaluating it (an iteration can `continue` past the child)' % nxt.bb
                                break
                if okk:
                    obs.append(ok('ORDER-O7', key, 'the loop over %s is left towards an Ok return only when the iterator is exhausted, and every iteration evaluates the child' % prov_str(p), cs[0].where()))
                else:
                    obs.append(bad('ORDER-O7', key, 'items of %s can be skipped: %s' % (prov_str(p), why), cs[0].where(), body=body.name, bb=cs[0].bb))
        # tuple items: key and value of the same entry must both be evaluated in each iteration
        items = {}
        for (c, p, ps, n) in known:
            if p[0] == 'T' and p[1][0] == 'I':
                items.setdefault(p[1], set()).add(p[2])
        for it, comps in items.items():
            key = 'O7|%s|%s|components' % (body.name, prov_str(it))
            if comps != {0, 1}:
                obs.append(bad('ORDER-O7', key, 'not every component of %s is evaluated (found %s)' % (prov_str(it), sorted(comps)), body.where(), body=body.name))
            else:
                obs.append(ok('ORDER-O7', key, 'key (.0) and value (.1) of each entry are both evaluated', body.where()))
    return obs, n_sites


def _selection_defs(em, body, op):
    """{1: blocks, 2: blocks}: where, on the way back from a selected reference, a local with several definitions is
    given a value that is one particular branch (Ternary.1 / Ternary.2)"""
    du = defuse(body)
    out = {1: set(), 2: set()}
    seen = set()

    def src_ops(d):
        if d[2] == 'assign':
            rv = d[3]
            if rv['k'] == 'use':
                return [rv['op']]
            if rv['k'] == 'ref':
                return [{'k': 'copy', 'pl': rv['pl']}]
            if rv['k'] == 'agg' and rv.get('variant') in ('Ok', 'Some') and rv['ops']:
                return [rv['ops'][0]]
            return []
        if d[2] == 'call' and d[3].callee == TRY_BRANCH and d[3].args:
            return [d[3].args[0]]
        return []

    def walk(pl, depth=0):
        if pl is None or depth > 16 or (pl['l'], depth > 0 and False) in seen:
            return
        seen.add((pl['l'], False))
        defs = du.whole_defs(pl['l'])
        for d in defs:
            for o in src_ops(d):
                if o['k'] not in ('move', 'copy'):
                    continue
                if len(defs) > 1:
                    p = em.prov_of_operand(body, o, 1)
                    if p is not None and p[0] == 'F' and p[1] == 'Ternary' and p[2] in (1, 2):
                        out[p[2]].add(d[0])
                        continue
                walk(o['pl'], depth + 1)
    walk(op_place(op))
    return out


def _same_loop_item(pa, pb):
    def item_of(p):
        while p and p[0] == 'T':
            p = p[1]
        return p if p and p[0] == 'I' else None
    a, b = item_of(pa), item_of(pb)
    return a is not None and a == b


def _next_call_of(em, body, c):
    origins = trace_operand(body, em.node_arg(c), through_calls=THROUGH)
    o = single_origin(origins)
    if o is not None and o.kind == 'callres' and FORWARD_NEXT_RE.match(o.data.rdef or ''):
        return o.data
    return None


def _only_via_next(em, body, ca, cb):
    na, nb = _next_call_of(em, body, ca), _next_call_of(em, body, cb)
    if na is None or nb is None:
        return False
    # every path between the two sites passes a next() call
    between = body.reachable_from(ca.bb, avoid={na.bb, nb.bb}) if False else None
    r = set()
    for s in body.succ[ca.bb]:
        r |= body.reachable_from(s, avoid={na.bb, nb.bb})
    return cb.bb not in r


def _dominated_by_bool_switch(em, body, cond_call, branch_call):
    """branch site is dominated by an edge of a switch whose discriminant traces to the Bool
    payload of the condition's value"""
    from r_panic import edge_dominates, switch_edges
    for b in sorted(body.live_blocks):
        t = body.blocks[b]['term']
        if t['k'] != 'switch':
            continue
        origins = trace_operand(body, t['discr'], through_calls=THROUGH)
        o = single_origin(origins)
        if o is not None and o.kind == 'callres' and o.data.bb != cond_call.bb and o.data.ruid in em.prog.by_id \
                and em.prog.by_id[o.data.ruid].locals[0]['ty'] == 'std::result::Result<bool, error::Error>' and o.data.args:
            # `cond.exec(ctx)?.bool()?`: the Bool accessor applied to the condition's value
            a = single_origin(trace_operand(body, o.data.args[0], through_calls=THROUGH))
            if a is not None and a.kind == 'callres' and a.data.bb == cond_call.bb:
                for v, tb in switch_edges(body, b):
                    if edge_dominates(body, b, tb, branch_call.bb):
                        return True
            continue
        if o is None or o.kind != 'callres' or o.data.bb != cond_call.bb:
            continue
        # proj must end in (dc Bool)(f 0) after the Ok payload
        pj = o.proj
        if ('dc', 'Bool') in pj:
            for v, tb in switch_edges(body, b):
                if edge_dominates(body, b, tb, branch_call.bb):
                    return True
    return False


def _arm_entry(em, body, variant):
    """entry block of the region that handles `variant`: in the dispatching body the target of
    the discriminant switch edge for that variant, elsewhere the body entry"""
    if getattr(body, 'orig_id', body.id) != em.root.id:
        return 0
    adt = em.prog.f.adt_by_name.get('parser::ExprAST')
    if not adt:
        return 0
    names = [v['name'] for v in adt['variants']]
    if variant not in names:
        return 0
    vi = names.index(variant)
    du = defuse(body)
    for b in sorted(body.live_blocks):
        t = body.blocks[b]['term']
        if t['k'] != 'switch':
            continue
        dl = op_local(t['discr'])
        defs = du.defs.get(dl, []) if dl is not None else []
        if len(defs) == 1 and defs[0][2] == 'assign' and defs[0][3]['k'] == 'discr':
            o = single_origin(trace_local(body, defs[0][3]['pl']['l'], ()))
            if o is not None and o.kind == 'param' and o.data == 1:
                for v, tb in t['targets']:
                    if v == vi:
                        return tb
    return 0


def _loop_exits_only_on_none(body, nxt):
    """the cycle containing the iterator step `nxt` is left, towards a non-failure return, only
    through the None edge of the switch on nxt's result"""
    sccs = [s for s in body.sccs() if nxt.bb in s]
    if not sccs:
        return False, 'iterator step is not in a loop'
    loop = set().union(*sccs)
    du = defuse(body)
    none_edges = set()
    for b in loop:
        t = body.blocks[b]['term']
        if t['k'] == 'switch':
            dl = op_local(t['discr'])
            defs = du.defs.get(dl, []) if dl is not None else []
            if len(defs) == 1 and defs[0][2] == 'assign' and defs[0][3]['k'] == 'discr' and defs[0][3]['pl']['l'] == nxt.dest['l']:
                for v, tb in t['targets']:
                    if v == 0:
                        none_edges.add((b, tb))
    if not none_edges:
        return False, 'no None edge found for the iterator step'
    for b in loop:
        for s in body.succ[b]:
            if s in loop or (b, s) in none_edges:
                continue
            if _ok_return_reachable(body, s, set()):
                return False, 'exit bb%d->bb%d leaves the loop towards an Ok return before the iterator is exhausted' % (b, s)
    return True, ''


def rule_floors(em):
    obs = []
    obs.append(floor('ORDER', 'exec-anchor', 1 if em.exec else 0, 1, 'public ExprAST::exec exists'))
    n_child = sum(len(em.child_sites(b)) for b in em.bodies)
    obs.append(floor('ORDER', 'child-sites', n_child, 12, 'unary 1 + postfix 1 + binary 2 + ternary 3 + call args 1 + list 1 + map 2 + statements 1'))
    n_h = sum(len(em.handler_sites(b)) for b in em.bodies)
    obs.append(floor('ORDER', 'handler-sites', n_h, 5, 'function (context + global), prefix, infix, postfix handlers'))
    return obs


def em_fallback(ctx_cache, prog, em, rule, *args, **kw):
    """run an evaluator rule on the helper structure as written; if that leaves a violation, on the inlined
    evaluator (same program); the first clean reading decides"""
    first = rule(em, *args, **kw)
    obs = first[0] if isinstance(first, tuple) else first
    if not any(o.status == 'violated' for o in obs):
        return first
    if 'em_inl' not in ctx_cache:
        ctx_cache['em_inl'] = EvalModel(prog, inlined=True)
    em2 = ctx_cache['em_inl']
    if not em2.bodies or not getattr(em2.bodies[0], 'is_view', False):
        return first
    try:
        second = rule(em2, *args, **kw)
    except Exception:
        return first
    obs2 = second[0] if isinstance(second, tuple) else second
    n1 = len([o for o in obs if o.status == 'violated'])
    n2 = len([o for o in obs2 if o.status == 'violated'])
    if n2 < n1:
        # clean, or at least the more precise report (fewer sites could not be read)
        for o in obs2:
            o.what = (o.what or '') + ' [read on the inlined evaluator]'
        return second
    return first
