"""EFFECTS (C16): parse / exec / render reach no global mutation, no nondeterminism source, no
hash-order iteration; contexts are fresh and only the passed-in context is touched."""
import re
from analysis import trace_operand, single_origin, guard_class, LOCK_CALLS, TRANSPARENT_CALLS, defuse
from facts import Call, op_local
from engine import ok, bad, assumed, floor
import r_registry

NONDET = re.compile(r'^(std::time::|std::env::|std::fs::|std::net::|std::process::id|std::thread::current|std::thread::sleep|std::thread::spawn|'
                    r'std::hash::RandomState::new|std::collections::hash_map::RandomState::new|std::hash::DefaultHasher|rand|getrandom|'
                    r'std::io::stdin|std::io::Read|std::ptr::addr|core::ptr::addr|std::sync::atomic::)')
HASH_ITER = re.compile(r'^std::collections::(HashMap::<K, V, S, A>|HashSet::<T, S, A>|hash_map::HashMap::<K, V, S, A>)::(iter|iter_mut|keys|values|values_mut|into_keys|into_values|drain|retain|extract_if)$')
HASH_INTO_ITER = re.compile(r'std::collections::(HashMap|HashSet|hash_map::HashMap)<.*> as std::iter::IntoIterator>::into_iter')


def scope(ctx, rm):
    prog = ctx.prog
    entries = []
    for n in ('parse_expression', 'execute', "parser::ExprAST::<'a>::exec", "parser::ExprAST::<'a>::expr", "parser::ExprAST::<'a>::describe"):
        b = prog.api(n)
        if b:
            entries.append(b.id)
    stop = {clo.id for (b, c, clo) in rm.init_once}
    ids = prog.reach(entries, stop=stop)
    return [prog.by_id[i] for i in sorted(ids)], entries


HM_READ = {'get', 'contains_key', 'iter', 'len', 'is_empty', 'keys', 'values', 'get_key_value'}


def _only_read_through(b, c):
    """every use of the `&mut HashMap` this deref_mut yields (through moves / reborrows) is as the receiver of a
    non-mutating map method (`f(&mut guard)` opened at a caller whose closure only looks things up)"""
    du = defuse(b)
    seen = set()
    work = [c.dest['l']] if not c.dest['p'] else []
    if not work:
        return False
    n_calls = 0
    while work:
        l = work.pop()
        if l in seen:
            continue
        seen.add(l)
        for (bb, i) in du.uses.get(l, []):
            if i == 'term':
                t = b.blocks[bb]['term']
                if t['k'] == 'drop':
                    continue
                if t['k'] != 'call':
                    return False
                cc = Call(b, bb, t)
                m = r_registry.hm_method(cc)
                if m in HM_READ and cc.args and op_local(cc.args[0]) == l and all(op_local(a) != l for a in cc.args[1:]):
                    n_calls += 1
                    continue
                if cc.callee in ('std::ops::Deref::deref',) and not cc.dest['p']:
                    work.append(cc.dest['l'])
                    continue
                return False
            st = b.blocks[bb]['stmts'][i]
            if st['k'] != 'assign' or st['pl']['p']:
                return False
            rv = st['rv']
            if rv['k'] in ('use', 'ref', 'copy_for_deref') or (rv['k'] == 'cast' and 'Unsize' not in (rv.get('cast') or '')) \
                    or (rv['k'] == 'agg' and rv.get('agg') == 'tuple'):        # the argument tuple of an opened `f(&mut guard)`
                work.append(st['pl']['l'])
                continue
            return False
    return n_calls > 0


def rule_effects(ctx, rm):
    prog = ctx.prog
    bodies, entries = scope(ctx, rm)
    obs = []
    obs.append(floor('EFFECTS', 'entries', len(entries), 5, 'parse_expression, execute, ExprAST::exec / expr / describe'))
    n_w = n_nd = n_hi = 0
    for b in bodies:
        cnt = {}
        for c in b.live_calls:
            nme = c.rdef or c.callee or ''
            m = r_registry.hm_method(c)
            cls = r_registry.reg_class_of_call(c) if m else None
            if m in r_registry.HM_MUT and cls in ('REGISTRY', 'DESCRIPTOR'):
                k = cnt.get(m, 0); cnt[m] = k + 1
                n_w += 1
                obs.append(bad('EFFECTS', 'EFFECTS|write|%s|%s|#%d' % (b.name, m, k), 'parse / evaluation / rendering reaches a write (%s) to the global %s map in %s: results depend on what ran before' % (m, cls, b.name), c.where(), body=b.name, bb=c.bb))
            if c.callee == 'std::ops::DerefMut::deref_mut' and c.term['arg_tys'] and 'MutexGuard' in c.term['arg_tys'][0] and guard_class(c.term['arg_tys'][0]) in ('REGISTRY', 'DESCRIPTOR'):
                if _only_read_through(b, c):
                    obs.append(ok('EFFECTS', 'EFFECTS|derefmut-read|%s|#%d' % (b.name, cnt.get('deref_mut_r', 0)), 'the `&mut` map obtained from the guard in %s is only handed to non-mutating map methods (get / contains_key / iter / len ..): a read' % b.name, c.where()))
                    cnt['deref_mut_r'] = cnt.get('deref_mut_r', 0) + 1
                    continue
                k = cnt.get('deref_mut', 0); cnt['deref_mut'] = k + 1
                n_w += 1
                obs.append(bad('EFFECTS', 'EFFECTS|derefmut|%s|#%d' % (b.name, k), 'mutable access to a global registry guard on the parse / evaluation / rendering path (%s)' % b.name, c.where(), body=b.name, bb=c.bb))
            if NONDET.match(nme) or NONDET.match(c.callee or ''):
                k = cnt.get(nme, 0); cnt[nme] = k + 1
                n_nd += 1
                obs.append(bad('EFFECTS', 'EFFECTS|nondet|%s|%s|#%d' % (b.name, nme, k), 'nondeterminism / ambient-state source %s on the parse / evaluation / rendering path' % nme, c.where(), body=b.name, bb=c.bb))
            if HASH_ITER.match(c.callee or '') or HASH_INTO_ITER.search(nme):
                k = cnt.get('hashiter', 0); cnt['hashiter'] = k + 1
                n_hi += 1
                obs.append(bad('EFFECTS', 'EFFECTS|hashiter|%s|#%d' % (b.name, k), 'iteration over a HashMap/HashSet (%s): order is random per process' % nme, c.where(), body=b.name, bb=c.bb))
    if n_w == 0:
        obs.append(ok('EFFECTS', 'EFFECTS|write', 'no write to a REGISTRY / DESCRIPTOR map in the %d bodies reachable from parse / exec / expr / describe (once-initialiser excluded)' % len(bodies)))
    if n_nd == 0:
        obs.append(ok('EFFECTS', 'EFFECTS|nondet', 'no time / env / fs / net / thread-id / random / atomic call in those %d bodies' % len(bodies)))
    if n_hi == 0:
        obs.append(ok('EFFECTS', 'EFFECTS|hashiter', 'no HashMap / HashSet iteration in those %d bodies (lookups only)' % len(bodies)))
    # statics referenced from the scope: only registries / descriptor / once
    import r_misc
    sid = {s['id']: s for s in prog.f.statics}
    for b in bodies:
        for bb, i, pl, rv in b.assigns():
            ops = [rv.get('op')] if rv['k'] in ('use', 'cast') else (rv.get('ops', []) if rv['k'] == 'agg' else [])
            for o in ops:
                if isinstance(o, dict) and o.get('k') == 'const' and 'static' in o:
                    s = sid.get(o['static'])
                    if s is not None and r_misc.classify_static(s) == 'OTHER':
                        obs.append(bad('EFFECTS', 'EFFECTS|static|%s|%s' % (b.name, s['name']), '%s reads/writes static %s, which is not a registry' % (b.name, s['name']), b.where(bb), body=b.name))
    # Context::new is fresh: reaches no static
    cn = [x for x in prog.bodies if x.name == 'context::Context::new']
    if not cn:
        obs.append(bad('EFFECTS', 'EFFECTS|ctxnew', 'anchor lost: Context::new not found'))
    else:
        reach = prog.reach([cn[0].id])
        stat = []
        for bid in reach:
            bb_ = prog.by_id[bid]
            for bbk, i, pl, rv in bb_.assigns():
                o = rv.get('op') if rv['k'] in ('use', 'cast') else None
                if isinstance(o, dict) and 'static' in o:
                    stat.append(o['static'])
        newmap = [c for bid in reach for c in prog.by_id[bid].live_calls if (c.callee or '').startswith('std::collections::HashMap::<K, V>::new') or (c.callee or '').endswith('HashMap::<K, V, S>::default') or 'HashMap' in (c.callee or '') and (c.callee or '').endswith('::new')]
        # `#[derive(Default)]` + `Self::default()`: std's `Default` for the map-holding field type (Arc<Mutex<HashMap<..>>>)
        # builds a fresh, empty value of it
        newmap += [c for bid in reach for c in prog.by_id[bid].live_calls if c.callee == 'std::default::Default::default' and 'HashMap<' in c.term['dest'].get('ty', '') and c.ruid is None]
        if stat:
            obs.append(bad('EFFECTS', 'EFFECTS|ctxnew', 'Context::new reaches static(s) %s: contexts share state' % stat, cn[0].where(), body=cn[0].name))
        elif not newmap:
            obs.append(bad('EFFECTS', 'EFFECTS|ctxnew', 'Context::new does not build a fresh HashMap', cn[0].where(), body=cn[0].name))
        else:
            obs.append(ok('EFFECTS', 'EFFECTS|ctxnew', 'Context::new builds a fresh HashMap and reaches no static', cn[0].where()))
    # only the passed-in context is locked: every CONTEXT lock receiver traces to a parameter
    for b in prog.bodies:
        k = 0
        for c in b.live_calls:
            if (c.callee in LOCK_CALLS or (c.ruid is not None and c.ruid in getattr(getattr(c.body.facts, '_prog', None), 'acq_helpers', ()))) and guard_class(c.term['dest']['ty']) == 'CONTEXT':
                origins = trace_operand(b, c.args[0], through_calls=set(TRANSPARENT_CALLS))
                key = 'EFFECTS|ctxlock|%s|#%d' % (b.name, k)
                k += 1
                if all(o.kind == 'param' for o in origins):
                    obs.append(ok('EFFECTS', key, 'the context locked in %s is (a field of) its own parameter' % b.name, c.where()))
                else:
                    obs.append(bad('EFFECTS', key, 'the context map locked in %s does not come from a parameter: %r' % (b.name, origins), c.where(), body=b.name, bb=c.bb))
    return obs, len(bodies)
