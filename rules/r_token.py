"""TSPAN, TWS, WWS, WPAREN (C10, C11)."""
import re
from facts import op_local, op_place, op_const_int, Call
from analysis import (defuse, trace_operand, trace_local, single_origin, Origin, TRANSPARENT_CALLS, proj_key)
from engine import ok, bad, assumed, floor
from r_panic import edge_dominates, switch_edges, bool_source
import r_slice, r_parse

WS4 = {0x20, 0x09, 0x0D, 0x0A}
THROUGH = set(TRANSPARENT_CALLS) | {'std::convert::Into::into', 'std::convert::From::from'}


# ----------------------------------------------------------------------------- char predicate evaluation

def _val(env, op):
    if op['k'] == 'const':
        if 'int' in op:
            return op['int']
        return None
    pl = op['pl']
    if pl['p']:
        return None
    return env.get(pl['l'])


def eval_char_pred(body, ch):
    # the character parameter (a closure's first parameter is its environment; `|scanner, ch| ..` has the char last)
    idx = [k for k in range(1, body.arg_count + 1) if body.locals[k]['ty'] == 'char']
    r = _eval_char_pred(body, ch, idx[0] if len(idx) == 1 else (2 if body.is_closure else 1))
    if r is None and len(idx) == 1 and body.arg_count == 1 and not body.is_closure:
        # calls of other pure local code (`DelimTokenType::from(ch).is_bracket()`), std's ASCII class tests: run it
        import cinterp
        prog = getattr(body.facts, '_prog', None)
        if prog is not None:
            try:
                v = cinterp.Interp(prog).run(body, [ch])
                if v in (0, 1):
                    r = v
            except cinterp.Unknown:
                r = None
    return r


def _eval_char_pred(body, ch, pidx, depth=0):
    """abstractly evaluate a pure predicate body on the character value `ch` (finite partition of
    the input domain; only comparisons / boolean ops / switches are understood).  None = not a
    shape this evaluator reads (fail closed)."""
    env = {pidx: ch}
    bb = 0
    for _ in range(400):
        blk = body.blocks[bb]
        for st in blk['stmts']:
            if st['k'] in ('live', 'dead'):
                continue
            if st['k'] != 'assign' or st['pl']['p']:
                return None
            rv = st['rv']
            k = rv['k']
            if k == 'use':
                v = _val(env, rv['op'])
            elif k == 'binop':
                a, b = _val(env, rv['a']), _val(env, rv['b'])
                if a is None or b is None:
                    return None
                op = rv['op']
                v = {'Eq': a == b, 'Ne': a != b, 'Lt': a < b, 'Le': a <= b, 'Gt': a > b, 'Ge': a >= b,
                     'BitOr': (a | b), 'BitAnd': (a & b), 'BitXor': (a ^ b)}.get(op)
                if v is None:
                    return None
                v = int(v)
            elif k == 'unop' and rv['op'] == 'Not':
                a = _val(env, rv['a'])
                if a is None:
                    return None
                v = int(not a)
            else:
                return None
            if v is None:
                return None
            env[st['pl']['l']] = v
        t = blk['term']
        if t['k'] == 'goto':
            bb = t['target']
        elif t['k'] == 'switch':
            d = _val(env, t['discr'])
            if d is None:
                return None
            nxt = t['otherwise']
            for v, tb in t['targets']:
                if v == d:
                    nxt = tb
            bb = nxt
        elif t['k'] == 'return':
            return env.get(0)
        elif t['k'] == 'call' and depth < 4 and t.get('target') is not None and not t['dest']['p']:
            # a nested local character predicate: `is_word_boundary(c) = is_blank(c) || is_delim(c) || c == '"'`
            c = Call(body, bb, t)
            prog = getattr(body.facts, '_prog', None)
            g = prog.by_id.get(c.ruid) if prog is not None and c.ruid else None
            if g is None or len(c.args) != 1 or g.arg_count != 1 or g.locals[1]['ty'] != 'char' or g.locals[0]['ty'] != 'bool':
                return None
            a = _val(env, c.args[0])
            if a is None:
                return None
            r = _eval_char_pred(g, a, 1, depth + 1)
            if r is None:
                return None
            env[t['dest']['l']] = int(bool(r))
            bb = t['target']
        else:
            return None
    return None


def char_set(body):
    """set of chars accepted by a char predicate, over a finite partition (None = unreadable)"""
    consts = set()
    prog = getattr(body.facts, '_prog', None)
    nested = []
    for c in body.live_calls:
        g = prog.by_id.get(c.ruid) if prog is not None and c.ruid else None
        if g is not None and g is not body and g.arg_count == 1 and g.locals[1]['ty'] == 'char' and g.locals[0]['ty'] == 'bool':
            nested.append(g)
    for g in nested:
        a, cd = char_set(g)
        if cd:
            consts |= cd
    for b in range(body.n):
        for st in body.blocks[b]['stmts']:
            if st['k'] == 'assign' and st['rv']['k'] == 'binop':
                for o in (st['rv']['a'], st['rv']['b']):
                    if o['k'] == 'const' and 'int' in o and o['ty'] == 'char':
                        consts.add(o['int'])
        t = body.blocks[b]['term']
        if t['k'] == 'switch' and t.get('dty') == 'char':
            for v, tb in t['targets']:
                consts.add(v)
    cand = set()
    for c in consts:
        cand |= {c - 1, c, c + 1}
    if prog is not None:
        import cinterp
        cand |= cinterp.callee_edges_and_consts(prog, body)
    cand |= {0x20, 0x09, 0x0D, 0x0A, 0x0B, 0x0C, 0x41, 0x30, 0xA0, 0x3000, 0x85}
    cand = {c for c in cand if 0 <= c <= 0x10FFFF and not (0xD800 <= c <= 0xDFFF)}
    acc = set()
    for c in sorted(cand):
        r = eval_char_pred(body, c)
        if r is None:
            return None, None
        if r:
            acc.add(c)
    return acc, cand


# ----------------------------------------------------------------------------- roles

class TokRoles:
    def __init__(self, prog, roles):
        self.prog = prog
        self.r = roles
        tn = roles.token_next
        self.skipper = None
        self.ws_pred = None
        self.dispatch_adv = None
        if tn is None:
            return
        # char-level advance family (bodies stepping the real iterator)
        import r_term
        self.tm = r_term.TermModel(prog, roles)
        adv_calls = [c for c in tn.live_calls if c.ruid in self.tm.char_adv]
        # the dispatching advance: the one whose result feeds a switch in TOKEN-NEXT — or in the private scanner body
        # TOKEN-NEXT delegates to (`next` = bookkeeping around `scan_token`)
        chain = [(tn, None)]
        if not adv_calls:
            for c in tn.live_calls:
                g = prog.by_id.get(c.ruid) if c.ruid else None
                if g is not None and g.locals[0]['ty'] == tn.locals[0]['ty'] and [x for x in g.live_calls if x.ruid in self.tm.char_adv]:
                    chain = [(tn, c), (g, None)]
                    adv_calls = [x for x in g.live_calls if x.ruid in self.tm.char_adv]
                    break
        self.dispatch_adv = adv_calls[0] if adv_calls else None
        self.scan_body = chain[-1][0]
        # skipper: a local call on &mut self that dominates the dispatching advance and loops with an
        # advance guarded by a char predicate (given directly, or handed in as a fn / closure argument)
        if self.dispatch_adv:
            for body, upto in chain:
                goal = upto if upto is not None else self.dispatch_adv
                for c in body.live_calls:
                    if c.ruid and c is not goal and body.dominates(c.bb, goal.bb) and c.bb != goal.bb:
                        g = prog.by_id[c.ruid]
                        pred = self._skipper_pred(body, c, 0)
                        if pred is not None:
                            self.skipper = (c, g)
                            self.ws_pred = pred
                            break
                if self.skipper is not None:
                    break

    def _skipper_pred(self, caller, c, depth):
        """the char predicate that guards the advance loop entered through call c (or None)"""
        prog = self.prog
        if depth > 3 or c.ruid is None:
            return None
        g = prog.by_id[c.ruid]
        preds = self._char_preds_guarding_advance(g)
        if preds:
            p = preds[0]
            if isinstance(p, tuple) and p[0] == 'param':
                # predicate handed in as parameter k of g: the argument at this call site
                k = p[1]
                if k - 1 < len(c.args):
                    return self._fn_value(caller, c.args[k - 1])
                return None
            return p
        # a forwarder: g just calls something that loops
        for cc in g.live_calls:
            if cc.ruid is not None and cc.term['arg_tys'] and cc.term['arg_tys'][0].startswith('&mut '):
                r = self._skipper_pred(g, cc, depth + 1)
                if r is not None:
                    return r
        return None

    def _fn_value(self, body, op):
        """local body a fn-typed operand denotes: a fn item constant or a closure"""
        o = single_origin(trace_operand(body, op, through_calls=set()))
        if o is None:
            return None
        if o.kind == 'const' and 'fn' in o.data and o.data['fn'].get('local'):
            return self.prog.by_id.get(o.data['fn']['uid'])
        if o.kind == 'agg' and o.data[2]['agg'] == 'closure':
            return self.prog.by_id.get(o.data[2]['closure'])
        return None

    def _char_preds_guarding_advance(self, g):
        out = []
        advs = [c for c in g.live_calls if c.ruid in self.tm.char_adv]
        if not advs or not g.sccs():
            return out
        for sb in sorted(g.live_blocks):
            t = g.blocks[sb]['term']
            if t['k'] != 'switch':
                continue
            src = bool_source(g, t['discr'])
            if src is None:
                continue
            tc, parity = src
            p = None
            if tc.ruid is not None:
                p = self.prog.by_id[tc.ruid]
                if not (p.locals[0]['ty'] == 'bool' and p.arg_count == 1 and p.locals[1]['ty'] == 'char'):
                    p = None
            else:
                # indirect / generic call of a predicate handed in as a parameter of g
                fop = tc.term['func'] if tc.is_indirect else (tc.args[0] if tc.args else None)
                if fop is not None and tc.term['dest']['ty'] == 'bool':
                    fo = single_origin(trace_operand(g, fop, through_calls=set()))
                    if fo is not None and fo.kind == 'param' and not fo.proj:
                        p = ('param', fo.data)
            if p is not None:
                listed = [v for v, _ in t['targets']]
                for v, tb in switch_edges(g, sb):
                    tv = (1 if listed == [0] else 0 if listed == [1] else None) if v == 'otherwise' else (1 if v != 0 else 0)
                    if tv is not None and (tv ^ parity) == 1 and all(edge_dominates(g, sb, tb, a.bb) for a in advs):
                        out.append(p)
        return out


def rule_tws(tr, exact_unicode_ws=True):
    obs = []
    if tr.skipper is None or tr.ws_pred is None:
        return [bad('TWS', 'TWS|anchor', 'anchor lost: no whitespace skipper (a body called before the dispatching character is read, advancing only while a char predicate holds) found in the token scanner')]
    c, g = tr.skipper
    acc, cand = char_set(tr.ws_pred)
    key = 'TWS|set'
    if acc is None:
        obs.append(bad('TWS', key, 'the whitespace predicate %s is not a comparison / switch shape this rule can read (fails closed)' % tr.ws_pred.name, tr.ws_pred.where(), body=tr.ws_pred.name))
    else:
        missing = WS4 - acc
        extra = {x for x in acc - WS4 if not chr(x).isspace()}
        if missing:
            obs.append(bad('TWS', key, 'the whitespace set is missing %s (accepted: %s): inserting that character between tokens is no longer layout-neutral' % (sorted('U+%04X' % x for x in missing), sorted('U+%04X' % x for x in acc)), tr.ws_pred.where(), body=tr.ws_pred.name))
        elif extra:
            obs.append(bad('TWS', key, 'the whitespace predicate accepts non-whitespace character(s) %s: they are silently skipped between tokens' % sorted('U+%04X' % x for x in extra), tr.ws_pred.where(), body=tr.ws_pred.name))
        else:
            obs.append(ok('TWS', key, 'whitespace predicate accepts exactly %s over a %d-point partition of char (contains SP, TAB, CR, LF; nothing that is not Unicode white space)' % (sorted('U+%04X' % x for x in acc), len(cand)), tr.ws_pred.where()))
    # the skipper advances only on the predicate's true edge: by role construction; state it
    obs.append(ok('TWS', 'TWS|skipper', 'the skipper %s advances only on the true edge of the whitespace predicate (role condition re-checked on this tree)' % g.name.split('::')[-1], g.where()))
    return obs


def rule_wws(tr):
    first = _rule_wws(tr, tr.r.token_bodies())
    if not any(o.status == 'violated' for o in first):
        return first
    second = _rule_wws(tr, tr.r.token_bodies(views=True))
    from engine import covers
    if covers(first, second) and not any(o.status == 'violated' for o in second):
        for o in second:
            o.what += ' [read with combinator closures inlined]'
        return second
    return first


def _rule_wws(tr, tbodies):
    """layout cannot change classification: skipping precedes the dispatch; function-vs-reference
    looks at the next *token*"""
    prog, roles = tr.prog, tr.r
    obs = []
    tn = roles.token_next
    if tr.skipper is None or tr.dispatch_adv is None:
        return [bad('WWS', 'WWS|anchor', 'anchor lost: skipper / dispatching advance not found')]
    c, g = tr.skipper
    obs.append(ok('WWS', 'WWS|skip-first', 'in the token scanner the whitespace skipper (bb%d) dominates the read of the dispatching character (bb%d)' % (c.bb, tr.dispatch_adv.bb), c.where()))
    # every other advance in TOKEN-NEXT's body must come after the skipper
    # function vs reference
    n = 0
    for b in tbodies:
        fsites = [(bb, rv) for bb, i, pl, rv in b.assigns() if rv['k'] == 'agg' and rv.get('adt') == roles.token_adt and rv.get('variant') == 'Function']
        for bb, rv in fsites:
            n += 1
            key = 'WWS|function-lookahead|%s' % b.name
            good = False
            why = 'no deciding test found'
            for sb in sorted(b.live_blocks):
                t = b.blocks[sb]['term']
                if t['k'] != 'switch':
                    continue
                src = bool_source(b, t['discr'])
                if src is None:
                    continue
                tc, parity = src
                if not any(edge_dominates(b, sb, tb, bb) for v, tb in switch_edges(b, sb)):
                    continue
                if not tc.args:
                    continue
                o = single_origin(trace_operand(b, tc.args[0], through_calls=set(TRANSPARENT_CALLS) | {'std::clone::Clone::clone'}))
                if o is not None and o.kind == 'callres' and o.data.ruid is not None:
                    pk = prog.by_id[o.data.ruid]
                    rch = prog.reach([pk.id])
                    # through the scanner: TOKEN-NEXT itself, or the body it delegates the scanning to (skip + dispatch)
                    reaches_next = roles.token_next.id in rch or getattr(tr, 'scan_body', roles.token_next).id in rch
                    is_char = 'char' in pk.locals[0]['ty'] and roles.token_adt not in pk.locals[0]['ty']
                    if reaches_next and roles.token_adt in pk.locals[0]['ty']:
                        good = True
                        why = 'decided by a predicate on the next token (%s), obtained through the token scanner on a copy' % pk.name.split('::')[-1]
                    else:
                        why = 'decided by %s, which does not go through the token scanner (character-level look-ahead: `f (x)` and `f(x)` differ)' % pk.name.split('::')[-1]
                elif o is not None:
                    why = 'decided by a test on %r' % o
            if good:
                obs.append(ok('WWS', key, 'function-vs-reference: %s' % why, b.where(bb)))
            else:
                obs.append(bad('WWS', key, 'function-vs-reference classification is not based on the next token: %s' % why, b.where(bb), body=b.name, bb=bb))
    obs.append(floor('WWS', 'function-token-sites', n, 1, 'function names are classified somewhere'))
    return obs


def rule_wparen(roles):
    obs = []
    pbs = r_parse.paren_bodies(roles)
    obs.append(floor('WPAREN', 'paren-bodies', len(pbs), 1, 'a body that consumes "(" and returns the inner expression itself'))
    prog = roles.prog
    # the delimiter dispatch sends the open-paren arm to such a body
    dadt = None
    for a in prog.f.adts:
        vs = [v['name'] for v in a['variants']]
        if 'OpenParen' in vs and 'CloseParen' in vs:
            dadt = a
    if dadt is None:
        obs.append(bad('WPAREN', 'WPAREN|delim', 'anchor lost: delimiter kind enum not found'))
        return obs
    names = [v['name'] for v in dadt['variants']]
    pids = {b.id for (b, bb, sub) in pbs}
    found = False
    for b in roles.parse_bodies:
        du = defuse(b)
        for bb in sorted(b.live_blocks):
            t = b.blocks[bb]['term']
            if t['k'] != 'switch':
                continue
            l = op_local(t['discr'])
            defs = du.defs.get(l, []) if l is not None else []
            if len(defs) == 1 and defs[0][2] == 'assign' and defs[0][3]['k'] == 'discr' and defs[0][3]['pl']['ty'].endswith(dadt['name']):
                tmap = {v: tb for v, tb in t['targets']}
                tb = tmap.get(names.index('OpenParen'))
                if tb is None:
                    continue
                found = True
                calls = [c for c in b.live_calls if c.bb in b.reachable_from(tb) and edge_dominates(b, bb, tb, c.bb) and c.ruid in {p.id for p in roles.parse_bodies}]
                key = 'WPAREN|dispatch|%s' % b.name
                if calls and all(c.ruid in pids for c in calls) and all(c.dest['l'] == 0 for c in calls):
                    obs.append(ok('WPAREN', key, '"(" is dispatched to %s, which returns the inner expression node itself (no wrapper node, no modified copy)' % prog.by_id[calls[0].ruid].name.split('::')[-1], b.where(tb)))
                else:
                    obs.append(bad('WPAREN', key, '"(" is not handled by a body that returns the inner expression unchanged: redundant parentheses change the tree', b.where(tb), body=b.name, bb=tb))
    if not found:
        obs.append(bad('WPAREN', 'WPAREN|dispatch', 'anchor lost: no dispatch on the delimiter kind found in the parser'))
    return obs


# ----------------------------------------------------------------------------- TSPAN

def _equiv(sm, body, a, b, depth=0):
    """are two operands the same value?  same origin; or structurally equal arithmetic on
    equivalent operands; or two calls of the same pure (&self) local body with equivalent
    receivers and no tokenizer-advancing call between them"""
    if depth > 6:
        return False
    oa = single_origin(trace_operand(body, a, through_calls=set()))
    ob = single_origin(trace_operand(body, b, through_calls=set()))
    if oa is None or ob is None:
        return False
    if oa == ob:
        return True
    if oa.kind == ob.kind == 'binop' and oa.proj == ob.proj:
        ra, rb = oa.data[2], ob.data[2]
        if ra['op'] == rb['op']:
            return _equiv(sm, body, ra['a'], rb['a'], depth + 1) and _equiv(sm, body, ra['b'], rb['b'], depth + 1)
    if oa.kind == ob.kind == 'const':
        return oa.data.get('s') == ob.data.get('s')
    if oa.kind == ob.kind == 'callres' and oa.proj == ob.proj:
        ca, cb = oa.data, ob.data
        if ca.ruid is not None and ca.ruid == cb.ruid and ca.term['arg_tys'] and ca.term['arg_tys'][0].startswith('&') and not ca.term['arg_tys'][0].startswith('&mut '):
            if len(ca.args) == len(cb.args) and all(trace_operand(body, x, through_calls=set(TRANSPARENT_CALLS)) == trace_operand(body, y, through_calls=set(TRANSPARENT_CALLS)) for x, y in zip(ca.args, cb.args)):
                return not _advance_between(sm, body, ca.bb, cb.bb) and not _advance_between(sm, body, cb.bb, ca.bb)
    return False


def _advance_between(sm, body, b1, b2):
    """a call with a `&mut` tokenizer receiver on some path from after b1 to b2"""
    if b2 not in body.reachable_after(b1):
        return False
    fwd = body.reachable_after(b1)
    back = set()
    st = [b2]
    while st:
        x = st.pop()
        if x in back:
            continue
        back.add(x)
        st.extend(body.pred[x])
    for x in (fwd & back) - {b2}:
        c = body.call_at(x)
        if c is not None and c.term['arg_tys'] and c.term['arg_tys'][0].startswith('&mut ') and sm.roles.is_scanner_ty(c.term['arg_tys'][0]):
            return True
    return False


def rule_tspan(sm, roles):
    first = _rule_tspan(sm, roles, roles.token_bodies())
    if not any(o.status == 'violated' for o in first):
        return first
    second = _rule_tspan(sm, roles, roles.token_bodies(views='ho'))
    from engine import covers
    nv = lambda obs: len([o for o in obs if o.status == 'violated'])
    if covers(first, second) and nv(second) < nv(first):
        for o in second:
            o.what += ' [read with combinator closures inlined]'
        return second
    return first


def _rule_tspan(sm, roles, bodies):
    prog = sm.prog
    obs = []
    tadt = prog.f.adt_by_name.get(roles.token_adt)
    if not tadt:
        return [bad('TSPAN', 'TSPAN|anchor', 'anchor lost: token type')]
    # the span type = type of the second field of the text-carrying variants
    n = 0
    for b in bodies:
        for bb, i, pl, rv in b.assigns():
            if not (rv['k'] == 'agg' and rv.get('adt') == roles.token_adt and len(rv['ops']) == 2):
                continue
            variant = rv['variant']
            n += 1
            k_ord = len([o for o in obs if o.key.startswith('TSPAN|%s|%s' % (b.name, variant))])
            key = 'TSPAN|%s|%s|#%d' % (b.name, variant, k_ord)
            so = single_origin(trace_operand(b, rv['ops'][1], through_calls=set()))
            if so is None or so.kind != 'agg' or len(so.data[2]['ops']) != 2:
                obs.append(bad('TSPAN', key, 'the span of the %s token is not built here from two positions' % variant, b.where(bb), body=b.name, bb=bb))
                continue
            s0, s1 = so.data[2]['ops']
            problems = []
            for nm, op in (('start', s0), ('end', s1)):
                r, w = sm.is_b(b, op)
                if not r:
                    problems.append('span %s is not provably a char boundary in bounds: %s' % (nm, w))
            # text
            to = single_origin(trace_operand(b, rv['ops'][0], through_calls=THROUGH))
            vfields = [v for v in tadt['variants'] if v['name'] == variant][0]['fields']
            text_ty = vfields[0]['ty']
            if to is not None and to.kind == 'callres' and (to.data.rdef or '') == r_slice.STR_INDEX:
                rb = r_slice.range_bounds(b, to.data)
                if rb is None or rb[0] is None or rb[1] is None:
                    problems.append('the token text is not a [lo..hi] slice')
                elif not sm._is_self_field(b, to.data.args[0], sm.input_idx):
                    problems.append('the token text is not a slice of the input')
                else:
                    lo, hi, kind = rb
                    if variant == 'String':
                        # text = [span.0 + 1, span.1 - 1)
                        lo_o = single_origin(trace_operand(b, lo, through_calls=set()))
                        hi_o = single_origin(trace_operand(b, hi, through_calls=set()))
                        good = (lo_o is not None and lo_o.kind == 'binop' and lo_o.data[2]['op'].startswith('Add') and op_const_int(lo_o.data[2]['b']) == 1 and _equiv(sm, b, lo_o.data[2]['a'], s0)
                                and hi_o is not None and hi_o.kind == 'binop' and hi_o.data[2]['op'].startswith('Sub') and op_const_int(hi_o.data[2]['b']) == 1 and _equiv(sm, b, hi_o.data[2]['a'], s1))
                        if not good and lo_o is not None and lo_o.kind == 'binop' and lo_o.data[2]['op'].startswith('Add') and _const_one(b, lo_o.data[2]['b']) and _equiv(sm, b, lo_o.data[2]['a'], s0):
                            good = _hi_is_last_item(sm, b, hi, s1, bb)
                        if not good:
                            problems.append('the String token text is not input[span.start + 1 .. span.end - 1] (the characters between the quotes, verbatim)')
                    else:
                        if not _equiv(sm, b, lo, s0):
                            problems.append('text lower bound and span start are different values')
                        if not _equiv(sm, b, hi, s1):
                            problems.append('text upper bound and span end are different values')
            elif to is not None and to.kind == 'param' and not to.proj and 'str' in text_ty:
                # text handed in by the caller: must be (text, start) of one scanner call, whose text is input[start..current()]
                w = _param_text_ok(sm, roles, b, to.data, s0, s1, bb)
                if w:
                    problems.append(w)
            elif 'str' in text_ty:
                problems.append('the token text is neither a slice of the input nor a slice handed in by the scanner (built string? %r)' % to)
            elif variant == 'Number':
                # payload parsed from input[span.0 .. span.1]
                fs = [c for c in b.live_calls if (c.rdef or '').endswith('<rust_decimal::Decimal as std::str::FromStr>::from_str')]
                okk = False
                for c in fs:
                    a = single_origin(trace_operand(b, c.args[0], through_calls=set(TRANSPARENT_CALLS)))
                    if a is not None and a.kind == 'callres' and (a.data.rdef or '') == r_slice.STR_INDEX:
                        rb = r_slice.range_bounds(b, a.data)
                        if rb and rb[0] is not None and rb[1] is not None and _equiv(sm, b, rb[0], s0) and _equiv(sm, b, rb[1], s1):
                            okk = True
                if not okk:
                    problems.append('the Number token\'s value is not parsed from input[span.start .. span.end]')
            else:
                # Bool etc.: span fields B, start = a parameter (the token's start)
                o0 = single_origin(trace_operand(b, s0, through_calls=set()))
                if o0 is None or o0.kind != 'param':
                    problems.append('span start is not the token start handed in by the scanner')
            if problems:
                obs.append(bad('TSPAN', key, '%s token: %s' % (variant, '; '.join(problems)), b.where(bb), body=b.name, bb=bb))
            else:
                obs.append(ok('TSPAN', key, '%s token: span bounds are char boundaries; text and span describe the same range%s' % (variant, ' (shrunk by the quotes)' if variant == 'String' else ''), b.where(bb)))
    obs.append(floor('TSPAN', 'token-construction-sites', n, 8, 'operator, delimiter, number, comma, bool, string, reference, function, semicolon'))
    return obs


def _const_one(b, op):
    if op_const_int(op) == 1:
        return True
    o = single_origin(trace_operand(b, op, through_calls=set()))
    return o is not None and o.kind == 'const' and not o.proj and isinstance(o.data, dict) and o.data.get('int') == 1


def _hi_is_last_item(sm, b, hi, s1, agg_bb):
    """the upper bound of the text is the *index of an item the scanner drew* whose character was compared equal to
    something on an edge that dominates the token, and the span end is the position read afterwards with no advance in
    between: the text stops right before that item (the closing quote, by STRTERM), the span right after it"""
    origins = [o for o in trace_operand(b, hi, through_calls=set())]
    origins = [o for o in origins if not (o.kind == 'agg' and o.data[2].get('variant') == 'None')]
    if len(origins) != 1:
        return False
    ho = origins[0]
    if ho.kind != 'callres' or ho.proj[-1:] != (('f', 0),):
        return False
    ok_b, _ = sm.origin_b(b, ho)
    if not ok_b:
        return False
    char_key = (ho.kind, ho.key()[1], ho.proj[:-1] + (('f', 1),))
    te = None
    for sb in sorted(b.live_blocks):
        t = b.blocks[sb]['term']
        if t['k'] != 'switch':
            continue
        do = single_origin(trace_operand(b, t['discr'], through_calls=set()))
        if do is None or do.kind != 'binop' or do.data[2]['op'] != 'Eq':
            continue
        sides = [single_origin(trace_operand(b, do.data[2][x], through_calls=set())) for x in ('a', 'b')]
        if not any(x is not None and (x.kind, x.key()[1], x.proj) == char_key for x in sides):
            continue
        for v, tb in switch_edges(b, sb):
            if v != 0 and edge_dominates(b, sb, tb, agg_bb):
                te = tb
    if te is None:
        return False
    eo = single_origin(trace_operand(b, s1, through_calls=set()))
    if eo is None or eo.kind != 'callres' or eo.proj:
        return False
    r, _ = sm.is_b(b, s1)
    if not r:
        return False
    import r_term
    tm = sm.__dict__.get('_tm')
    if tm is None:
        tm = sm._tm = r_term.TermModel(sm.prog, sm.roles)
    region = b.reachable_from(te) & ({agg_bb} | {x for x in b.live_blocks if agg_bb in b.reachable_after(x)})
    for c in b.live_calls:
        if c.bb in region and (c.ruid in tm.char_adv or (c.rdef or '').endswith('as std::iter::Iterator>::next') and 'CharIndices' in (c.rdef or '')):
            return False
    return True


def _ends_at_position(sm, hi_o, pos_ruid):
    """the upper bound of the text is the scanner position: a call of the position function itself, or of a scanning
    helper that *returns* the position it stopped at (`let end = self.scan_while(pred)`, which ends in `self.current()`)"""
    if hi_o is None or hi_o.kind != 'callres' or hi_o.proj or hi_o.data.ruid is None:
        return False
    if hi_o.data.ruid == pos_ruid:
        return True
    g = sm.prog.by_id.get(hi_o.data.ruid)
    if g is None or g.locals[0]['ty'] != 'usize':
        return False
    if pos_ruid is None and sm._is_position(g):
        return True
    ro = single_origin(trace_local(g, 0, (), through_calls=set()))
    if ro is None or ro.kind != 'callres' or ro.proj or (pos_ruid is not None and ro.data.ruid != pos_ruid) or (pos_ruid is None and not sm._is_position(sm.prog.by_id.get(ro.data.ruid) or g)):
        # ... or a scanning loop that returns the index of the character it stopped at (the look-ahead's item) / the
        # input length when the look-ahead found nothing: the position, computed without a second look
        return _returns_position(sm, g)
    for c2 in g.live_calls:
        if c2.term['arg_tys'] and c2.term['arg_tys'][0].startswith('&mut ') and sm.roles.is_scanner_ty(c2.term['arg_tys'][0]) and c2.bb in g.reachable_after(ro.data.bb):
            return False
    return True


def _advance_blocks(sm, g):
    return sm.advance_blocks(g)


def _no_advance_until_return(g, adv, from_bb):
    """no advance between the read in from_bb and a return, unless the path re-executes the read"""
    rets = {bb for bb in g.live_blocks if g.blocks[bb]['term']['k'] == 'return'}
    for a in adv:
        if a == from_bb or a not in g.reachable_after(from_bb):
            continue
        nxt = g.blocks[a]['term'].get('target')
        if nxt is None:
            continue
        if nxt != from_bb and (g.reachable_from(nxt, avoid={from_bb}) & rets):
            return False
    return True


def _returns_position(sm, g, depth=0):
    """g (a scanning helper) returns the scanner position *as it is when g returns*: every returned value is
      * the result of the position function / of another such helper, or
      * the index component of the scanner's non-advancing look-ahead, or
      * input.len() on a path behind the `None` edge of a switch on that look-ahead,
    with no advance between the read and the return."""
    if depth > 3 or g.locals[0]['ty'] != 'usize' or g.arg_count < 1 or not sm.roles.is_scanner_ty(g.locals[1]['ty']):
        return False
    memo = sm.__dict__.setdefault('_retpos_memo', {})
    if g.id in memo:
        return memo[g.id]
    memo[g.id] = False
    adv = _advance_blocks(sm, g)
    origins = trace_local(g, 0, (), through_calls=set())
    res = bool(origins)
    for o in origins:
        good = False
        if o.kind == 'callres' and o.data.ruid is not None and o.data.args and sm._is_self(g, o.data.args[0]):
            C = sm.prog.by_id.get(o.data.ruid)
            if C is not None and not o.proj and (sm._is_position(C) or _returns_position(sm, C, depth + 1)):
                good = _no_advance_until_return(g, adv, o.data.bb)
            elif C is not None and o.proj[-3:] == (('dc', 'Some'), ('f', 0), ('f', 0)) and sm._is_peek(C):
                good = _no_advance_until_return(g, adv, o.data.bb)
        elif o.kind == 'callres' and (o.data.callee or '') == 'core::str::<impl str>::len' and not o.proj and sm._is_self_field(g, o.data.args[0], sm.input_idx):
            # behind the None edge of a switch on the look-ahead
            for sb in sorted(g.live_blocks):
                t = g.blocks[sb]['term']
                if t['k'] != 'switch':
                    continue
                do = single_origin(trace_operand(g, t['discr'], through_calls=set()))
                if do is None or do.kind != 'discr':
                    continue
                po = single_origin(trace_local(g, do.data[2]['pl']['l'], ()))
                if po is None or po.kind != 'callres' or po.proj or po.data.ruid is None or not po.data.args or not sm._is_self(g, po.data.args[0]):
                    continue
                P = sm.prog.by_id.get(po.data.ruid)
                if P is None or not sm._is_peek(P):
                    continue
                listed = [v for v, _ in t['targets']]
                for v, tb in switch_edges(g, sb):
                    if (v == 0 or (v == 'otherwise' and listed == [1])) and edge_dominates(g, sb, tb, o.data.bb):
                        region = g.reachable_from(tb, avoid={po.data.bb})
                        if not (adv & region) and _no_advance_until_return(g, adv, o.data.bb):
                            good = True
        if not good:
            res = False
            break
    memo[g.id] = res
    return res


def _param_text_end_ok(sm, roles, b, pidx, o0, o1, agg_bb):
    """(text, start, end) all handed in: at every call site text and end come from one call of a scanner H that was
    given the start; in H text = input[start .. e] and the end it returns is that same e, which is the scanner position
    when H returns; nothing advances between H and the token construction"""
    prog = sm.prog
    for c in b.live_calls:
        if c.term['arg_tys'] and c.term['arg_tys'][0].startswith('&mut ') and sm.roles.is_scanner_ty(c.term['arg_tys'][0]) and agg_bb in b.reachable_after(c.bb):
            return 'the scanner advances between receiving the text and building the span'
    sites = []
    oid = getattr(b, 'orig_id', b.id)
    for caller_id in prog.callers.get(oid, ()):
        sites += prog.edge_sites.get((caller_id, oid), [])
    if not sites:
        return 'no call sites'
    for c in sites:
        cb = c.body
        if max(pidx, o0.data, o1.data) - 1 >= len(c.args):
            return 'arity'
        to = single_origin(trace_operand(cb, c.args[pidx - 1], through_calls=THROUGH))
        eo = single_origin(trace_operand(cb, c.args[o1.data - 1], through_calls=set()))
        if to is None or eo is None or to.kind != 'callres' or eo.kind != 'callres' or to.data.ruid is None or to.data.bb != eo.data.bb:
            return 'at %s the text and the span end do not come from one scanner call' % c.where()
        h = prog.by_id[to.data.ruid]
        ho = single_origin(trace_local(h, 0, to.proj, through_calls=THROUGH))
        if ho is None or ho.kind != 'callres' or (ho.data.rdef or '') != r_slice.STR_INDEX:
            return '%s does not return a slice of the input as text' % h.name
        rb = r_slice.range_bounds(h, ho.data)
        if rb is None or rb[0] is None or rb[1] is None or not sm._is_self_field(h, ho.data.args[0], sm.input_idx):
            return '%s: text is not input[lo..hi]' % h.name
        lo = single_origin(trace_operand(h, rb[0], through_calls=set()))
        if lo is None or lo.kind != 'param' or lo.proj or lo.data - 1 >= len(to.data.args):
            # (text, start, end) of one call: the start it returns is the lower bound
            st = single_origin(trace_operand(cb, c.args[o0.data - 1], through_calls=set()))
            if st is None or st.kind != 'callres' or st.data.bb != to.data.bb or trace_local(h, 0, st.proj, through_calls=set()) != trace_operand(h, rb[0], through_calls=set()):
                return '%s: the text does not start at the start handed on' % h.name
        else:
            given = trace_operand(cb, to.data.args[lo.data - 1], through_calls=set())
            here = trace_operand(cb, c.args[o0.data - 1], through_calls=set())
            if {(o.kind, o.key()[1], o.proj) for o in given} != {(o.kind, o.key()[1], o.proj) for o in here}:
                return 'at %s the start passed on is not the start the text was scanned from' % c.where()
        hi_os = trace_operand(h, rb[1], through_calls=set())
        ret_os = trace_local(h, 0, eo.proj, through_calls=set())
        if not hi_os or {(o.kind, o.key()[1], o.proj) for o in hi_os} != {(o.kind, o.key()[1], o.proj) for o in ret_os}:
            return '%s: the end it returns is not the upper bound of the text it returns' % h.name
        hi_o = single_origin(hi_os)
        if not _ends_at_position(sm, hi_o, None):
            return '%s: the text does not end at the scanner position' % h.name
        for c2 in h.live_calls:
            if c2.term['arg_tys'] and c2.term['arg_tys'][0].startswith('&mut ') and sm.roles.is_scanner_ty(c2.term['arg_tys'][0]) and c2.bb in h.reachable_after(hi_o.data.bb):
                return '%s advances after cutting the text' % h.name
        if _advance_between(sm, cb, to.data.bb, c.bb):
            return 'the caller advances the scanner between cutting the text and building the token'
    return None


def _param_text_ok(sm, roles, b, pidx, s0, s1, agg_bb):
    """text parameter: at every call site (text, start) come from one call of a scanner H whose
    returned text is input[start .. current()], with no advance until the span end is read"""
    prog = sm.prog
    o0 = single_origin(trace_operand(b, s0, through_calls=set()))
    if o0 is None or o0.kind != 'param' or o0.proj:
        return 'span start is not the start handed in together with the text'
    # no advancing call in this body before the span is built
    o1 = single_origin(trace_operand(b, s1, through_calls=set()))
    if o1 is not None and o1.kind == 'param' and not o1.proj and not b.is_closure:
        return _param_text_end_ok(sm, roles, b, pidx, o0, o1, agg_bb)
    if o1 is None or o1.kind != 'callres':
        return 'span end is not read from the scanner position'
    for c in b.live_calls:
        if c.term['arg_tys'] and c.term['arg_tys'][0].startswith('&mut ') and sm.roles.is_scanner_ty(c.term['arg_tys'][0]) and agg_bb in b.reachable_after(c.bb):
            return 'the scanner advances between receiving the text and reading the span end'
    sites = []
    oid = getattr(b, 'orig_id', b.id)
    for caller_id in prog.callers.get(oid, ()):
        sites += prog.edge_sites.get((caller_id, oid), [])
    if not sites:
        return 'no call sites'
    for c in sites:
        cb = c.body
        to = single_origin(trace_operand(cb, c.args[pidx - 1], through_calls=THROUGH))
        st = single_origin(trace_operand(cb, c.args[o0.data - 1], through_calls=set()))
        if to is not None and st is not None and to.kind == 'callres' and to.data.ruid is not None and not (st.kind == 'callres' and st.data.bb == to.data.bb):
            # the scanner returns only the text and was itself *given* the start: `let atom = self.parse_var(start)`
            # — the start handed on must be the very value the scanner sliced from
            h = prog.by_id[to.data.ruid]
            ho = single_origin(trace_local(h, 0, to.proj, through_calls=THROUGH))
            if ho is None or ho.kind != 'callres' or (ho.data.rdef or '') != r_slice.STR_INDEX:
                # ... possibly through a value helper (`self.text_from(start)`)
                hv = prog.view(h, keep=lambda g: g.is_pub or g.locals[0]['ty'] in ('usize', 'bool', 'char') or not (g.arg_count >= 1 and any(g.locals[1]['ty'].startswith('&' + n) for n in roles.scan_names)), tag='tspan-h')
                ho = single_origin(trace_local(hv, 0, to.proj, through_calls=THROUGH))
                h = hv
            if ho is None or ho.kind != 'callres' or (ho.data.rdef or '') != r_slice.STR_INDEX:
                return '%s does not return a slice of the input as text' % h.name
            rb = r_slice.range_bounds(h, ho.data)
            if rb is None or rb[0] is None or rb[1] is None or not sm._is_self_field(h, ho.data.args[0], sm.input_idx):
                return '%s: text is not input[lo..hi]' % h.name
            lo = single_origin(trace_operand(h, rb[0], through_calls=set()))
            if lo is None or lo.kind != 'param' or lo.proj or lo.data - 1 >= len(to.data.args):
                return '%s: the text does not start at a position it was given' % h.name
            given = trace_operand(cb, to.data.args[lo.data - 1], through_calls=set())
            here = trace_operand(cb, c.args[o0.data - 1], through_calls=set())
            if {(o.kind, o.key()[1], o.proj) for o in given} != {(o.kind, o.key()[1], o.proj) for o in here}:
                return 'at %s the start passed on is not the start the text was scanned from' % c.where()
            hi_o = single_origin(trace_operand(h, rb[1], through_calls=set()))
            if not _ends_at_position(sm, hi_o, o1.data.ruid):
                return '%s: the text ends at a different position function than the span' % h.name
            for c2 in h.live_calls:
                if c2.term['arg_tys'] and c2.term['arg_tys'][0].startswith('&mut ') and sm.roles.is_scanner_ty(c2.term['arg_tys'][0]) and c2.bb in h.reachable_after(hi_o.data.bb):
                    return '%s advances after cutting the text' % h.name
            if _advance_between(sm, cb, to.data.bb, c.bb):
                return 'the caller advances the scanner between cutting the text and building the token'
            continue
        if to is None or st is None or to.kind != 'callres' or st.kind != 'callres' or to.data.bb != st.data.bb or to.data.ruid is None:
            return 'at %s the text and the start do not come from one scanner call' % c.where()
        h = prog.by_id[to.data.ruid]
        # in h: _0.<to.proj> = input[lo..hi], _0.<st.proj> == lo, hi = position
        ho = single_origin(trace_local(h, 0, to.proj, through_calls=THROUGH))
        if ho is None or ho.kind != 'callres' or (ho.data.rdef or '') != r_slice.STR_INDEX:
            return '%s does not return a slice of the input as text' % h.name
        rb = r_slice.range_bounds(h, ho.data)
        if rb is None or rb[0] is None or rb[1] is None or not sm._is_self_field(h, ho.data.args[0], sm.input_idx):
            return '%s: text is not input[lo..hi]' % h.name
        so = trace_local(h, 0, st.proj, through_calls=set())
        lo_o = trace_operand(h, rb[0], through_calls=set())
        if so != lo_o:
            return '%s: the start it returns is not the lower bound of the text it returns' % h.name
        hi_o = single_origin(trace_operand(h, rb[1], through_calls=set()))
        if not _ends_at_position(sm, hi_o, o1.data.ruid):
            return '%s: the text ends at a different position function than the span' % h.name
        # no advance in h after the slice's upper bound was read
        for c2 in h.live_calls:
            if c2.term['arg_tys'] and c2.term['arg_tys'][0].startswith('&mut ') and sm.roles.is_scanner_ty(c2.term['arg_tys'][0]) and c2.bb in h.reachable_after(hi_o.data.bb):
                return '%s advances after cutting the text' % h.name
        # no advance in the caller between the scanner call and this call
        if _advance_between(sm, cb, to.data.bb, c.bb):
            return 'the caller advances the scanner between cutting the text and building the token'
    return None


# ----------------------------------------------------------------------------- BOOLWORD
BOOL_WORDS = ('true', 'True', 'false', 'False')


def _excluded_words(prog, b, target_bb, text_op, depth=0):
    """the constant words w for which a comparison `text == w` is known false at target_bb (the false edge of the
    comparison's switch dominates it); for a text handed in as a parameter, also what every call site excludes"""
    from facts import op_const_str
    from r_prec import bool_source_truth
    text_os = {(o.kind, o.key()[1], o.proj) for o in trace_operand(b, text_op, through_calls=THROUGH)}
    out = set()
    for sb in sorted(b.live_blocks):
        t = b.blocks[sb]['term']
        if t['k'] != 'switch':
            continue
        src = bool_source(b, t['discr'])
        if src is None:
            continue
        tc, parity = src
        if re.search(r'<impl \[.*\]>::contains$', tc.callee or '') and len(tc.args) == 2:
            # `TRUE_ATOMS.contains(&word)` on a constant array of words: on the false edge the word is none of them
            words = _const_str_array(b, tc.args[0])
            if words and {(o.kind, o.key()[1], o.proj) for o in trace_operand(b, tc.args[1], through_calls=THROUGH)} == text_os:
                tv = bool_source_truth(b, sb, target_bb)
                if tv == 0:
                    out |= set(words)
            continue
        if (tc.callee or '') not in ('std::cmp::PartialEq::eq', 'std::cmp::PartialEq::ne') or len(tc.args) != 2:
            continue
        word, other = None, None
        for k in (0, 1):
            sv = op_const_str(tc.args[k])
            if sv is None:
                o = single_origin(trace_operand(b, tc.args[k], through_calls=set()))
                sv = op_const_str(o.data) if o is not None and o.kind == 'const' and not o.proj and isinstance(o.data, dict) else None
            if sv is not None:
                word, other = sv, tc.args[1 - k]
        if word is None or other is None:
            continue
        if {(o.kind, o.key()[1], o.proj) for o in trace_operand(b, other, through_calls=THROUGH)} != text_os:
            continue
        tv = bool_source_truth(b, sb, target_bb)
        if tv is None:
            continue
        equal = tv if tc.callee.endswith('::eq') else 1 - tv
        if equal == 0:
            out.add(word)
    so = single_origin(trace_operand(b, text_op, through_calls=THROUGH))
    if so is not None and so.kind == 'param' and not so.proj and not b.is_closure and depth < 3:
        oid = getattr(b, 'orig_id', b.id)
        sites = [c for cid in prog.callers.get(oid, ()) for c in prog.edge_sites.get((cid, oid), [])]
        if sites:
            common = None
            for c in sites:
                if so.data - 1 >= len(c.args):
                    common = set(); break
                ex = _excluded_words(prog, c.body, c.bb, c.args[so.data - 1], depth + 1)
                if not all(w in ex for w in BOOL_WORDS) and not getattr(c.body, 'is_view', False):
                    # the caller read with pure word classifiers opened (`match bool_literal(word) { None => self.name_token(word, ..) }`);
                    # the blocks of the original body keep their numbers in a view
                    v = prog.view(c.body, keep=_boolword_keep(prog), tag='boolword')
                    if v is not c.body and c.bb < len(v.blocks) and v.blocks[c.bb]['term']['k'] == 'call':
                        vc = v.call_at(c.bb)
                        if vc is not None and vc.ruid == c.ruid and so.data - 1 < len(vc.args):
                            ex |= _excluded_words(prog, v, c.bb, vc.args[so.data - 1], depth + 1)
                common = ex if common is None else (common & ex)
            out |= (common or set())
    elif so is not None and so.kind == 'param' and so.data == 1 and b.is_closure and len(so.proj) >= 1 and so.proj[0][0] == 'f' and depth < 3:
        # the word was captured by a closure (`self.peek().map(|peek| if peek.is_open_paren() { Function(atom, ..) } ..)`):
        # what is known where the closure is built
        k = so.proj[0][1]
        sites = prog.closure_sites.get(getattr(b, 'orig_id', b.id), [])
        common = None
        for (pb, pbb, pi) in sites:
            agg = pb.blocks[pbb]['stmts'][pi]['rv']
            if k >= len(agg['ops']):
                common = set(); break
            ex = _excluded_words(prog, pb, pbb, agg['ops'][k], depth + 1)
            common = ex if common is None else (common & ex)
        out |= (common or set())
    return out


def _boolword_keep(prog):
    def keep(g):
        pure = not g.is_closure and not prog._publicly_reachable(g) and g.arg_count >= 1 and 'str' in g.locals[1]['ty'] \
            and not any(g.locals[k]['ty'].startswith('&mut ') for k in range(1, g.arg_count + 1)) and g.locals[0]['ty'] != '()'
        return not pure
    return keep


def _const_str_array(b, op):
    """the strings of a constant array operand (`const TRUE_ATOMS: [&str; 2] = ["True", "true"]`, possibly promoted / unsized), or None"""
    from facts import op_const_str
    o = single_origin(trace_operand(b, op, through_calls=set()))
    rv = None
    if o is not None and o.kind == 'const' and not o.proj and isinstance(o.data, dict) and o.data.get('uneval_uid'):
        cb = b.facts.by_id.get(o.data['uneval_uid'])
        if cb is not None:
            asg = [x for x in cb.assigns() if x[2]['l'] == 0 and not x[2]['p']]
            if len(asg) == 1:
                rv = asg[0][3]
                b = cb
    elif o is not None and o.kind == 'agg' and not o.proj:
        rv = o.data[2]
    if rv is None or rv.get('k') != 'agg' or rv.get('agg') != 'array':
        return None
    words = []
    for e in rv['ops']:
        sv = op_const_str(e)
        if sv is None:
            return None
        words.append(sv)
    return words


def rule_boolword(roles):
    first = _rule_boolword(roles, roles.token_bodies())
    if not any(o.status == 'violated' for o in first):
        return first
    # second reading: pure word classifiers (`keyword::bool_literal(word) -> Option<bool>`) opened
    prog = roles.prog
    second = _rule_boolword(roles, [prog.view(b, keep=_boolword_keep(prog), tag='boolword') for b in roles.token_bodies()])
    from engine import covers
    nv = lambda obs: len([o for o in obs if o.status == 'violated'])
    if covers(first, second) and nv(second) < nv(first):
        for o in second:
            o.what += ' [read with word classifiers inlined]'
        return second
    return first


def _rule_boolword(roles, bodies):
    """`true` / `True` / `false` / `False` are boolean literals whatever follows them: a Function or Reference token is
    built for a scanned word only where the word is known to be none of the four (the false edges of the comparisons
    dominate the construction, in the builder itself or at every call site that hands the word in)"""
    prog = roles.prog
    obs = []
    n = 0
    for b in bodies:
        for bb, i, pl, rv in b.assigns():
            if not (rv['k'] == 'agg' and rv.get('adt') == roles.token_adt and rv.get('variant') in ('Function', 'Reference') and len(rv['ops']) == 2):
                continue
            n += 1
            key = 'BOOLWORD|%s|%s|#%d' % (b.name, rv['variant'], len([o for o in obs if o.key.startswith('BOOLWORD|%s|%s|' % (b.name, rv['variant']))]))
            ex = _excluded_words(prog, b, bb, rv['ops'][0])
            missing = [w for w in BOOL_WORDS if w not in ex]
            if missing:
                obs.append(bad('BOOLWORD', key, 'a %s token can be built for the word%s %s: a boolean literal followed by `(` (or in that position) is classified as a name' % (rv['variant'], 's' if len(missing) > 1 else '', ', '.join(missing)), b.where(bb), body=b.name, bb=bb))
            else:
                obs.append(ok('BOOLWORD', key, 'a %s token is built only for a word that compared unequal to true / True / false / False' % rv['variant'], b.where(bb)))
    obs.append(floor('BOOLWORD', 'name-token-sites', n, 2, 'Function and Reference tokens are built somewhere'))
    return obs


# ----------------------------------------------------------------------------- CHARUNITS
COUNT_STEPS = ('std::iter::Iterator::nth', 'std::iter::Iterator::skip', 'std::iter::Iterator::advance_by', 'std::iter::Iterator::take',
               'std::iter::Iterator::step_by', 'std::iter::Iterator::nth_back')
BYTE_VALUED = re.compile(r'^(core::str::<impl str>::(len|find|rfind|find_map|floor_char_boundary|ceil_char_boundary)|std::string::String::len|'
                         r'core::char::methods::<impl char>::len_utf8|core::str::<impl str>::(match_indices|char_indices))$')


def rule_charunits(roles):
    """a count-based step of a character iterator (nth / skip / advance_by / take) must be given a number of
    characters: a byte quantity (str::len, str::find, len_utf8, a CharIndices position) over-advances on multi-byte
    text and silently drops the characters that follow"""
    prog = roles.prog
    obs = []
    n = 0
    for b in roles.token_bodies():
        for c in b.live_calls:
            if c.callee not in COUNT_STEPS or not c.term['arg_tys'] or len(c.args) < 2:
                continue
            if not re.search(r'std::str::(CharIndices|Chars)<', c.term['arg_tys'][0]):
                continue
            n += 1
            key = 'CHARUNITS|%s|%s|#%d' % (b.name, c.callee.split('::')[-1], len([o for o in obs if o.key.startswith('CHARUNITS|%s|' % b.name)]))
            origins = trace_operand(b, c.args[1], through_calls=set())
            byte = []
            unknown = []
            for o in origins:
                if o.kind == 'const':
                    continue
                if o.kind == 'callres':
                    nm = o.data.rdef or o.data.callee or ''
                    if BYTE_VALUED.match(o.data.callee or '') or BYTE_VALUED.match(nm):
                        byte.append(nm)
                        continue
                    if nm.endswith('Iterator>::count') or (o.data.callee or '') == 'std::iter::Iterator::count':
                        continue
                    if (o.data.rdef or '').endswith("CharIndices<'a> as std::iter::Iterator>::next") or (o.data.rdef or '').endswith('CharIndices<\'_> as std::iter::Iterator>::next'):
                        byte.append('a CharIndices position')
                        continue
                unknown.append(repr(o))
            if byte:
                obs.append(bad('CHARUNITS', key, '%s on the character iterator is given a byte quantity (%s): on multi-byte text it skips too far and the characters after it are silently dropped' % (c.callee.split('::')[-1], ', '.join(sorted(set(byte)))), c.where(), body=b.name, bb=c.bb))
            elif unknown:
                obs.append(assumed('CHARUNITS', key, '%s on the character iterator: the count (%s) is not recognisably a byte quantity' % (c.callee.split('::')[-1], '; '.join(unknown)[:200]), c.where()))
            else:
                obs.append(ok('CHARUNITS', key, '%s on the character iterator is given a constant / a character count' % c.callee.split('::')[-1], c.where()))
    # counted loops: `for _ in a..b { advance one character }` steps (b - a) characters
    import r_term
    tm = r_term.TermModel(prog, roles)
    for b in roles.token_bodies():
        for scc in b.sccs():
            advs = [c for c in b.live_calls if c.bb in scc and ((c.rdef or '') == r_term.CHAR_NEXT or c.ruid in tm.char_adv)
                    and c.term['arg_tys'] and c.term['arg_tys'][0].startswith('&mut ')]
            rnext = [c for c in b.live_calls if c.bb in scc and re.search(r'std::ops::Range(Inclusive)?<\w+> as std::iter::Iterator>::next$', c.callee and (c.fn or {}).get('path', '') or '')]
            if not advs or not rnext:
                continue
            it = single_origin(trace_operand(b, rnext[0].args[0], through_calls={'std::iter::IntoIterator::into_iter'}))
            if it is None or it.kind != 'agg' or it.data[2].get('adt', '').split('<')[0] not in ('std::ops::Range', 'std::ops::RangeInclusive'):
                continue
            n += 1
            key = 'CHARUNITS|%s|counted-loop|#%d' % (b.name, len([o for o in obs if o.key.startswith('CHARUNITS|%s|counted' % b.name)]))
            byte = []
            for x in it.data[2]['ops'][:2]:
                for o in trace_operand(b, x, through_calls=set()):
                    if o.kind == 'callres' and (BYTE_VALUED.match(o.data.callee or '') or BYTE_VALUED.match(o.data.rdef or '')):
                        byte.append(o.data.rdef or o.data.callee)
            if byte:
                obs.append(bad('CHARUNITS', key, 'a loop counted by a byte quantity (%s) advances the character iterator once per count: on multi-byte text it steps too far and the characters after it are silently dropped' % ', '.join(sorted(set(byte))),
                               advs[0].where(), body=b.name, bb=advs[0].bb))
            else:
                obs.append(ok('CHARUNITS', key, 'counted loop over the character iterator: the count is not a byte quantity', advs[0].where()))
    if n == 0:
        obs.append(ok('CHARUNITS', 'CHARUNITS|none', 'the character iterators are only stepped one item at a time (no nth / skip / advance_by / take, no counted loop)'))
    return obs


# ----------------------------------------------------------------------------- WORDSCAN
PRED_TAKERS = re.compile(r'^core::str::<impl str>::(find|rfind|split|trim_start_matches|trim_end_matches|trim_matches|starts_with|contains|matches|char_indices)$|'
                         r'^std::iter::Iterator::(position|take_while|skip_while|find|any|all)$')


def _char_preds_of(prog, g):
    """char predicates a scanner consults: local (char) -> bool bodies it calls, or hands to str::find / position / .."""
    out = []
    for c in g.live_calls:
        if c.ruid is not None and c.ruid in prog.by_id:
            p = prog.by_id[c.ruid]
            if p.locals[0]['ty'] == 'bool' and p.arg_count == 1 and p.locals[1]['ty'] == 'char':
                out.append(p)
        if PRED_TAKERS.match(c.callee or ''):
            for a in c.args[1:]:
                o = single_origin(trace_operand(g, a, through_calls=set()))
                q = None
                if o is not None and o.kind == 'const' and isinstance(o.data, dict) and o.data.get('fn') and o.data['fn'].get('local'):
                    q = prog.by_id.get(o.data['fn']['uid'])
                elif o is not None and o.kind == 'agg' and o.data[2].get('agg') == 'closure':
                    q = prog.by_id.get(o.data[2]['closure'])
                if q is not None:
                    out.append(q)
    return out


def _loop_accept_set(sm, prog, g, cand, depth=0):
    """a scanner body whose stop condition is not a plain `fn(char) -> bool` called in the body itself (a match on a
    classifier enum; a private `eat_while(keep: fn(char) -> bool)`): the set of characters of `cand` over which its
    character-drawing loop *continues*, found by running the loop body from the draw with the character known and
    everything else unknown (cinterp.PartialInterp).  The loop may sit in a scanner-typed helper the body calls; a
    predicate parameter of that helper is bound to the fn item the call site passes.  A draw whose walk never decides
    anything on the character (every character continues, or every character stops) is not the loop's test and is
    skipped.  None = no single readable loop."""
    import cinterp, r_term
    tm = sm.__dict__.get('_tm')
    if tm is None:
        tm = sm._tm = r_term.TermModel(prog, sm.roles)
    found = []
    bodies = [(g, {})]
    for c in g.live_calls:
        h = prog.by_id.get(c.ruid) if c.ruid else None
        if h is not None and h is not g and not h.is_closure and h.arg_count >= 1 and sm.roles.is_scanner_ty(h.locals[1]['ty']) and h.locals[0]['ty'] in ('usize', '()', 'bool'):
            fnp = {}
            for k, a in enumerate(c.args):
                o = single_origin(trace_operand(g, a, through_calls=set()))
                if o is not None and o.kind == 'const' and isinstance(o.data, dict) and o.data.get('fn') and o.data['fn'].get('uid') in prog.by_id:
                    fnp[k + 1] = prog.by_id[o.data['fn']['uid']]
                elif o is not None and o.kind == 'agg' and o.data[2].get('agg') == 'closure' and not o.data[2].get('ops') and o.data[2]['closure'] in prog.by_id:
                    pass        # a non-capturing closure: its body takes the environment first; not run here
            bodies.append((h, fnp))
    for h, fnp in bodies:
        sccs = h.sccs()
        clone_next = {x.bb for x in sm._clone_next_calls(h)}
        adv = {x.bb for x in h.live_calls if x.ruid in tm.char_adv or ((x.rdef or '').endswith('as std::iter::Iterator>::next') and 'CharIndices' in (x.rdef or '') and x.bb not in clone_next)}
        for c in h.live_calls:
            ty = c.term['dest']['ty']
            if not ty.startswith('std::option::Option<(usize, char)>') or c.term['dest']['p']:
                continue
            scc = next((s_ for s_ in sccs if c.bb in s_), None)
            if scc is None or c.term.get('target') is None:
                continue
            acc = set()
            okk = True
            n_stop = 0
            for ch in sorted(cand):
                env = {c.term['dest']['l']: ('adt', 'std::option::Option', 1, (('tuple', (cinterp.UNK, ch)),))}
                def outcome(bb, scc=scc, c=c, adv=adv):
                    if bb == c.bb:
                        return 'continue'
                    if bb not in scc:
                        return 'stop'
                    if bb in adv:
                        return 'continue'
                    return None
                try:
                    r = cinterp.PartialInterp(prog).walk(h, c.term['target'], env, outcome, fn_params=fnp)
                except cinterp.Unknown:
                    okk = False
                    break
                if r == 'continue':
                    acc.add(ch)
                else:
                    n_stop += 1
            if okk and acc and n_stop:
                found.append(acc)
    if found and all(f == found[0] for f in found):
        return found[0]
    return None


def _inline_char_consts(g):
    """characters a scanner body compares the scanned character with directly (`ch == '"'`, `match ch { '(' => ..`)"""
    out = set()
    for bb, i, pl, rv in g.assigns():
        if rv['k'] == 'binop' and rv['op'] in ('Eq', 'Ne'):
            for o in (rv['a'], rv['b']):
                if o['k'] == 'const' and o.get('ty') == 'char' and 'int' in o:
                    out.add(o['int'])
    for b in sorted(g.live_blocks):
        t = g.blocks[b]['term']
        if t['k'] == 'switch' and t.get('dty') == 'char':
            out |= {v for v, _ in t['targets']}
    return out


def _accept_set(preds, cand):
    acc = set()
    for p in preds:
        for ch in cand:
            r = eval_char_pred(p, ch)
            if r is None:
                return None
            if r:
                acc.add(ch)
    return acc


def rule_wordscan(roles, rm, sm=None):
    """a word operator is recognised by a look-ahead that tests a slice of the input against the operator registry,
    and is then consumed by a scanner that cuts the token text: both must stop at the same characters, otherwise
    the token text is not the text that was found registered (`x in'abc'` -> Operator("in'abc'"))"""
    prog = roles.prog
    deciders, consumers = [], []
    for g in roles.token_bodies():
        if g.is_closure or g.arg_count < 1 or not roles.tok_name or not roles.is_scanner_ty(g.locals[1]['ty']):
            continue
        preds = _char_preds_of(prog, g)
        if not preds and sm is None:
            continue
        if not preds:
            # no plain char predicate: the stop condition may be a match on a classifier (read from the loop itself, below);
            # only bodies that scan (directly or through one scanner-typed helper with a character loop) are candidates
            hs = [g] + [prog.by_id[c.ruid] for c in g.live_calls if c.ruid in prog.by_id and not prog.by_id[c.ruid].is_closure
                        and prog.by_id[c.ruid].arg_count >= 1 and roles.is_scanner_ty(prog.by_id[c.ruid].locals[1]['ty'])]
            if not any(c.term['dest']['ty'].startswith('std::option::Option<(usize, char)>') and any(c.bb in s_ for s_ in h.sccs()) for h in hs for c in h.live_calls):
                continue
        reads_registry = [c for c in g.live_calls if c.ruid in rm.reach_reg_lock and any('str' in t for t in c.term['arg_tys'])]
        builds_op = [1 for bb, i, pl, rv in g.assigns() if rv['k'] == 'agg' and rv.get('adt') == roles.token_adt and rv.get('variant') == 'Operator']
        if g.locals[0]['ty'] == 'bool' and reads_registry and not g.sccs() or (g.locals[0]['ty'] == 'bool' and reads_registry and not builds_op):
            deciders.append((g, preds))
        elif builds_op and not reads_registry:
            consumers.append((g, preds))
    obs = []
    if not deciders or not consumers:
        return [assumed('WORDSCAN', 'WORDSCAN|shape', 'no separate look-ahead / consumer pair for word operators in this shape (%d / %d): nothing to compare' % (len(deciders), len(consumers)))]
    def paired(d, c):
        # some body calls the look-ahead and, on its true edge, the consumer
        for x in roles.token_bodies():
            dcalls = [k for k in x.live_calls if k.ruid == d.id]
            ccalls = [k for k in x.live_calls if k.ruid == c.id]
            for dk in dcalls:
                for sb in sorted(x.live_blocks):
                    t = x.blocks[sb]['term']
                    if t['k'] != 'switch':
                        continue
                    src = bool_source(x, t['discr'])
                    if src is None or src[0].bb != dk.bb:
                        continue
                    for v, tb in switch_edges(x, sb):
                        if any(edge_dominates(x, sb, tb, ck.bb) for ck in ccalls):
                            return True
        return False
    pairs = [(d, dp, c, cp) for d, dp in deciders for c, cp in consumers if paired(d, c)]
    if not pairs:
        return [assumed('WORDSCAN', 'WORDSCAN|shape', 'no look-ahead whose true edge leads to an operator-token scanner (%d / %d candidates): nothing to compare' % (len(deciders), len(consumers)))]
    for d, dp, c, cp in pairs:
        if True:
            key = 'WORDSCAN|%s|%s' % (d.name, c.name)
            cand = set()
            unread = False
            for p in dp + cp:
                a, cd = char_set(p)
                if cd is None:
                    unread = True
                    break
                cand |= cd
            if not dp or not cp:
                import cinterp
                for x in (d, c):
                    cand |= cinterp.callee_edges_and_consts(prog, x)
                cand |= {0x0B, 0x0C, 0x41, 0x30, 0x28, 0x29, 0x5B, 0x7B, 0xA0, 0x3000, 0x85, 0xE9, 0x4E2D}
            icd, icc = _inline_char_consts(d), _inline_char_consts(c)
            cand |= icd | icc | {0x20, 0x09, 0x0A, 0x0D, 0x61, 0x7A}
            cand = {x for x in cand if 0 <= x <= 0x10FFFF and not (0xD800 <= x <= 0xDFFF)}
            sd = (_accept_set(dp, cand) if dp else _loop_accept_set(sm, prog, d, cand)) if not unread else None
            sc = (_accept_set(cp, cand) if cp else _loop_accept_set(sm, prog, c, cand)) if not unread else None
            if sd is not None and sc is not None:
                sd, sc = sd | icd, sc | icc
            if sd is None or sc is None:
                obs.append(assumed('WORDSCAN', key, 'the stop predicates of the look-ahead / the consumer are not plain character tests: not compared', d.where()))
            elif sd == sc or sd == (cand - sc):
                obs.append(ok('WORDSCAN', key, 'the look-ahead that asks the registry and the scanner that cuts the operator text stop at the same characters (%d in the tested partition)' % len(sd), d.where()))
                # WORDSTOP: a word operator ends at every whitespace character (`d in\n[1,2]` is `d in [1,2]`).  The sets
                # are read up to polarity; a letter is never a stop character, which fixes it.
                for who, st_ in (('look-ahead', sd), ('scanner', sc)):
                    acc = st_ if (0x61 in st_ and 0x7A in st_) else (cand - st_) if (0x61 not in st_ and 0x7A not in st_) else None
                    k2 = 'WORDSTOP|%s|%s' % (d.name if who == 'look-ahead' else c.name, who)
                    if acc is None:
                        obs.append(assumed('WORDSTOP', k2, 'cannot tell the accepting side of the word-operator %s: not decided' % who, d.where()))
                    else:
                        ws_in = sorted(x for x in (0x20, 0x09, 0x0A, 0x0D) if x in acc)
                        if ws_in:
                            obs.append(bad('WORDSTOP', k2, 'the word-operator %s runs over the whitespace character(s) %s: an operator word followed by that character is scanned together with what follows, so a line break / tab after `in`, `not`, `beginWith` changes the parse' % (who, ', '.join(repr(chr(x)) for x in ws_in)),
                                           (d if who == 'look-ahead' else c).where(), body=(d if who == 'look-ahead' else c).name))
                        else:
                            obs.append(ok('WORDSTOP', k2, 'the word-operator %s stops at space, tab, CR and LF' % who, (d if who == 'look-ahead' else c).where()))
            else:
                diff = sorted((sd ^ sc))[:6]
                obs.append(bad('WORDSCAN', key, 'the look-ahead that decides "this word is a registered operator" and the scanner that cuts the operator token stop at different characters (%s): the token text is then not the text that was found registered' % ', '.join(repr(chr(x)) for x in diff),
                               d.where(), body=d.name))
    return obs


# ----------------------------------------------------------------------------- NUMSTART
def _dispatch_targets(D, adv, ch):
    """local bodies whose call is reached first from the dispatching character read when that character is `ch`:
    concrete walk over the char tests (switch values, range comparisons), all branches where a test is not on the char"""
    dest = adv.dest['l']

    def val(env, op):
        if op['k'] in ('copy', 'move') and op['pl']['l'] == dest and op['pl']['p'] and op['pl'].get('ty') == 'char':
            return ch
        return _val(env, op)
    out = set()
    seen = set()
    st = [(adv.target, ())]
    while st:
        bb, envt = st.pop()
        if bb is None or (bb, envt) in seen or len(seen) > 4000:
            continue
        seen.add((bb, envt))
        env = dict(envt)
        blk = D.blocks[bb]
        for s_ in blk['stmts']:
            if s_['k'] != 'assign' or s_['pl']['p']:
                continue
            rv = s_['rv']
            l = s_['pl']['l']
            v = None
            if rv['k'] == 'use' and rv['op']['k'] in ('copy', 'move'):
                pl = rv['op']['pl']
                if pl['l'] == dest and pl['p'] and pl.get('ty') == 'char':
                    v = ch
                elif not pl['p']:
                    v = env.get(pl['l'])
                elif pl['p'] == ['deref'] and pl.get('ty') == 'char':
                    v = env.get(-pl['l'] - 1)        # through a match-guard borrow of the character
            elif rv['k'] == 'ref' and not rv.get('mut') and rv['pl']['l'] == dest and rv['pl']['p'] and rv['pl'].get('ty') == 'char':
                env[-l - 1] = ch
                continue
            elif rv['k'] == 'use' and rv['op']['k'] == 'const':
                v = rv['op'].get('int')
            elif rv['k'] == 'discr' and rv['pl']['l'] == dest and not rv['pl']['p']:
                v = 1
            elif rv['k'] == 'discr' and not rv['pl']['p'] and isinstance(env.get(rv['pl']['l']), tuple) and env[rv['pl']['l']][0] == 'adt':
                v = env[rv['pl']['l']][2]      # the kind a pure classifier returned for this character
            elif rv['k'] == 'binop':
                a, b = val(env, rv['a']), val(env, rv['b'])
                if a is not None and b is not None:
                    f = {'Eq': a == b, 'Ne': a != b, 'Lt': a < b, 'Le': a <= b, 'Gt': a > b, 'Ge': a >= b, 'BitOr': a | b, 'BitAnd': a & b}.get(rv['op'])
                    v = int(f) if f is not None else None
            elif rv['k'] == 'unop' and rv['op'] == 'Not':
                a = val(env, rv['a'])
                v = None if a is None else int(not a)
            if v is None:
                env.pop(l, None)
            else:
                env[l] = v
        t = blk['term']
        e2 = tuple(sorted(env.items()))
        if t['k'] == 'goto':
            st.append((t['target'], e2))
        elif t['k'] == 'switch':
            d = val(env, t['discr'])
            if d is None:
                for sx in D.succ[bb]:
                    st.append((sx, e2))
            else:
                nxt = t['otherwise']
                for v, tb in t['targets']:
                    if v == d:
                        nxt = tb
                st.append((nxt, e2))
        elif t['k'] == 'call':
            c = Call(D, bb, t)
            prog = getattr(D.facts, '_prog', None)
            g = prog.by_id.get(c.ruid) if prog is not None and c.ruid else None
            if g is not None and g.locals[0]['ty'] == D.locals[0]['ty']:
                out.add(c.ruid)          # a token scanner: the dispatch ends here
            else:
                env.pop(t['dest']['l'], None)      # a guard / helper: its outcome is unknown, go on ...
                if g is not None and g.locals[0]['ty'] == 'bool' and g.arg_count == 1 and g.locals[1]['ty'] == 'char' and len(c.args) == 1 and not t['dest']['p']:
                    # ... unless it is a pure predicate of the character (`Some((start, ch)) if is_number_start(ch)`): run it
                    a = val(env, c.args[0])
                    r = eval_char_pred(g, a) if a is not None else None
                    if r is not None:
                        env[t['dest']['l']] = int(r)
                elif g is not None and not g.is_closure and g.arg_count == 1 and g.locals[1]['ty'] == 'char' and len(c.args) == 1 and not t['dest']['p']:
                    # ... or a pure classifier of the character into a field-less enum (`match classify(ch) { .. }`)
                    a = val(env, c.args[0])
                    if isinstance(a, int):
                        import cinterp
                        try:
                            r = cinterp.Interp(prog).run(g, [a])
                            if isinstance(r, tuple) and r[0] == 'adt' and not r[3]:
                                env[t['dest']['l']] = r
                        except cinterp.Unknown:
                            pass
                st.append((t.get('target'), tuple(sorted(env.items()))))
        elif t['k'] in ('drop', 'assert'):
            st.append((t['target'], e2))
    return out


def rule_numstart(roles, tr):
    """a Number token starts with a digit: from the dispatching character read, the number scanner is the first
    engine body reached only when that character is a digit (a sign glued to the digits by the lexer would make
    `-2++` read as `(-2)++`, and `a -1` as two operands)"""
    prog = roles.prog
    if tr.dispatch_adv is None:
        return [assumed('NUMSTART', 'NUMSTART|shape', 'no dispatching character read found: not decided')]
    D = tr.dispatch_adv.body
    scanners = set()
    for b in roles.token_bodies():
        if any(rv['k'] == 'agg' and rv.get('adt') == roles.token_adt and rv.get('variant') == 'Number' for bb, i, pl, rv in b.assigns()):
            scanners.add(b.id)
            if b.is_closure and b.j.get('parent'):
                scanners.add(b.j['parent'])
    if D.id in scanners:
        return [assumed('NUMSTART', 'NUMSTART|shape', 'the number token is built in the dispatching body itself: not decided')]
    cand = {0x2B, 0x2D, 0x2E, 0x2F, 0x30, 0x35, 0x39, 0x3A, 0x41, 0x61, 0x65, 0x5F, 0x20, 0x28, 0x22, 0x27, 0xE9, 0x4E2D}
    for bb in sorted(D.live_blocks):
        t = D.blocks[bb]['term']
        if t['k'] == 'switch' and t.get('dty') == 'char':
            for v, _ in t['targets']:
                cand |= {v - 1, v, v + 1}
    cand = {c for c in cand if 0 <= c <= 0x10FFFF and not (0xD800 <= c <= 0xDFFF)}
    reached_for_digit = any(_dispatch_targets(D, tr.dispatch_adv, c) & scanners for c in (0x30, 0x35, 0x39))
    if not reached_for_digit:
        return [assumed('NUMSTART', 'NUMSTART|shape', 'the dispatch to the number scanner cannot be followed from the character read: not decided')]
    badc = sorted(c for c in cand if not (0x30 <= c <= 0x39) and (_dispatch_targets(D, tr.dispatch_adv, c) & scanners))
    key = 'NUMSTART|%s' % D.name
    if badc:
        return [bad('NUMSTART', key, 'the number scanner is entered for a dispatching character that is not a digit (%s): a sign (or another character) becomes part of a Number token, so prefix / postfix grouping and subtraction change (`-2++`, `a -1`)' % ', '.join(repr(chr(c)) for c in badc[:6]),
                    tr.dispatch_adv.where(), body=D.name)]
    return [ok('NUMSTART', key, 'from the dispatching character read the number scanner is reached for digits only (%d characters of the partition tried)' % len(cand), tr.dispatch_adv.where())]
