"""property -> rule sets (DESIGN §4)"""
from engine import ok, bad, assumed, floor
import r_lock, r_panic, r_errd, r_order, r_misc, r_nowrap, r_desc, r_registry, r_effects, r_value, r_ctx, r_parse, r_num, r_slice, r_term, r_token, r_table, r_top, r_prec, r_paths, r_clippy

PROPS = {}


def prop(pid, explanation, not_decided='', assumptions=()):
    def deco(fn):
        PROPS[pid] = {'fn': fn, 'explanation': explanation, 'not_decided': not_decided,
                      'assumptions': list(assumptions)}
        return fn
    return deco


COMMON_ASSUME = [
    'MIR (mir-opt-level=0) of the lib target faithfully represents the source; callees resolved by rustc (Instance::try_resolve)',
    'external callees not listed in spec/may_panic.tsv are non-panicking, non-locking and deterministic',
]


@prop('C14',
      'LOCK-a (guard liveness): forward may-dataflow of every MutexGuard/RwLock-guard-owning local in every MIR body; '
      'at every call site that is, or reaches through local bodies, a dyn Fn / fn-pointer call, the live-guard set must be empty; '
      'the once-initialiser closure must reach no callback and must not re-enter its owner; guards must not escape '
      '(signature, field, static, forget). std::sync::Mutex being non-reentrant is the only library fact used. '
      'If no engine lock is held while a handler runs, parse_expression / execute / register_* / ctx.0.lock() inside the handler '
      'behave as at top level, for every handler, nesting depth and invocation form at once.',
      not_decided='nothing of the statement for engine locks; locks taken by user code itself are out of scope',
      assumptions=COMMON_ASSUME + ['a closure passed to an external call is invoked only during that call'])
def c14(ctx):
    lm = ctx.lm
    obs, n = r_lock.rule_lock_a(lm, want=('a',))
    obs += r_lock.rule_once(lm)
    obs += r_lock.rule_escape(lm)
    fl = r_lock.rule_floors(lm)
    obs += fl
    meta = {'analysed': {'guard_live_call_sites': n,
                         'lock_sites': sum(len(v) for v in lm.direct_lock.values()),
                         'callback_sites': len(ctx.prog.callback_sites),
                         'once_closures': len(lm.once_closures)}}
    return obs, meta


def make_lm(ctx):
    """lock model whose notion of 'engine panic site' uses the same dischargers as PANIC (incl. SLICE)"""
    try:
        extra = slice_dischargers(ctx)
    except Exception:
        extra = ()
    return r_lock.LockModel(ctx.prog, extra_dischargers=extra)


def eval_model(ctx):
    if 'em' not in ctx.cache:
        ctx.cache['em'] = r_order.EvalModel(ctx.prog)
    return ctx.cache['em']


@prop('C15',
      'ERRD at every handler (dyn Fn) call site, and at every call of a helper that returns a handler\'s result as its own: the Result is the return value or is consumed by `?`; '
      'ORDER-O4: from the failure edge of the `?` after a handler call or child evaluation no child evaluation, handler call or context write is reachable; '
      'LOCK-a: no guard live at a handler call (so unwinding out of a handler drops no guard in the panicking state: no poisoning, nothing left held); '
      'LOCK-c (NO-POISON): no undischarged engine panic site inside any guard-live region; '
      'UNWIND: no catch_unwind / abort / exit / panic=abort / user Drop impl / extern ABI, so a handler panic reaches the caller as an ordinary unwind. '
      'UNWIND-PAIR: where an evaluator body writes thread-local / atomic state before a call that can reach a handler and again after it, the unwind edge of that call passes such a write too (Drop guard): no state is left changed by a contained panic.',
      not_decided='the context contents after a fault (follows from C06 WCTX + C07 O4, claimed there)',
      assumptions=COMMON_ASSUME)
def c15(ctx):
    lm = ctx.lm
    em = eval_model(ctx)
    obs = []
    # ERRD at handler sites
    hs_bodies = [b for b in ctx.prog.bodies if em.handler_sites(b)] if em.exec else []
    # a handler's result that a helper merely returns (`Context::call`, `redirect_inner_function`) is judged again
    # where the helper's result is consumed: carriers = bodies that return a handler result as their own
    prog = ctx.prog
    carriers = set()
    changed = True
    while changed:
        changed = False
        for b in prog.bodies:
            if b.id in carriers or (em.exec and b.id == em.exec.id) or b.is_closure and False:
                continue
            for c in b.live_calls:
                is_h = (c.is_virtual or c.is_indirect) and c in em.handler_sites(b)
                if (is_h or c.ruid in carriers) and c.dest['l'] == 0 and not c.dest['p']:
                    carriers.add(b.id)
                    changed = True
                    break
    carrier_callers = [b for b in prog.bodies if any(c.ruid in carriers for c in b.live_calls)]
    scope = {b.id: b for b in hs_bodies + carrier_callers}
    obs += r_errd.rule_errd(list(scope.values()), rule='ERRD', only=lambda c: c.is_virtual or c.is_indirect or c.ruid in carriers)
    obs += r_order.em_fallback(ctx.cache, ctx.prog, em, r_order.rule_o4, ('child', 'handler'))
    o2, n = r_lock.rule_lock_a(lm, want=('a', 'c'))
    obs += o2
    obs += r_lock.rule_once(lm)
    obs += r_lock.rule_escape(lm)
    obs += r_misc.rule_unwind(ctx)
    obs += r_misc.rule_unwind_pair(ctx, lm, em)
    obs += r_lock.rule_floors(lm)
    obs += r_order.rule_floors(em)
    return obs, {'analysed': {'guard_live_call_sites': n, 'handler_sites': sum(len(em.handler_sites(b)) for b in em.bodies),
                              'evaluator_bodies': len(em.bodies)}}


@prop('C07',
      'ORDER over every evaluator body (ExprAST::exec and the local bodies below it that evaluate children, call handlers or write the context). '
      'Child-evaluation sites are the calls to the public ExprAST::exec; each receives a provenance (field of the node\'s variant, item of a forward iteration over it, tuple component) '
      'traced through helper parameters to the dispatch. O1: lower field / key-before-value dominates, or mutually exclusive; only forward std iterators directly over the child vector. '
      'O2: no field site in a CFG cycle, no two sites of equal provenance on one path, item sites re-executed only through the iterator step. '
      'O3: then/else sites mutually unreachable, dominated by the condition site and by the switch on its Bool payload. '
      'O4: from the failure edge of the `?` after a child site or handler call no evaluation / call / context write is reachable. '
      'O5: no child site reachable from a handler call. O7: every Ok path passes every unconditional child site; loops are left towards Ok only when the iterator is exhausted, and inside the loop the next iterator step is not reachable without evaluating the child (no `continue` past an entry\'s value). '
      'thorough additionally enumerates every acyclic path of these bodies and re-decides O1/O2/O3/O5 path by path (the two procedures must agree).',
      not_decided='nothing of the statement; what handlers themselves do is out of scope',
      assumptions=COMMON_ASSUME)
def c07(ctx):
    def run(em):
        obs, n = r_order.rule_order(em)
        obs += r_order.rule_o4(em, ('child', 'handler'))
        obs += r_order.rule_floors(em)
        # ERRD: every child / handler result is ?-consumed or returned at all
        obs += r_errd.rule_errd(em.bodies, rule='ERRD')
        npaths = 0
        if ctx.tier == 'thorough':
            pobs, npaths = r_paths.rule_paths(em)
            dom_bad = any(o.status == 'violated' for o in obs if o.rule.startswith('ORDER'))
            path_bad = any(o.status == 'violated' for o in pobs)
            obs += pobs
            if dom_bad != path_bad:
                obs.append(bad('ORDER-PATHS', 'PATHS|agreement', 'the dominance-based verdict (%s) and the path-enumeration verdict (%s) disagree' % ('violated' if dom_bad else 'clean', 'violated' if path_bad else 'clean')))
            else:
                obs.append(ok('ORDER-PATHS', 'PATHS|agreement', 'dominance-based rules and path enumeration agree (%s)' % ('violated' if dom_bad else 'clean')))
        return obs, {'analysed': {'child_sites': n, 'evaluator_bodies': len(em.bodies), 'paths_enumerated': npaths}}
    return r_order.em_fallback(ctx.cache, ctx.prog, eval_model(ctx), run)


def _mark_undocumented_handlers(ctx):
    """handlers registered only under names the documented language does not have (a feature's `round` / `floor`), and
    the bodies only they reach"""
    if 'undoc' in ctx.cache:
        return
    ctx.cache['undoc'] = True
    prog = ctx.prog
    try:
        rows, _ = r_table.builtin_rows(prog, reg_model(ctx))
        documented = set(r_top.load_spec()) | set(r_top.UNARY_SPEC) | {'min', 'max', 'sum', 'mul', 'AND', 'OR', 'in', 'beginWith', 'endWith', '='}
        by_clo = {}
        for r in rows:
            if r.get('closure'):
                by_clo.setdefault(r['closure'], set()).add(r['name'])
        doc = [c for c, names in by_clo.items() if names & documented or None in names]
        undoc = [c for c, names in by_clo.items() if not (names & documented) and None not in names]
        em = eval_model(ctx)
        base = set(em.reach) | prog.reach([c for c in doc if c in prog.by_id])
        extra = prog.reach([c for c in undoc if c in prog.by_id]) - base
        # handlers the table could not attribute stay strict
        r_nowrap.UNDOCUMENTED_HANDLER_BODIES = set(extra)
    except Exception:
        r_nowrap.UNDOCUMENTED_HANDLER_BODIES = set()


def exec_scope(ctx):
    """bodies on the evaluation side: Reach(ExprAST::exec) plus every built-in handler and what it calls"""
    em = eval_model(ctx)
    prog = ctx.prog
    _mark_undocumented_handlers(ctx)
    ids = set(em.reach)
    hs = prog.builtin_handlers()
    ids |= prog.reach([h.id for h in hs])
    return [prog.by_id[i] for i in sorted(ids)], hs


FALLIBLE_CONV = __import__('re').compile(
    r'(::checked_\w+$|::try_from$|::try_into$|::from_str$|::from_str_exact$|::from_scientific$|^core::str::<impl str>::parse$|FromPrimitive>?::from_\w+$|ToPrimitive>?::to_\w+$|::from_str_radix$)')

def fallible_conv(c):
    n = c.rdef or c.callee or ''
    if not (FALLIBLE_CONV.search(n) or FALLIBLE_CONV.search(c.callee or '')):
        return False
    if n.endswith(('::try_from', '::try_into')):
        # a *shape* conversion that hands its argument back on failure (`<[T; 1]>::try_from(vec)` -> Err(vec)) loses
        # nothing: the Err payload is the collection itself, not a conversion error
        m = __import__('re').match(r'^std::result::Result<(.*), (std::vec::Vec<.*|std::boxed::Box<\[.*|std::string::String|&.*)>$', c.term['dest'].get('ty', ''))
        if m:
            return False
    return True


@prop('C04',
      'PANIC: inventory of every panic site (Assert terminators; calls into spec/may_panic.tsv; rust_decimal operator traits Add/Sub/Mul/Div/Rem(+Assign), Sum/Product) '
      'in Reach(ExprAST::exec) and in every built-in handler closure and its callees; each site must be discharged by D-guard (dominating is_some/is_ok edge on the same place), '
      'D-total (total constructor), D-lock (NO-POISON), D-range. NOWRAP: no primitive integer + - * / % or negation, no shift with a non-constant count, no narrowing / sign-changing / float->int `as` cast, '
      'no wrapping_/overflowing_/saturating_/unchecked_ method — this makes the verdict identical for debug and release builds (thorough re-extracts with overflow-checks off, --release and debug-assertions on and requires identical verdicts). '
      'ERRD: every crate Result and every checked_*/try_from/parse result in that scope is ?-propagated, returned, matched with a failing arm, or passed through a failure-preserving combinator. '
      'HTYPED / HGATE / AGGR: every operand of a built-in handler is consumed only through a type gate (typed accessor + ?, failing variant match, Value equality), an operand a handler type-checks is type-checked on every path to Ok, and min / max / sum / mul leave their argument loop towards Ok only when every argument was looked at (no type mismatch is skipped by an early exit).',
      not_decided='nothing of the statement; rust_decimal\'s own totality (checked_* never panic) is trusted; stack exhaustion by deep trees is C01',
      assumptions=COMMON_ASSUME + ['rust_decimal checked_add/sub/mul/div/rem return None instead of panicking'])
def c04(ctx):
    bodies, hs = exec_scope(ctx)
    obs, sites = r_panic.evaluate(bodies)
    obs += r_nowrap.rule_nowrap(bodies)
    obs += r_errd.rule_errd(bodies, extra_callee_pred=fallible_conv)
    obs.append(floor('PANIC', 'builtin-handlers', len(hs), 20, 'the documented built-in operators and functions are closures escaping into handler types'))
    obs.append(floor('PANIC', 'exec-scope-bodies', len(bodies), 30, 'evaluator + handlers + accessors'))
    if ctx.tier == 'thorough' and ctx.config == 'base':
        obs += r_clippy.rule_clippy(ctx, bodies, sites)
    # REC: evaluator recursion over the tree needs a depth guard (stack exhaustion is an abort, not an Err)
    tm = r_term.TermModel(ctx.prog, parse_roles(ctx))
    em = eval_model(ctx)
    robs, nscc = r_term.rule_rec(tm, sorted(em.reach))
    obs += robs
    # "every type mismatch is reported as Err": a type gate that is skipped on some path accepts the mismatch
    obs += r_value.rule_htyped(ctx.prog, hs)
    obs += r_value.rule_hgate(ctx.prog, hs)
    rows, probs = r_table.builtin_rows(ctx.prog, reg_model(ctx))
    obs += r_top.with_views(ctx.prog, r_top.rule_aggr, rows)
    return obs, {'analysed': {'scope_bodies': len(bodies), 'builtin_handlers': len(hs), 'panic_sites': len(sites), 'recursive_sccs': nscc}}


@prop('C18',
      'TDESC: the descriptor store is found by type (static Mutex<HashMap<Key, Descriptor>>). Key agreement: every body that builds key variant X stores / extracts value variant X '
      '(nine setter/getter pairs, one each); the two enums declare identical variant lists; the key derives Hash/Eq; name-carrying kinds put their String parameter into the key unchanged. '
      'Fallback: each kind falls back to one default fn item used by no other kind. Dispatch: in ExprAST::describe every dyn-Fn descriptor call takes its callee from the getter of the node\'s own kind, '
      'asks for the node\'s own name field, and passes describe() of every child exactly once in field order. PANIC over Reach(describe). '
      'Given HashMap semantics this entails the statement.',
      not_decided='what user-registered descriptors themselves return',
      assumptions=COMMON_ASSUME)
def c18(ctx):
    prog = ctx.prog
    dm = r_desc.DescModel(prog)
    res = r_desc.rule_keys(dm)
    if isinstance(res, list):
        return res, {}
    obs, getters = res
    obs += r_desc.rule_fallback(dm, getters)
    obs += r_desc.rule_dispatch(dm, getters)
    obs += r_lock.rule_notry(ctx.lm, classes=('DESCRIPTOR',))
    d = [b for b in prog.bodies if b.name == r_desc.DESCRIBE]
    if d:
        reach = [prog.by_id[i] for i in sorted(prog.reach([d[0].id]))]
        pobs, sites = r_panic.evaluate(reach)
        obs += pobs
    return obs, {'analysed': {'describe_reach': len(reach) if d else 0, 'key_bodies': len(dm.key_bodies)}}


def reg_model(ctx):
    if 'rm' not in ctx.cache:
        ctx.cache['rm'] = r_registry.RegModel(ctx.prog, ctx.lm)
    return ctx.cache['rm']


@prop('C08',
      'WINIT: in every public register_* / parse_expression / execute, each call that can reach a registry lock is dominated by a call to the once-initialiser (found by role: the body running a blocking once primitive on the OnceCell<()> static), '
      'and the built-in fillers (bodies creating the built-in handler closures) are called only from that once-closure — so built-ins can never later overwrite a user registration, also when the replacement is made before first use. '
      'WINSERT: each registry writer applies exactly one HashMap::insert (replace semantics = most recently registered wins) with key = the name parameter and value = the remaining parameters unchanged, in one map value '
      '(precedence, type, associativity and handler of an infix operator are one entry: a lookup can never pair a new handler with an old precedence); register_* hand their parameters through unchanged and in order; only register_* and the fillers call writers. '
      'WDISP: the call-node evaluator consults the context first (Function entries only) and the global registry only on the None edge. RECV + STATICS: every invoked handler is the result of a lookup made in this evaluation, made under the name stored in the node by a reader that hands that name to the registry unchanged; '
      'HMUST: in the evaluator region of Unary / Binary / Postfix / Function nodes no success return avoids the invocation of the looked-up handler (no built-in fast path answers for a name that may have been re-registered); '
      'the static inventory is exactly {once flag, 4 registries, descriptor store}: no handler cache. '
      'PARSE-NO-EVAL: below parse_expression no arithmetic / sign change is applied to a number (an operator folded into a literal at parse time would never consult the registry). '
      'REG-SNAPSHOT: no struct of the crate is built from a registry read (no per-parser / per-context copy of the tables that later registrations would not reach).',
      not_decided='that an infix operator registered with an arbitrary precedence groups correctly against every neighbour (binding-power arithmetic over unboundedly many loop iterations: a value property; see DESIGN §4.8 / WGATE)',
      assumptions=COMMON_ASSUME)
def c08(ctx):
    rm = reg_model(ctx)
    em = eval_model(ctx)
    obs = r_registry.rule_winit(rm)
    obs += r_registry.rule_winsert(rm)
    obs += r_order.em_fallback(ctx.cache, ctx.prog, em, lambda e: r_registry.rule_wdisp(rm, e))
    obs += r_order.em_fallback(ctx.cache, ctx.prog, em, lambda e: r_registry.rule_receivers(rm, e))
    obs += r_order.em_fallback(ctx.cache, ctx.prog, em, lambda e: r_registry.rule_handler_must(rm, e))
    obs += r_misc.rule_statics(ctx)
    obs += r_lock.rule_notry(ctx.lm, classes=('REGISTRY', 'CONTEXT'))
    obs += r_parse.fallback(r_prec.rule_wgate, parse_roles(ctx))
    obs += r_prec.rule_wassoc(ctx.prog)
    obs += r_num.rule_parse_no_eval(parse_roles(ctx))
    obs += r_registry.rule_reg_snapshot(rm)
    return obs, {'analysed': {'writers': len(rm.writers), 'fillers': len(rm.fillers), 'must_init_bodies': len(rm.must_init)}}


@prop('C13',
      'UNSAFE: no unsafe block / fn / impl and no static mut (HIR scan); every static is a synchronised cell (OnceCell / Mutex) — with that, data-race freedom and "no torn map" follow from the type system. '
      'WINIT: every public entry point runs the once-initialiser before any registry access, the initialiser is a blocking once primitive, and the built-in fillers are reachable only from its closure '
      '(a hand-rolled flag set before the tables are filled moves the fillers out of a once-closure and is caught): no thread observes a partially initialised table. '
      'LOCK-a: no handler (user code) is invoked while an engine guard is live — a handler that waits for another thread\'s engine call would otherwise stall or deadlock that thread on the registry mutex. '
      'LOCK-b: at every call site with a live guard no lock acquisition is reachable and the once-closure never re-enters its owner: the held->acquired graph is ONCE -> REGISTRY only, acyclic: no deadlock among engine locks under any schedule. '
      'LOCK-c: no engine panic site inside a guard-live region (no poisoning => lock().unwrap() cannot panic). '
      'REG-RECORD: one decision, one acquisition — no body reads two parts of the record registered under one name in separate lock acquisitions (type and handler of an infix operator), and none checks a name and then writes it in a second acquisition (check-then-act).',
      not_decided='that each call\'s result equals that of some sequential order for arbitrary interleavings (linearizability of results is a property of histories); SNAP (one registry snapshot per node) is not claimed',
      assumptions=COMMON_ASSUME)
def c13(ctx):
    rm = reg_model(ctx)
    lm = ctx.lm
    obs = r_misc.rule_unsafe(ctx)
    obs += r_misc.rule_statics(ctx)
    obs += r_registry.rule_winit(rm)
    o2, n = r_lock.rule_lock_a(lm, want=('a', 'b', 'c'))
    obs += o2
    obs += r_lock.rule_once(lm)
    obs += r_lock.rule_escape(lm)
    obs += r_lock.rule_notry(lm, classes=('REGISTRY', 'CONTEXT'))
    obs += r_lock.rule_floors(lm)
    obs += r_registry.rule_reg_snapshot(rm)
    obs += r_registry.rule_reg_record(rm)
    return obs, {'analysed': {'guard_live_call_sites': n, 'statics': len(ctx.facts.statics)}}


@prop('C16',
      'EFFECTS over Reach(parse_expression, execute, ExprAST::exec / expr / describe) with the once-initialiser subtree excluded: no &mut HashMap method and no DerefMut on a REGISTRY / DESCRIPTOR guard (globals are read-only there); '
      'no call into a nondeterminism / ambient-state source (time, env, fs, net, thread id, RandomState, atomics); no iteration over a HashMap / HashSet (lookups only). '
      'STATICS: the static inventory equals the six known cells, no thread_local. FREEZE: ExprAST, Literal, Value contain no UnsafeCell, so exec(&self) cannot change the tree. '
      'Context::new builds a fresh map and reaches no static; every context lock is taken on (a field of) a parameter. '
      'WINIT: what licenses the exclusion of the once-initialiser — its writes are unobservable only if they happen before every registration, i.e. every public registry writer is dominated by the initialiser; '
      'otherwise the first parse of an unrelated program overwrites a registration made earlier (parsing changes observable state). '
      'LOCK-c (NO-POISON): no undischarged engine panic site inside a guard-live region — a program that fails midway by panicking under a global guard would poison the table and change the outcome of every later, unrelated evaluation.',
      not_decided='that results are functions of the text (a value property); a correct global memo would also be flagged (accepted, DESIGN §6)',
      assumptions=COMMON_ASSUME)
def c16(ctx):
    rm = reg_model(ctx)
    obs, n = r_effects.rule_effects(ctx, rm)
    obs += r_registry.rule_winit(rm)
    # a program that fails midway by panicking while a global guard is live poisons that table for every later evaluation
    o2, _ = r_lock.rule_lock_a(ctx.lm, want=('c',))
    obs += o2
    obs += r_misc.rule_statics(ctx)
    obs += r_misc.rule_freeze(ctx)
    return obs, {'analysed': {'scope_bodies': n}}


@prop('C17',
      'LOSSY: in every numeric `impl From<T> for Value` the single fallible Decimal constructor is applied to the argument itself and its failure is not replaced by a default unless the constructor is total for T (spec/total_ctors.tsv: every 8..64-bit integer fits the 96-bit mantissa); `as` casts on the way are violations. '
      'TACC: every typed accessor of Value (public by-value method returning the crate Result) can succeed only on the switch edge of its own variant; the non-numeric accessors return the payload moved out unchanged. '
      'TFROM: every non-numeric From<T> for Value is one aggregate of the matching variant around the argument (or its owned copy), so wrap o unwrap is the identity by construction (string / bool / decimal / list round trips).',
      not_decided='integer() / float() on numbers with non-zero scale (goes through to_string().parse(): a value property); exactness of Decimal::from_* when it succeeds (rust_decimal)',
      assumptions=COMMON_ASSUME)
def c17(ctx):
    prog = ctx.prog
    obs = r_value.rule_lossy(prog)
    obs += r_value.rule_tacc(prog)
    vb = r_value.accessors(prog) + r_value.from_impls(prog)
    vscope = [prog.by_id[i] for i in sorted(prog.reach([b.id for b in vb])) if prog.by_id[i].name.startswith(('value::', '<value::'))]
    obs += r_nowrap.rule_nowrap(vscope)
    obs += r_value.rule_tfrom(prog)
    return obs, {'analysed': {'from_impls': len(r_value.from_impls(prog)), 'accessors': len(r_value.accessors(prog))}}


@prop('C03',
      'TACC: every typed accessor of Value succeeds only on the switch edge of its own variant (no coercing arm). '
      'HTYPED: in each of the built-in handler closures (found by role: closures escaping into a handler dyn Fn type) every Value-typed operand is consumed only through a type gate — a TACC accessor whose result is ?-propagated, '
      'a variant match whose non-selected arms all reach an Err return, Value equality, or the unchanged return value; Display / to_string / float() / an untyped helper on an operand is a violation. '
      'TACC + HTYPED => a wrongly typed operand yields an error, never a coerced value. '
      'TOP: inside the grouped closures the arm selected by a string literal performs the operation the language assigns to that literal on (left, right) in that order, and the arm literals equal the literals the closure is registered under. '
      'AGGR: min / max / sum / mul leave their argument loop towards Ok only when every argument was looked at, fold in the documented direction from the documented neutral element, and AND / OR over an empty list yield their neutral element (true / false). ',
      not_decided='the numeric / boolean / string results themselves (values); of the aggregates (AND OR in min max sum mul) only the loop shape, fold direction and neutral elements are decided',
      assumptions=COMMON_ASSUME)
def c03(ctx):
    prog = ctx.prog
    hs = prog.builtin_handlers()
    obs = r_value.rule_tacc(prog)
    obs += r_value.rule_htyped(prog, hs)
    obs += r_value.rule_hgate(prog, hs)
    hscope = [prog.by_id[i] for i in sorted(prog.reach([h.id for h in hs]))]
    _mark_undocumented_handlers(ctx)
    obs += r_nowrap.rule_nowrap([b for b in hscope if not b.derived])
    obs.append(floor('HTYPED', 'builtin-handlers', len(hs), 20, 'documented built-in operators and functions'))
    rows, probs = r_table.builtin_rows(prog, reg_model(ctx))
    for fb, c, w in probs:
        obs.append(bad('TOP', 'TOP|eval|%s' % fb.name, w, c.where(), body=fb.name))
    obs += r_top.with_views(prog, r_top.rule_top, rows)
    obs += r_top.with_views(prog, r_top.rule_aggr, rows)
    obs += r_top.with_views(prog, r_top.rule_aggr_empty, rows)
    obs += r_top.with_views(prog, r_top.rule_unary, rows)
    obs += r_top.with_views(prog, r_top.rule_fold, rows)
    # conditional selection: the value of `c ? a : b` is that of the selected branch *and only that branch runs*
    # (an assignment in the branch not taken would change later values)
    o3 = r_order.em_fallback(ctx.cache, prog, eval_model(ctx), lambda e: [o for o in r_order.rule_order(e)[0] if o.rule in ('ORDER-O3',) or (o.rule == 'ORDER' and o.status == 'violated' and 'Ternary' in o.key)])
    obs += o3
    return obs, {'analysed': {'builtin_handlers': len(hs), 'registered_rows': len(rows)}}


@prop('C06',
      'WCTX, per evaluator body that writes the context: exactly one write, control-dependent on the SETTER edge of the switch on the operator type, dominated by the evaluation of both operands and by the handler call, '
      'value = the ?-unwrapped result of that handler call applied to (left value, right value) (so a failing handler leaves the binding untouched), name = the ?-unwrapped Reference name of the LEFT operand (every other target is Err), '
      'followed only by Ok(Value::None), on every Ok path of the SETTER branch, not in a loop; no other evaluator body writes the context. '
      'CTXSTORE: the context writer chain stores (name, value) unchanged; Context::value returns Ok(None) for an absent name and the stored value for a variable; Reference nodes read under their own name. '
      'COMPOUND + HGATE: the handler of `op=` performs the operation of `op` on the same operand sides, and an operand it type-checks at all is type-checked on every path to an Ok result (`x op= e` fails when `x op e` fails: no short cut returns the old value unchecked). CHAIN: a program\'s value is the loop-carried result initialised to None. ORDER-O4 (C07) gives "nothing assigned after a failure".',
      not_decided='the contents of the context after arbitrary statement sequences (follows from the per-node clauses by induction, not machine-checked); x op= e == x op e is decided only up to TOP (thorough)',
      assumptions=COMMON_ASSUME)
def c06(ctx):
    prog = ctx.prog
    em = eval_model(ctx)
    obs = r_order.em_fallback(ctx.cache, prog, em, lambda e: r_ctx.rule_wctx(prog, e))
    obs += r_order.em_fallback(ctx.cache, prog, em, lambda e: r_ctx.rule_ctx_store(prog, e))
    obs += r_order.em_fallback(ctx.cache, prog, em, lambda e: r_ctx.rule_chain(prog, e))
    obs += r_order.em_fallback(ctx.cache, prog, em, r_order.rule_o4, ('child', 'handler'))
    rows, probs = r_table.builtin_rows(prog, reg_model(ctx))
    obs += r_top.rule_compound(prog, rows)
    obs += r_top.rule_compound_gate(prog, rows)
    # `x op= e` and `x op e` may build their result through different constructors (Value::Number(d) / Value::from(d)):
    # they agree only if the conversion is the identity wrap
    obs += [o for o in r_value.rule_tfrom(prog) if 'rust_decimal::Decimal' in o.key or 'bool' in o.key or 'String' in o.key]
    return obs, {'analysed': {'evaluator_bodies': len(em.bodies)}}


def parse_roles(ctx):
    if 'pr' not in ctx.cache:
        ctx.cache['pr'] = r_parse.ParseRoles(ctx.prog)
    return ctx.cache['pr']


@prop('C05',
      'WEXPECT: in the expected-token check (role: body (&mut Tokenizer, &str) -> Result<()>) every Ok(()) is dominated by the true edge of a comparison between the inspected token\'s text and the &str parameter. '
      'CLOSER: a List / Map / Function node, and the inner expression of parentheses, is returned only on a path dominated by a check of the matching closing delimiter (expect("]")? / predicate-true edge). '
      'SEP: every feasible path from one list / map / call element to the next consumes "," (feasibility = token-fact pruning: a pure predicate on the current token keeps its value until the tokenizer may advance); the part after ":" of a map entry / conditional is parsed only after expect(":")?. '
      'WPREFIX: a Unary node with a non-constant operator is built only on the "registered prefix operator" edge. STRTERM: a String token is built only behind the true edge of a char == char comparison (through a constant flag if need be). STRAY: comma, semicolon, end of input and closing / unknown delimiters in primary position reach only failure returns. '
      'CHARUNITS: a count-based step (nth / skip / advance_by / take) of a character iterator is never given a byte quantity (str::len, str::find, len_utf8, a CharIndices position), so no character after a multi-byte literal is skipped unseen. '
      'ERRD over Reach(parse_expression): every crate Result and every from_str / parse / checked_* result is ?-propagated, returned, or matched with a failing arm (unterminated string, malformed number => Err).',
      not_decided='language inclusion L(parser) within L(grammar) in general (a property of all token sequences); only the named necessary conditions are decided',
      assumptions=COMMON_ASSUME)
def c05(ctx):
    roles = parse_roles(ctx)
    obs = r_parse.rule_floors(roles)
    if any(o.status == 'violated' for o in obs):
        return obs, {}
    obs += r_parse.rule_wexpect(roles)
    obs += r_parse.fallback(r_parse.rule_closer, roles)
    obs += r_parse.fallback(r_parse.rule_sep, roles)
    obs += r_parse.fallback(r_parse.rule_wprefix, roles, ctx.lm, merged=True)
    obs += r_parse.fallback(r_parse.rule_stray, roles)
    obs += r_parse.rule_strterm(roles)
    obs += r_token.rule_charunits(roles)
    bodies = [ctx.prog.by_id[i] for i in sorted(roles.reach)]
    rm = reg_model(ctx)
    obs += r_errd.rule_errd(bodies, extra_callee_pred=fallible_conv, lookup_miss=lambda c: c.ruid in rm.reg_lockers)
    return obs, {'analysed': {'parse_reach': len(bodies), 'parse_bodies': len(roles.parse_bodies)}}


@prop('C09',
      'TYCHAIN: the Number payload of the token type, of Literal and of Value is rust_decimal::Decimal, and PartialEq for Value is the derived impl (so == on numbers is Decimal\'s scale-insensitive equality). '
      'WFLOAT: in the number scanner, the literal evaluator, Value::decimal and every built-in handler with its callees there is no f32/f64 local, no call to Value::float / to_f64 / from_f64*, and no scale-changing method (round*, trunc*, floor, ceil, normalize, rescale, set_scale, round_sf*, fract). '
      'LITPATH: Decimal::from_str is applied to a plain slice of the input; its Ok payload reaches the Number token, Literal::Number and Value::Number by moves only (From<Decimal> is the identity wrap); its Err arm fails (a literal that is not a valid decimal is rejected, not truncated). '
      'HTYPED/TACC (C03) make the arithmetic handlers obtain their operands through decimal() unchanged.',
      not_decided='exactness of the results themselves (rust_decimal\'s arithmetic is trusted, not analysed) and digit/scale preservation inside Decimal::from_str',
      assumptions=COMMON_ASSUME + ['rust_decimal checked_add/sub/mul/rem are exact when they return Some'])
def c09(ctx):
    prog = ctx.prog
    roles = parse_roles(ctx)
    em = eval_model(ctx)
    obs = r_num.rule_tychain(prog, roles)
    _mark_undocumented_handlers(ctx)
    bodies = r_num.number_scope(prog, roles, em)
    obs += r_num.rule_wfloat(bodies)
    obs += [o for o in r_nowrap.rule_nowrap([b for b in bodies if not b.name.startswith('value::Value::')], rule='NUMPATH') if o.status == 'violated' and '|lossy:' in o.key]
    obs += r_num.rule_intfast(bodies)
    obs += r_num.rule_literal_path(prog, roles, em)
    obs += r_value.rule_tacc(prog)
    obs += r_value.rule_htyped(prog, prog.builtin_handlers())
    # decimal arithmetic and ordering: each arithmetic / comparison literal performs its own operation on (left, right)
    rows, probs = r_table.builtin_rows(prog, reg_model(ctx))
    for fb, c, w in probs:
        obs.append(bad('TOP', 'TOP|eval|%s' % fb.name, w, c.where(), body=fb.name))
    obs += [o for o in r_top.with_views(prog, r_top.rule_top, rows) if o.status != 'violated' or any(('`%s`' % k) in o.what for k in ('+', '-', '*', '/', '%', '<', '<=', '>', '>=', '==', '!=', '+=', '-=', '*=', '/=', '%=')) or 'floor' in o.key or 'cover' in o.key]
    return obs, {'analysed': {'number_path_bodies': len(bodies)}}


def slice_model(ctx):
    if 'sm' not in ctx.cache:
        sm = r_slice.SliceModel(ctx.prog, parse_roles(ctx))
        ctx.cache['sm_obs'] = r_slice.rule_slice(sm)
        ctx.cache['sm'] = sm
    return ctx.cache['sm'], ctx.cache['sm_obs']


def slice_dischargers(ctx):
    """extra PANIC dischargers that rest on the SLICE verdicts"""
    from analysis import single_origin, trace_operand, defuse
    from facts import op_place, op_const_int
    sm, _ = slice_model(ctx)

    def d_slice(site):
        if site.cls == 'index' and site.call is not None and (site.call.rdef or '') == r_slice.STR_INDEX:
            if sm.verdicts.get((site.body.id, site.bb)):
                return ('SLICE', 'both bounds proved char boundaries of the input (SLICE rule); lower bound yielded before the upper bound was read (monotone iterator positions)')
        return None

    def d_bound(site):
        """index + (1 | len_utf8) / position - 1 feeding a SLICE-proved bound: a str index is <= isize::MAX, so +<=4 cannot overflow;
        the -1 is the vetted string-payload bound (at least the closing quote was consumed)"""
        t = site.term
        if site.cls != 'assert' or not t or t['kind'] != 'Overflow':
            return None
        body = site.body
        cl = op_place(t['cond'])
        if cl is None:
            return None
        for (b, i, kind, payload, dproj) in defuse(body).defs.get(cl['l'], []):
            if kind == 'assign' and payload['k'] == 'binop' and payload.get('aty') == 'usize':
                if payload['op'] == 'AddWithOverflow':
                    r, w = sm.is_b(body, payload['a'])
                    bo = single_origin(trace_operand(body, payload['b'], through_calls=set()))
                    small = (op_const_int(payload['b']) is not None and 0 <= op_const_int(payload['b']) <= 4) or \
                            (bo is not None and bo.kind == 'callres' and (bo.data.callee or '').endswith('::len_utf8'))
                    if r and small:
                        return ('D-bound', 'char boundary (<= isize::MAX) + at most 4 cannot overflow usize')
                    from analysis import Origin
                    r3, w3 = sm.origin_b(body, Origin('binop', (b, i, payload), (('f', 0),)))
                    if r3:
                        return ('D-bound', 'the sum is itself a proved position of the input (%s): it is <= input.len() <= isize::MAX' % w3)
                if payload['op'] == 'SubWithOverflow':
                    from analysis import Origin
                    r2, w2 = sm.origin_b(body, Origin('binop', (b, i, payload), (('f', 0),)))
                    if r2:
                        return ('D-bound', 'the difference is itself a proved position of the input (%s): the subtrahend is the length of a suffix of the minuend\'s string' % w2)
                if payload['op'] == 'SubWithOverflow' and op_const_int(payload['b']) == 1:
                    # must be the operand of a vetted slice bound in this body
                    for c in body.live_calls:
                        if (c.rdef or '') == r_slice.STR_INDEX and sm.verdicts.get((body.id, c.bb)):
                            rb = r_slice.range_bounds(body, c)
                            if rb and rb[1] is not None:
                                o = single_origin(trace_operand(body, rb[1], through_calls=set()))
                                if o is not None and o.kind == 'binop' and o.data[0] == b and o.data[1] == i:
                                    return ('D-vetted', 'position after the consumed closing quote minus 1 (vetted string-payload bound, preconditions re-checked by SLICE)')
                    # ... or of one in a slicing helper this value is handed to (`self.cursor.slice(start + 1, self.cursor.offset() - 1)`)
                    for c in body.live_calls:
                        g = ctx.prog.by_id.get(c.ruid) if c.ruid else None
                        if g is None:
                            continue
                        for k, a in enumerate(c.args):
                            ao = single_origin(trace_operand(body, a, through_calls=set()))
                            if ao is None or ao.kind != 'binop' or ao.data[0] != b or ao.data[1] != i:
                                continue
                            for c2 in g.live_calls:
                                if (c2.rdef or '') == r_slice.STR_INDEX and sm.verdicts.get((g.id, c2.bb)):
                                    rb = r_slice.range_bounds(g, c2)
                                    po = single_origin(trace_operand(g, rb[1], through_calls=set())) if rb and rb[1] is not None else None
                                    if po is not None and po.kind == 'param' and po.data == k + 1 and not po.proj:
                                        return ('D-vetted', 'position after the consumed closing quote minus 1, handed to a slicing helper as the upper bound (vetted string-payload bound, preconditions re-checked by SLICE at every place the slice ends up)')
        return None
    return [d_slice, d_bound]


def parse_scope(ctx):
    prog = ctx.prog
    ents = [prog.api(n) for n in ('parse_expression', "parser::ExprAST::<'a>::expr", "parser::ExprAST::<'a>::describe")]
    ents = [e for e in ents if e]
    ids = prog.reach([e.id for e in ents])
    return [prog.by_id[i] for i in sorted(ids)], ents


@prop('C01',
      'Over Reach(parse_expression, ExprAST::expr, ExprAST::describe): (i) PANIC — every panic site (Assert terminators, unwrap/expect, Index, may_panic.tsv callees, Decimal operator traits) is discharged by D-guard, D-total, D-lock, D-range, D-vetted, D-bound or SLICE; '
      '(ii) SLICE — char-boundary typestate: both bounds of every str slice of the tokenizer input are proved char boundaries (items of the input\'s own CharIndices, input.len(), B-returning bodies / B-passing call sites, idx + len_utf8(ch) of one item, b + 1 only with an ASCII proof from the dispatching switch); '
      '(iii) LOOP — in every CFG cycle, removing the blocks that consume a character (ADVANCE on the real char iterator or on a clone made before the loop), a token (a parser call every Ok path of which reaches TOKEN-NEXT) or a finite-iterator item must leave no cycle; '
      '(iv) REC — every recursive SCC of the call graph in that reach set must pass a depth guard. (i)-(iv) together are sufficient for "returns Ok or Err; never panics, overflows the stack or spins", modulo the stated assumptions. execute = parse + exec; the exec half is C04.',
      not_decided='nothing of the statement is left out, but sufficiency rests on: external callees outside the tables do not panic; at EOF every parser loop leaves (an exit edge exists; that it is taken is not checked); slice lower <= upper by monotonicity of iterator positions',
      assumptions=COMMON_ASSUME + ['TOKEN-NEXT returns the EOF token without advancing only at end of input, where every parser loop has an exit',
                                   'slice lower bound <= upper bound: lower bounds are indices yielded before the upper bound was read (monotone iterator positions)'])
def c01(ctx):
    prog = ctx.prog
    roles = parse_roles(ctx)
    obs = r_parse.rule_floors(roles)
    if any(o.status == 'violated' for o in obs):
        return obs, {}
    bodies, ents = parse_scope(ctx)
    obs.append(floor('PANIC', 'entries', len(ents), 3, 'parse_expression, ExprAST::expr, ExprAST::describe'))
    sm, sobs = slice_model(ctx)
    obs += sobs
    pobs, sites = r_panic.evaluate(bodies, extra_dischargers=slice_dischargers(ctx))
    obs += pobs
    tm = r_term.TermModel(prog, roles)
    lobs, nloops = r_term.rule_loop(tm, bodies)
    obs += lobs
    robs, nscc = r_term.rule_rec(tm, [b.id for b in bodies])
    obs += robs
    obs.append(floor('LOOP', 'loops', nloops, 10, 'tokenizer scanners, parser loops and renderer loops'))
    if ctx.tier == 'thorough' and ctx.config == 'base':
        obs += r_clippy.rule_clippy(ctx, bodies, sites)
    return obs, {'analysed': {'scope_bodies': len(bodies), 'panic_sites': len(sites), 'loops': nloops, 'recursive_sccs': nscc}}


def tok_roles(ctx):
    if 'tr' not in ctx.cache:
        ctx.cache['tr'] = r_token.TokRoles(ctx.prog, parse_roles(ctx))
    return ctx.cache['tr']


@prop('C10',
      'TSPAN: at every construction of a token, both span fields are proved in-bounds char boundaries (SLICE domain) and the token text is the input slice over exactly the span\'s range — same values by provenance, or two reads of the scanner position with no advancing call in between; '
      'String: input[span.start + 1 .. span.end - 1] (the characters between the quotes, a sub-slice of the input, never a built string: no escape processing); Number: the value is parsed from input[span]; text handed in as a parameter must come, together with the start, from one scanner call whose text is input[start .. position]. '
      'SLICE: every slice bound is a char boundary (see C01). TWS: the whitespace predicate (role: the char predicate guarding the advance in the skipper that runs before the dispatching character is read), evaluated over a finite partition of char, accepts SP, TAB, CR, LF and nothing that is not Unicode white space. MUNCH: in the symbolic-operator scanner the run is extended iff the longer slice is a registered operator; no other condition cuts it short (longest registered operator), and that membership test reaches no static other than the registries / once flag (it answers from what is registered now, not from a remembered probe). '
      'WORDSCAN: the look-ahead that tests a word against the operator registry and the scanner that cuts the operator token consult character predicates with the same accepting set (sibling agreement over a finite partition of char); WORDSTOP: both stop at SP, TAB, CR, LF. '
      'CHARUNITS: a count-based step / counted loop over a character iterator is never given a byte quantity. '
      'BOOLWORD: a Function / Reference token is built for a scanned word only where the word compared unequal to true / True / false / False (the four words are booleans whatever follows them). '
      'NUMSTART: the number scanner is entered for digits only.',
      not_decided='classification (longest registered operator, whole-word operators, name( as function, bool keywords) and strict monotonicity of spans across a whole input: these depend on registry contents and iteration values',
      assumptions=COMMON_ASSUME)
def c10(ctx):
    roles = parse_roles(ctx)
    obs = r_parse.rule_floors(roles)
    if any(o.status == 'violated' for o in obs):
        return obs, {}
    sm, sobs = slice_model(ctx)
    # only what concerns tokens: the constructor invariant and the slices that feed a token (TSPAN
    # re-derives the boundary proofs for text and span); other slices of the parse path are C01's
    obs += [o for o in sobs if o.key.startswith(('SLICE|ctor', 'SLICE|fields', 'SLICE|reassign', 'SLICE|floor'))]
    obs += r_token.rule_tspan(sm, roles)
    obs += r_token.rule_tws(tok_roles(ctx))
    obs += r_token.rule_charunits(roles)
    obs += r_token.rule_wordscan(roles, reg_model(ctx), sm)
    obs += r_token.rule_numstart(roles, tok_roles(ctx))
    obs += r_token.rule_boolword(roles)
    obs += r_prec.rule_munch(roles, tok_roles(ctx).tm)
    return obs, {'analysed': {'slice_sites': len(sm.verdicts)}}


@prop('C11',
      'TWS: the whitespace set contains SP, TAB, CR, LF (read off the predicate\'s MIR over a finite partition of char). '
      'WWS: in the token scanner the whitespace skipper dominates the read of the dispatching character, and the function-vs-reference decision is taken by a predicate on the next *token* obtained through the token scanner on a copy (so `f (x)` and `f(x)` agree), not by a character-level peek. '
      'WPAREN: "(" is dispatched to a body that checks ")" and returns the inner expression node itself (the moved Ok payload of the inner parse: no wrapper node, no modified copy). '
      'WORDSTOP: the word-operator look-ahead and scanner stop at SP, TAB, CR and LF (read off their character predicates, or off the scanning loop itself by partial evaluation). '
      'NUMSTART: the number scanner is entered for digits only (a sign glued to the digits by the lexer makes `-5` and `- 5` different trees). SLICE (constructor / reassign): the character iterator is char_indices() of the stored input and is never re-created over a suffix. '
      'These are the mutations the property\'s own rationale names.',
      not_decided='the relation itself (AST equality over all re-layouts of all programs)',
      assumptions=COMMON_ASSUME)
def c11(ctx):
    roles = parse_roles(ctx)
    obs = r_parse.rule_floors(roles)
    if any(o.status == 'violated' for o in obs):
        return obs, {}
    tr = tok_roles(ctx)
    obs += r_token.rule_tws(tr)
    obs += r_token.rule_wws(tr)
    obs += r_parse.fallback(r_token.rule_wparen, roles)
    obs += [o for o in r_parse.fallback(r_prec.rule_wpostfix, roles) if '|gate|' in o.key or 'floor' in o.key]
    # how far the scanner moves must not depend on byte lengths (else what follows an operator / literal is eaten or
    # kept depending on how much whitespace separates it)
    obs += r_token.rule_charunits(roles)
    # which operator token is cut must depend on the operator's own characters and the registry only — not on what
    # follows it (a test on the raw next character sees the layout)
    obs += r_prec.rule_munch(roles, tr.tm)
    # a word operator ends at every whitespace character (a line break after `in` is layout, not part of the word)
    sm, sobs = slice_model(ctx)
    obs += [o for o in r_token.rule_wordscan(roles, reg_model(ctx), sm) if o.rule == 'WORDSTOP']
    # a sign is a token of its own: glued to the digits by the lexer, `-5` and `- 5` (or `-(5)`) are different trees
    obs += r_token.rule_numstart(roles, tr)
    # positions always refer to the one input string (the char iterator is `char_indices()` of the stored input and is
    # never re-created over a suffix): otherwise what a token means depends on how much was skipped before it
    obs += [o for o in sobs if o.key.startswith(('SLICE|ctor', 'SLICE|fields', 'SLICE|reassign', 'SLICE|floor'))]
    return obs, {}


@prop('C02',
      'TPREC: the rows the built-in filler registers (read off its MIR by a value-set analysis: constants, tuples, vec! literals, forward iteration, tuple correlation kept) equal the documented BinaryExpression table of README.md (`in` at the beginWith level); SETTER => RIGHT, CALC => LEFT; no operator registered twice with different rows. '
      'WUNARY: every call path from the prefix builder to the infix loop crosses a body that consumes an opening delimiter (prefix binds tighter than every infix operator); a postfix operator applies to the primary just parsed. WPOSTFIX: the prefix operand is parsed by the postfix-attaching body (postfix binds tighter than prefix), and attaching depends only on registry membership of the current token. '
      'WTERN: the branch building the conditional sits behind a test of the minimum-precedence parameter against a constant that holds at 0 and at no positive value (`?` is left to the outermost level, whatever right binding power an operator recursed with). '
      'WNOT-L: the key-less lookup of the current token\'s binding power is not reached behind a guard that lets the `not` of `x not OP y` through (for `not` it answers "no infix operator"), unless the false edge of a pure not-test dominates it. '
      'WTERN-R: the else branch of the conditional is parsed by a body from which the conditional builder is reachable without crossing an opening delimiter (chains nest to the right). '
      'WGATE: the recursion gate and the callee\'s continuation test are the same predicate on (next.left, right), or differ only at equality while left = 2p and right = 2p +- 1 make equality impossible (adjacent precedences cannot collide).',
      not_decided='that the Pratt loop builds the right tree for every operator sequence (values of binding powers along unboundedly many iterations); the `x not OP y` rewrite beyond WNOT-L (that the pending negation is never dropped needs facts about the peeked token that no rule here establishes: not decided)',
      assumptions=COMMON_ASSUME)
def c02(ctx):
    roles = parse_roles(ctx)
    obs = r_parse.rule_floors(roles)
    if any(o.status == 'violated' for o in obs):
        return obs, {}
    tobs, rows = r_table.rule_tprec(ctx, reg_model(ctx))
    obs += tobs
    obs += r_parse.fallback(r_prec.rule_wunary, roles, merged=True)
    obs += r_parse.fallback(r_prec.rule_wtern, roles)
    obs += r_parse.fallback(r_prec.rule_wtern_right, roles)
    obs += r_parse.fallback(r_prec.rule_wgate, roles)
    obs += r_parse.fallback(r_prec.rule_wnot_lookup, roles)
    obs += r_prec.rule_wassoc(ctx.prog)
    obs += [o for o in r_parse.fallback(r_prec.rule_wpostfix, roles) if '|gate|' not in o.key]
    # prefix < postfix binding presupposes that a sign is a token of its own (never glued to the digits by the lexer)
    obs += r_token.rule_numstart(roles, tok_roles(ctx))
    return obs, {'analysed': {'registered_rows': len(rows)}}
