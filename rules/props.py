"""property -> rule sets (DESIGN §4)"""
from engine import ok, bad, assumed, floor
import r_lock, r_panic

PROPS = {}


def prop(pid, explanation, not_decided='', assumptions=()):
    def deco(fn):
        PROPS[pid] = {'fn': fn, 'explanation': explanation, 'not_decided': not_decided,
                      'assumptions': list(assumptions)}
        return fn
    return deco


COMMON_ASSUME = [
    'MIR (mir-opt-level=0) of the lib target faithfully represents the source; callees resolved by rustc (Instance::try_resolve)',
    'external callees not listed in spec/may_panic.tsv are non-panicking, non-locking and deterministic',
]


@prop('C14',
      'LOCK-a (guard liveness): forward may-dataflow of every MutexGuard/RwLock-guard-owning local in every MIR body; '
      'at every call site that is, or reaches through local bodies, a dyn Fn / fn-pointer call, the live-guard set must be empty; '
      'the once-initialiser closure must reach no callback and must not re-enter its owner; guards must not escape '
      '(signature, field, static, forget). std::sync::Mutex being non-reentrant is the only library fact used. '
      'If no engine lock is held while a handler runs, parse_expression / execute / register_* / ctx.0.lock() inside the handler '
      'behave as at top level, for every handler, nesting depth and invocation form at once.',
      not_decided='nothing of the statement for engine locks; locks taken by user code itself are out of scope',
      assumptions=COMMON_ASSUME + ['a closure passed to an external call is invoked only during that call'])
def c14(ctx):
    lm = ctx.lm
    obs, n = r_lock.rule_lock_a(lm, want=('a',))
    obs += r_lock.rule_once(lm)
    obs += r_lock.rule_escape(lm)
    fl = r_lock.rule_floors(lm)
    obs += fl
    meta = {'analysed': {'guard_live_call_sites': n,
                         'lock_sites': sum(len(v) for v in lm.direct_lock.values()),
                         'callback_sites': len(ctx.prog.callback_sites),
                         'once_closures': len(lm.once_closures)}}
    return obs, meta
