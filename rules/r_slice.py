"""SLICE: char-boundary typestate for every str slice of the tokenizer input (C01, C10).

Abstract value B = "a char boundary of the tokenizer's input, <= its length".  Sources of B:
  * field .0 of an item yielded by CharIndices::next on the tokenizer's own `chars` (or a clone
    of it / of the whole tokenizer) — `chars` is built from the same `input` in every
    constructor aggregate and never re-assigned;
  * str::len of the input; constant 0;
  * the result of a local body all of whose return origins are B; a parameter all of whose
    call-site arguments are B; Option::map / unwrap_or_else / unwrap_or with B-preserving closures;
  * x.0 + len_utf8(x.1) for one item x;
  * b + 1 where b is B and the character at b is proved one byte wide: b is (the index of an item
    passed as) a parameter of a body every call site of which sits behind switch edges on that
    item's char whose values are all < 0x80.
Rule: both bounds of every <str as Index<Range*>>::index on the input are B.
Ordering (lo <= hi) is argued, not machine-checked: lower bounds are indices yielded before the
upper bound was read and iterator positions are monotone (stated in the evidence).
"""
import re
from facts import op_local, op_place, op_const_int, Call
from analysis import (defuse, trace_operand, trace_local, single_origin, Origin, TRANSPARENT_CALLS, proj_key)
from engine import ok, bad, assumed, floor
from r_panic import edge_dominates, switch_edges

THROUGH = set(TRANSPARENT_CALLS) | {'std::clone::Clone::clone'}
CHAR_NEXT = "<std::str::CharIndices<'a> as std::iter::Iterator>::next"
STR_INDEX = 'core::str::traits::<impl std::ops::Index<I> for str>::index'


class SliceModel:
    def __init__(self, prog, roles):
        self.prog = prog
        self.roles = roles
        self.adt = getattr(roles, 'scan_adt', None) or roles.tok_adt
        self.input_idx = self.chars_idx = None
        if self.adt:
            fl = self.adt['variants'][0]['fields']
            strs = [i for i, f in enumerate(fl) if re.match(r"^&('\w+ )?str$", f['ty'])]
            chs = [i for i, f in enumerate(fl) if f['ty'].startswith('std::str::CharIndices<')]
            if len(strs) == 1 and len(chs) == 1:
                self.input_idx, self.chars_idx = strs[0], chs[0]
        self._memo = {}
        self._ret_memo = {}
        self._param_memo = {}

    # -- invariant: chars = input.char_indices() in every constructor; fields never re-assigned
    def rule_invariant(self):
        obs = []
        if self.input_idx is None:
            return [bad('SLICE', 'SLICE|fields', 'anchor lost: the tokenizer type does not have exactly one &str field and one CharIndices field')]
        name = self.adt['name']
        n = 0
        for b in self.prog.bodies:
            for bb, i, pl, rv in b.assigns():
                if rv['k'] == 'agg' and rv.get('adt') == name:
                    n += 1
                    key = 'SLICE|ctor|%s' % b.name
                    io = trace_operand(b, rv['ops'][self.input_idx], through_calls=set())
                    co = single_origin(trace_operand(b, rv['ops'][self.chars_idx], through_calls=set()))
                    good = False
                    if co is not None and co.kind == 'callres' and co.data.callee == 'core::str::<impl str>::char_indices':
                        ao = trace_operand(b, co.data.args[0], through_calls=set())
                        good = (ao == io)
                    # field-wise copy of an existing tokenizer (derived Clone): both fields come from
                    # the same fields of the source
                    io2 = single_origin(trace_operand(b, rv['ops'][self.input_idx], through_calls=THROUGH))
                    co2 = single_origin(trace_operand(b, rv['ops'][self.chars_idx], through_calls=THROUGH))
                    if (io2 is not None and co2 is not None and io2.kind == 'param' and co2.kind == 'param' and io2.data == co2.data
                            and io2.proj == (('f', self.input_idx),) and co2.proj == (('f', self.chars_idx),) and self.adt['name'] in b.locals[io2.data]['ty']):
                        obs.append(ok('SLICE', key, 'field-wise copy of an existing tokenizer: input and chars are cloned together', b.where(bb)))
                        continue
                    if good:
                        obs.append(ok('SLICE', key, 'constructor: chars = char_indices() of the very string stored as input', b.where(bb)))
                    else:
                        obs.append(bad('SLICE', key, 'constructor builds a tokenizer whose char iterator is not char_indices() of its input: indices no longer refer to the sliced string', b.where(bb), body=b.name))
                # field re-assignment
                if pl['p'] and b.locals[pl['l']]['ty'].replace('&mut ', '').replace('&', '').startswith(name):
                    pk = proj_key(pl['p'])
                    if pk and pk[0] in (('f', self.input_idx), ('f', self.chars_idx)):
                        obs.append(bad('SLICE', 'SLICE|reassign|%s' % b.name, 'the input / chars field of the tokenizer is re-assigned in %s' % b.name, b.where(bb), body=b.name))
        obs.append(floor('SLICE', 'constructors', n, 1, 'the tokenizer is constructed somewhere'))
        return obs

    # -- is this place the tokenizer's input / chars (of self, or of a clone of self)?
    def _is_self_field(self, body, op, idx):
        origins = trace_operand(body, op, through_calls=THROUGH)
        if not origins:
            return False
        for o in origins:
            if o.kind == 'param' and o.data == 1 and o.proj[:1] == (('f', idx),) and self._self_is_tok(body):
                continue
            # the scanning state nested in the tokenizer proper: `(*self).cursor.input`
            if o.kind == 'param' and o.data == 1 and self._nested_idx(body) is not None and o.proj[:2] == (('f', self._nested_idx(body)), ('f', idx)):
                continue
            # upvar of a closure capturing self.input: traced through the creating body
            if o.kind == 'param' and o.data == 1 and body.is_closure:
                if self._closure_capture_is(body, o.proj, idx):
                    continue
            return False
        return True

    def _self_is_tok(self, body):
        return body.arg_count >= 1 and self.adt['name'] in body.locals[1]['ty']

    def _nested_idx(self, body):
        """self is the tokenizer proper and the scanning state is one of its fields: that field's index"""
        w = self.roles.tok_adt
        if w is None or w is self.adt or body.arg_count < 1 or w['name'] not in body.locals[1]['ty'] or self.adt['name'] in body.locals[1]['ty']:
            return None
        ks = [k for k, fl in enumerate(w['variants'][0]['fields']) if re.sub(r'<.*$', '', fl['ty']) == self.adt['name']]
        return ks[0] if len(ks) == 1 else None

    def _closure_capture_is(self, clo, proj, idx):
        # closure param 1 = environment; proj (f k) = k-th capture
        if not proj or proj[0][0] != 'f':
            return False
        k = proj[0][1]
        for (cb, bb, i) in self.prog.closure_sites.get(clo.id, []):
            rv = cb.blocks[bb]['stmts'][i]['rv']
            if k >= len(rv['ops']):
                return False
            if not self._is_self_field(cb, rv['ops'][k], idx):
                return False
        return bool(self.prog.closure_sites.get(clo.id))

    # -- B analysis
    def is_b(self, body, op, depth=0):
        """(bool, reason)"""
        origins = trace_operand(body, op, through_calls=set())
        if not origins:
            return False, 'no origin'
        why = []
        for o in origins:
            r, w = self.origin_b(body, o, depth)
            if not r:
                return False, w
            why.append(w)
        return True, '; '.join(sorted(set(why)))

    def origin_b(self, body, o, depth=0):
        if depth > 14:
            return False, 'too deep'
        k = (body.id, o.key())
        if k in self._memo:
            return self._memo[k]
        self._memo[k] = (False, 'cycle')     # pessimistic for recursion
        r = self._origin_b(body, o, depth)
        self._memo[k] = r
        return r

    def _origin_b(self, body, o, depth):
        if o.kind == 'const':
            v = op_const_int(o.data)
            if v == 0 and not o.proj:
                return True, 'const 0'
            return False, 'constant %s' % o.data.get('s')
        if o.kind == 'param':
            if body.is_closure:
                return self._closure_param_b(body, o, depth)
            return self._param_b(body, o, depth)
        if o.kind == 'callres':
            c = o.data
            rd = c.rdef or c.callee or ''
            if c.callee == 'std::ops::FromResidual::from_residual' and o.proj[:1] in ((('dc', 'Some'),), (('dc', 'Ok'),)):
                return True, 'vacuous: from_residual yields None / Err, never this variant'
            if rd == CHAR_NEXT:
                if o.proj == (('dc', 'Some'), ('f', 0), ('f', 0)) and self._is_self_field(body, c.args[0], self.chars_idx):
                    return True, 'index of an item of the input\'s CharIndices'
                return False, 'CharIndices::next on something that is not the tokenizer\'s own char iterator'
            if c.callee == 'core::str::<impl str>::len' and not o.proj:
                if self._is_self_field(body, c.args[0], self.input_idx):
                    return True, 'input.len()'
                return False, 'len() of a string that is not the input'
            if c.ruid is not None and c.ruid in self.prog.by_id:
                return self._ret_b(self.prog.by_id[c.ruid], o.proj, depth)
            if c.callee == 'std::option::Option::<T>::map' and o.proj[:2] == (('dc', 'Some'), ('f', 0)):
                clo = self._closure_arg(c, 1)
                if clo is None:
                    return False, 'Option::map with an untraceable closure'
                return self._closure_ret_b(clo, o.proj[2:], {2: (body, c.args[0], (('dc', 'Some'), ('f', 0)))}, depth)
            if c.callee in ('std::option::Option::<T>::unwrap_or_else',):
                a, w = self._operand_proj_b(body, c.args[0], (('dc', 'Some'), ('f', 0)) + o.proj, depth)
                if not a:
                    return False, w
                clo = self._closure_arg(c, 1)
                if clo is None:
                    return False, 'unwrap_or_else with an untraceable closure'
                return self._closure_ret_b(clo, o.proj, {}, depth)
            if c.callee in ('std::option::Option::<T>::unwrap_or',):
                a, w = self._operand_proj_b(body, c.args[0], (('dc', 'Some'), ('f', 0)) + o.proj, depth)
                if not a:
                    return False, w
                return self.is_b(body, c.args[1], depth + 1)
            return False, 'result of %s' % rd
        if o.kind == 'binop':
            rv = o.data[2]
            op = rv['op']
            if op in ('AddWithOverflow', 'Add', 'AddUnchecked'):
                if op == 'AddWithOverflow' and o.proj != (('f', 0),):
                    return False, 'overflow flag'
                return self._add_b(body, rv, depth)
            if op in ('SubWithOverflow', 'Sub'):
                if op == 'SubWithOverflow' and o.proj != (('f', 0),):
                    return False, 'overflow flag'
                # input.len() - <remaining suffix of the input's own CharIndices>.len(): the current position
                ao = single_origin(trace_operand(body, rv['a'], through_calls=set()))
                bo = single_origin(trace_operand(body, rv['b'], through_calls=set()))
                if (ao is not None and ao.kind == 'callres' and ao.data.callee == 'core::str::<impl str>::len' and self._is_self_field(body, ao.data.args[0], self.input_idx)
                        and bo is not None and bo.kind == 'callres' and bo.data.callee == 'core::str::<impl str>::len'):
                    so = single_origin(trace_operand(body, bo.data.args[0], through_calls=set()))
                    if so is not None and so.kind == 'callres' and (so.data.callee or '').endswith('CharIndices::<\'a>::as_str') and self._is_self_field(body, so.data.args[0], self.chars_idx):
                        return True, 'input.len() - chars.as_str().len(): the scanner position'
                return False, 'subtraction from an index (%s)' % op
            return False, 'arithmetic %s' % op
        return False, '%s' % o.kind

    def _operand_proj_b(self, body, op, proj, depth):
        origins = trace_operand(body, op, extra=proj, through_calls=set())
        for o in origins:
            r, w = self.origin_b(body, o, depth + 1)
            if not r:
                return False, w
        return bool(origins), 'ok'

    def _closure_arg(self, c, k):
        o = single_origin(trace_operand(c.body, c.args[k], through_calls=set()))
        if o is not None and o.kind == 'agg' and o.data[2]['agg'] == 'closure':
            return self.prog.by_id.get(o.data[2]['closure'])
        return None

    def _closure_ret_b(self, clo, proj, bind, depth):
        """every return origin of the closure (with `proj`) is B; `bind` maps closure parameter
        index -> (body, operand, proj) it is bound to"""
        origins = trace_local(clo, 0, proj, through_calls=set())
        for o in origins:
            if o.kind == 'param' and o.data in bind:
                b2, op2, p2 = bind[o.data]
                r, w = self._operand_proj_b(b2, op2, p2 + o.proj, depth)
            else:
                r, w = self.origin_b(clo, o, depth + 1)
            if not r:
                return False, 'closure %s: %s' % (clo.name.split('::')[-1], w)
        return bool(origins), 'closure returns B'

    def _closure_param_b(self, clo, o, depth):
        # captured value (param 1 = env)
        if o.data == 1 and o.proj and o.proj[0][0] == 'f':
            k = o.proj[0][1]
            sites = self.prog.closure_sites.get(clo.id, [])
            for (cb, bb, i) in sites:
                rv = cb.blocks[bb]['stmts'][i]['rv']
                r, w = self._operand_proj_b(cb, rv['ops'][k], o.proj[1:], depth)
                if not r:
                    return False, w
            return bool(sites), 'captured B'
        return False, 'closure parameter'

    def _ret_b(self, g, proj, depth):
        k = (g.id, proj)
        if k in self._ret_memo:
            return self._ret_memo[k]
        self._ret_memo[k] = (False, 'recursive')
        origins = trace_local(g, 0, proj, through_calls=set())
        res = (bool(origins), '%s returns B' % g.name.split('::')[-1])
        for o in origins:
            r, w = self.origin_b(g, o, depth + 1)
            if not r:
                res = (False, '%s can return a non-boundary: %s' % (g.name.split('::')[-1], w))
                break
        self._ret_memo[k] = res
        return res

    def _param_b(self, body, o, depth):
        k = (body.id, o.data, o.proj)
        if k in self._param_memo:
            return self._param_memo[k]
        self._param_memo[k] = (False, 'recursive')
        sites = []
        for caller_id in self.prog.callers.get(getattr(body, 'orig_id', body.id), ()):
            sites += self.prog.edge_sites.get((caller_id, getattr(body, 'orig_id', body.id)), [])
        res = (bool(sites), 'every call site passes B for parameter %d of %s' % (o.data, body.name.split('::')[-1]))
        if not sites:
            res = (False, 'parameter of a body without call sites')
        for c in sites:
            if o.data - 1 >= len(c.args):
                res = (False, 'arity'); break
            r, w = self._operand_proj_b(c.body, c.args[o.data - 1], o.proj, depth)
            if not r:
                res = (False, 'call site %s passes a non-boundary for parameter %d of %s: %s' % (c.where(), o.data, body.name.split('::')[-1], w))
                break
        self._param_memo[k] = res
        return res

    def _add_b(self, body, rv, depth):
        a, b = rv['a'], rv['b']
        ra, wa = self.is_b(body, a, depth + 1)
        if not ra:
            return False, 'left operand of + is not a boundary: %s' % wa
        # idx + len_utf8(ch) of the same item
        bo = single_origin(trace_operand(body, b, through_calls=set()))
        ao = single_origin(trace_operand(body, a, through_calls=set()))
        if bo is not None and bo.kind == 'callres' and (bo.data.callee or '').endswith('::len_utf8') and ao is not None:
            co = single_origin(trace_operand(body, bo.data.args[0], through_calls=set()))
            if co is not None and co.kind == ao.kind and co.key()[1] == ao.key()[1] and ao.proj[-1:] == (('f', 0),) and co.proj[-1:] == (('f', 1),) and ao.proj[:-1] == co.proj[:-1]:
                return True, 'item.0 + len_utf8(item.1) of one item'
            if co is not None and self._pos_and_peek(body, ao, co):
                return True, 'position() + len_utf8(peeked char): the scanner position is the index of the very character the look-ahead returned (no advance in between)'
            return False, 'len_utf8 of a different character than the one at the index'
        if op_const_int(b) == 1:
            r, w = self._ascii_at(body, a, depth)
            if r:
                return True, 'b + 1 with the character at b proved one byte wide (%s)' % w
            return False, 'index + 1 without a proof that the character at the index is one byte wide (%s)' % w
        w = self._pos_plus_rest_offset(body, ao, b)
        if w:
            return True, w
        return False, 'index + something that is not the width of the character there'

    # -- `self.current() + rest.find(pred).unwrap_or(rest.len())` with rest = self.chars.as_str()
    def _rest_offset(self, body, op, proj=(), depth=0):
        """the operand is a byte offset of a char boundary inside the unread rest `self.chars.as_str()` (0..=rest.len()):
        returns the set of as_str() call blocks it was measured on, or None"""
        if depth > 5:
            return None
        blocks = set()
        origins = trace_operand(body, op, extra=proj, through_calls=set())
        if not origins:
            return None
        for o in origins:
            if o.kind != 'callres':
                return None
            c = o.data
            cal = c.callee or ''
            if cal == 'core::str::<impl str>::len' and not o.proj or cal in ('core::str::<impl str>::find', 'core::str::<impl str>::rfind') and o.proj == (('dc', 'Some'), ('f', 0)):
                so = single_origin(trace_operand(body, c.args[0], through_calls=set()))
                if so is None or so.kind != 'callres' or so.proj or not (so.data.callee or '').endswith("CharIndices::<'a>::as_str") or not self._is_self_field(body, so.data.args[0], self.chars_idx):
                    return None
                blocks.add(so.data.bb)
            elif cal == 'std::option::Option::<T>::unwrap_or' and not o.proj:
                x = self._rest_offset(body, c.args[0], (('dc', 'Some'), ('f', 0)), depth + 1)
                y = self._rest_offset(body, c.args[1], (), depth + 1)
                if x is None or y is None:
                    return None
                blocks |= x | y
            elif c.callee == 'std::ops::FromResidual::from_residual' and o.proj[:1] == (('dc', 'Some'),):
                continue
            else:
                return None
        return blocks

    def _pos_plus_rest_offset(self, body, ao, b):
        if ao is None or ao.kind != 'callres' or ao.proj or ao.data.ruid is None:
            return None
        C = self.prog.by_id.get(ao.data.ruid)
        if C is None or not self._is_position(C) or not self._is_self(body, ao.data.args[0]):
            return None
        blocks = self._rest_offset(body, b)
        if not blocks:
            return None
        # the rest and the position must describe the same scanner state: nothing advances in this body
        if not (body.arg_count >= 1 and body.locals[1]['ty'].startswith('&') and not body.locals[1]['ty'].startswith('&mut ')):
            import r_term
            tm = self.__dict__.get('_tm')
            if tm is None:
                tm = self._tm = r_term.TermModel(self.prog, self.roles)
            for c in body.live_calls:
                if c.ruid in tm.char_adv or (c.rdef or '').endswith('as std::iter::Iterator>::next') and 'CharIndices' in (c.rdef or ''):
                    return None
        return 'position() + (find(..) | len()) measured on chars.as_str(): the unread rest starts at the scanner position, and str::find / len return char boundaries of it'

    def _is_self(self, body, op):
        o = single_origin(trace_operand(body, op, through_calls=set()))
        return o is not None and o.kind == 'param' and o.data == 1 and not o.proj and not body.is_closure

    # -- `self.current() + ch.len_utf8()` with `ch` from a non-advancing look at the next character
    def _clone_next_calls(self, g):
        """CharIndices::next calls in g whose receiver is a *clone* of the tokenizer's char iterator"""
        out = []
        for c in g.live_calls:
            if (c.rdef or '').endswith("CharIndices<'a> as std::iter::Iterator>::next") or (c.rdef or '').endswith("CharIndices<'_> as std::iter::Iterator>::next"):
                ro = single_origin(trace_operand(g, c.args[0], through_calls=set()))
                if ro is not None and ro.kind == 'callres' and ro.data.callee == 'std::clone::Clone::clone' and not ro.proj:
                    src = single_origin(trace_operand(g, ro.data.args[0], through_calls=set()))
                    if src is not None and src.kind == 'param' and src.data == 1 and src.proj[-1:] == (('f', self.chars_idx),):
                        out.append(c)
                    elif src is not None and src.kind == 'param' and src.data == 1 and not src.proj and self.adt['name'] in g.locals[1]['ty']:
                        out.append(c)      # clone of the whole tokenizer
        return out

    def _is_peek(self, g):
        if not g.locals[0]['ty'].startswith('std::option::Option<(usize, char)>'):
            return False
        v = self.prog.view(g, keep=lambda x: True, tag='comb')
        cn = self._clone_next_calls(v)
        if len(cn) != 1:
            return False
        os_ = trace_local(v, 0, (), through_calls=set())
        return bool(os_) and all(o.kind == 'callres' and o.data.bb == cn[0].bb for o in os_)

    def advance_blocks(self, g):
        """blocks of g whose terminator may move the scanner: a call handed `&mut` scanner, or `next` on the tokenizer's
        own char iterator (not on a clone of it)"""
        clone_next = {c.bb for c in self._clone_next_calls(g)}
        out = set()
        for c in g.live_calls:
            at = c.term.get('arg_tys') or []
            if at and at[0].startswith('&mut ') and self.roles.is_scanner_ty(at[0]):
                out.add(c.bb)
            elif (c.rdef or '').endswith('as std::iter::Iterator>::next') and 'CharIndices' in (c.rdef or '') and c.bb not in clone_next:
                out.add(c.bb)
        return out

    def _is_char_peek(self, g):
        """`self.chars.as_str().chars().next()`: the next unread character, read off a fresh iterator over the rest"""
        if not g.locals[0]['ty'].startswith('std::option::Option<char>') or g.arg_count != 1:
            return False
        os_ = trace_local(g, 0, (), through_calls=set())
        if len(os_) != 1:
            return False
        o = next(iter(os_))
        if o.kind != 'callres' or o.proj or not (o.data.rdef or '').endswith("as std::iter::Iterator>::next") or 'std::str::Chars<' not in (o.data.rdef or ''):
            return False
        it = single_origin(trace_operand(g, o.data.args[0], through_calls=set()))
        if it is None or it.kind != 'callres' or it.proj or it.data.callee != 'core::str::<impl str>::chars':
            return False
        so = single_origin(trace_operand(g, it.data.args[0], through_calls=set()))
        return so is not None and so.kind == 'callres' and not so.proj and (so.data.callee or '').endswith("CharIndices::<'a>::as_str") \
            and self._is_self_field(g, so.data.args[0], self.chars_idx)

    def _is_position(self, g):
        """returns the index of the next unread character: item.0 of a look at a clone of the iterator, else input.len()"""
        if g.locals[0]['ty'] != 'usize':
            return False
        if g.arg_count >= 1 and g.locals[1]['ty'].startswith('&mut ') and self.advance_blocks(g):
            return False       # a scanning helper: what it returns is the position only if nothing moves afterwards (r_token._returns_position)
        v = self.prog.view(g, keep=lambda x: True, tag='comb')
        cn = {c.bb for c in self._clone_next_calls(v)}
        os_ = trace_local(v, 0, (), through_calls=set())
        if not os_:
            return False
        for o in os_:
            if o.kind == 'callres' and o.data.bb in cn and o.proj[-1:] == (('f', 0),):
                continue
            if o.kind == 'callres' and o.data.ruid and o.proj[-3:] == (('dc', 'Some'), ('f', 0), ('f', 0)) and o.data.ruid != g.id:
                P = self.prog.by_id.get(o.data.ruid)
                if P is not None and self._is_peek(P) and self._is_self(v, o.data.args[0]):
                    continue       # the index component of the scanner's own non-advancing look-ahead
            if o.kind == 'callres' and (o.data.callee or '') == 'core::str::<impl str>::len' and self._is_self_field(v, o.data.args[0], self.input_idx):
                continue
            if o.kind == 'binop' and o.data[2]['op'].startswith('Sub'):
                la = single_origin(trace_operand(v, o.data[2]['a'], through_calls=set()))
                lb = single_origin(trace_operand(v, o.data[2]['b'], through_calls=set()))
                if la is not None and la.kind == 'callres' and (la.data.callee or '') == 'core::str::<impl str>::len' and self._is_self_field(v, la.data.args[0], self.input_idx) \
                        and lb is not None and lb.kind == 'callres' and (lb.data.callee or '') == 'core::str::<impl str>::len':
                    so = single_origin(trace_operand(v, lb.data.args[0], through_calls=set()))
                    if so is not None and so.kind == 'callres' and (so.data.callee or '').endswith('CharIndices::<\'a>::as_str'):
                        continue
            return False
        return True

    def _pos_and_peek(self, body, ao, co):
        if ao.kind != 'callres' or co.kind != 'callres' or ao.proj or ao.data.ruid is None or co.data.ruid is None:
            return False
        P, C = self.prog.by_id.get(co.data.ruid), self.prog.by_id.get(ao.data.ruid)
        if P is None or C is None or not self._is_position(C):
            return False
        if co.proj[-3:] == (('dc', 'Some'), ('f', 0), ('f', 1)):
            if not self._is_peek(P):
                return False
        elif co.proj[-2:] == (('dc', 'Some'), ('f', 0)):
            if not self._is_char_peek(P):
                return False
        else:
            return False
        # both on the same tokenizer
        ra = trace_operand(body, ao.data.args[0], through_calls=set())
        rc = trace_operand(body, co.data.args[0], through_calls=set())
        if {(o.kind, o.key()[1], o.proj) for o in ra} != {(o.kind, o.key()[1], o.proj) for o in rc}:
            return False
        # no advancing call between the two reads
        import r_term
        tm = self.__dict__.get('_tm')
        if tm is None:
            tm = self._tm = r_term.TermModel(self.prog, self.roles)
        b1, b2 = co.data.bb, ao.data.bb
        between = body.reachable_after(b1) & ({b2} | {x for x in body.live_blocks if b2 in body.reachable_after(x)})
        for c in body.live_calls:
            if c.bb in between and c.bb not in (b1, b2) and (c.ruid in tm.char_adv or (c.rdef or '').endswith('as std::iter::Iterator>::next') and 'CharIndices' in (c.rdef or '')):
                # an advance on the way: only harmless if it re-enters through the look-ahead again (loop back edge)
                if b1 not in body.reachable_after(c.bb) or b2 in body.reachable_from(body.blocks[c.bb]['term'].get('target', c.bb), avoid={b1}):
                    return False
        return True

    def _ascii_at(self, body, a, depth):
        """the character at index `a` is ASCII: a is a parameter whose every call site passes the
        index of an item and sits behind ASCII-only switch edges on that item's char"""
        ao = single_origin(trace_operand(body, a, through_calls=set()))
        if ao is None:
            return False, 'untraceable'
        if ao.kind == 'param' and not ao.proj and not body.is_closure:
            sites = []
            for caller_id in self.prog.callers.get(getattr(body, 'orig_id', body.id), ()):
                sites += self.prog.edge_sites.get((caller_id, getattr(body, 'orig_id', body.id)), [])
            if not sites:
                return False, 'no call sites'
            for c in sites:
                r, w = self._site_ascii(c, c.args[ao.data - 1], depth)
                if not r:
                    return False, 'call site %s: %s' % (c.where(), w)
            return True, '%d call site(s) behind ASCII-only char switch edges' % len(sites)
        if ao.kind == 'callres':
            # an item index in this very body: need the block to be behind ASCII edges — not needed today
            return False, 'item index used directly'
        return False, ao.kind

    def _site_ascii(self, c, arg, depth=0):
        body = c.body
        io = single_origin(trace_operand(body, arg, through_calls=set()))
        if io is not None and io.kind == 'param' and not io.proj and not body.is_closure and depth < 4:
            # the dispatch may sit in this very body, on a *sibling parameter*: `scan_token(ch, start)` switches on `ch`
            # while every caller passes (item.1, item.0) of one item
            r = self._sibling_char_dispatch(c, io.data, depth)
            if r is not None:
                return r
            # the index is handed on unchanged by a forwarding body (dispatch -> delim_token -> single_char): ask its callers
            return self._ascii_at(body, arg, depth + 1)
        if io is None or io.kind != 'callres' or io.proj[-1:] != (('f', 0),):
            return False, 'the argument is not the index component of an item'
        ok_b, w = self.origin_b(body, io)
        if not ok_b:
            return False, w
        char_key = (io.kind, io.key()[1], io.proj[:-1] + (('f', 1),))
        return self._ascii_under(body, c, char_key)

    def _sibling_char_dispatch(self, c, k, depth):
        body = c.body
        chars = [j for j in range(1, body.arg_count + 1) if body.locals[j]['ty'] == 'char' and j != k]
        if not chars:
            return None
        sites = []
        oid = getattr(body, 'orig_id', body.id)
        for caller_id in self.prog.callers.get(oid, ()):
            sites += self.prog.edge_sites.get((caller_id, oid), [])
        if not sites:
            return None
        for j in chars:
            good = True
            for cs in sites:
                if max(j, k) - 1 >= len(cs.args):
                    good = False; break
                io = single_origin(trace_operand(cs.body, cs.args[k - 1], through_calls=set()))
                co = single_origin(trace_operand(cs.body, cs.args[j - 1], through_calls=set()))
                if io is None or co is None or io.kind != 'callres' or co.kind != 'callres' or io.key()[1] != co.key()[1] \
                        or io.proj[-1:] != (('f', 0),) or co.proj[-1:] != (('f', 1),) or io.proj[:-1] != co.proj[:-1]:
                    good = False; break
                ok_b, w = self.origin_b(cs.body, io)
                if not ok_b:
                    good = False; break
            if not good:
                continue
            r, w = self._ascii_under(body, c, ('param', j, ()))
            if r:
                return True, 'the index parameter travels with the character parameter of the same item (every call site), and the call sits behind ASCII-only edges of the switch on that character'
        return None

    def _ascii_under(self, body, c, char_key):
        # remove ASCII edges of every switch on that item's char; the call must become unreachable
        removed = set()
        found = False
        for sb in sorted(body.live_blocks):
            t = body.blocks[sb]['term']
            if t['k'] != 'switch' or t.get('dty') != 'char':
                continue
            so = single_origin(trace_operand(body, t['discr'], through_calls=set()))
            if so is None or (so.kind, so.key()[1], so.proj) != char_key:
                continue
            found = True
            for v, tb in t['targets']:
                if v < 0x80:
                    removed.add((sb, tb, v))
        # guards `if is_delim_char(ch)`: a local character predicate that accepts ASCII characters only sends every
        # non-ASCII character down its false edge
        pred_false = {}
        for sb in sorted(body.live_blocks):
            t = body.blocks[sb]['term']
            if t['k'] != 'switch' or t.get('dty') != 'bool':
                continue
            so = single_origin(trace_operand(body, t['discr'], through_calls=set()))
            if so is None or so.kind != 'callres' or so.proj or len(so.data.args) != 1 or not so.data.ruid:
                continue
            ao = single_origin(trace_operand(body, so.data.args[0], through_calls=set()))
            if ao is None or (ao.kind, ao.key()[1], ao.proj) != char_key:
                continue
            g = self.prog.by_id.get(so.data.ruid)
            if g is None or g.arg_count != 1 or g.locals[1]['ty'] != 'char' or g.locals[0]['ty'] != 'bool':
                continue
            import r_token
            acc, cand = r_token.char_set(g)
            if acc is None or any(v >= 0x80 for v in acc):
                continue
            pred_false[sb] = [tb for v, tb in t['targets'] if v == 0] or [t['otherwise']] if any(v == 0 for v, tb in t['targets']) else None
            if pred_false[sb] is None:
                del pred_false[sb]
            else:
                found = True
        # `match classify(ch) { CharKind::Delim => .. }`: a switch on the discriminant of a pure local classifier of the
        # character; a variant is "ASCII only" when no non-ASCII character of the classifier's partition maps to it
        class_nonascii = {}
        for sb in sorted(body.live_blocks):
            t = body.blocks[sb]['term']
            if t['k'] != 'switch':
                continue
            so = single_origin(trace_operand(body, t['discr'], through_calls=set()))
            if so is None or so.kind != 'discr' or so.data[2]['pl']['p']:
                continue
            ko = single_origin(trace_local(body, so.data[2]['pl']['l'], (), through_calls=set()))
            if ko is None or ko.kind != 'callres' or ko.proj or len(ko.data.args) != 1 or not ko.data.ruid:
                continue
            ao = single_origin(trace_operand(body, ko.data.args[0], through_calls=set()))
            if ao is None or (ao.kind, ao.key()[1], ao.proj) != char_key:
                continue
            g = self.prog.by_id.get(ko.data.ruid)
            if g is None or g.is_closure or g.arg_count != 1 or g.locals[1]['ty'] != 'char':
                continue
            import cinterp
            cand = set(cinterp.callee_edges_and_consts(self.prog, g)) | {0x7F, 0x80, 0x81, 0xE9, 0x3000, 0x4E2D, 0x10FFFF, 0xD7FF, 0xE000}
            cand = {x for x in cand if 0x80 <= x <= 0x10FFFF and not (0xD800 <= x <= 0xDFFF)}
            vs = set()
            okk = True
            for ch in sorted(cand):
                try:
                    v = cinterp.Interp(self.prog).run(g, [ch])
                except cinterp.Unknown:
                    okk = False
                    break
                if not (isinstance(v, tuple) and v[0] == 'adt' and not v[3]):
                    okk = False
                    break
                vs.add(v[2])
            if okk:
                class_nonascii[sb] = vs
                found = True
        if not found:
            return False, 'no switch on the item\'s character'
        # reachability without those edges
        seen = set()
        st = [0]
        while st:
            x = st.pop()
            if x in seen:
                continue
            seen.add(x)
            t = body.blocks[x]['term']
            if x in pred_false:
                st.extend(pred_false[x])
                continue
            if x in class_nonascii:
                listed = {v for v, tb in t['targets']}
                nxt = [tb for v, tb in t['targets'] if v in class_nonascii[x]]
                if class_nonascii[x] - listed:
                    nxt.append(t['otherwise'])
                st.extend(nxt)
                continue
            if t['k'] == 'switch':
                so = single_origin(trace_operand(body, t['discr'], through_calls=set()))
                if so is not None and t.get('dty') == 'char' and (so.kind, so.key()[1], so.proj) == char_key:
                    asc = {tb for v, tb in t['targets'] if v < 0x80}
                    nonasc = [tb for v, tb in t['targets'] if v >= 0x80] + [t['otherwise']]
                    st.extend(nonasc)
                    continue
            st.extend(body.succ[x])
        if c.bb in seen:
            return False, 'the call is reachable for a non-ASCII (or unlisted) character'
        return True, 'ascii'


def slice_sites(prog, roles):
    out = []
    for bid in sorted(roles.reach):
        b = prog.by_id[bid]
        for c in b.live_calls:
            if (c.rdef or '') == STR_INDEX:
                out.append(c)
    return out


def range_bounds(body, c):
    """(lo operand or None, hi operand or None, kind) of the range argument"""
    o = single_origin(trace_operand(body, c.args[1], through_calls=set()))
    if o is None or o.kind != 'agg':
        return None
    rv = o.data[2]
    adt = rv.get('adt', '')
    ops = rv['ops']
    if adt == 'std::ops::Range':
        return ops[0], ops[1], 'Range'
    if adt == 'std::ops::RangeFrom':
        return ops[0], None, 'RangeFrom'
    if adt == 'std::ops::RangeTo':
        return None, ops[0], 'RangeTo'
    if adt == 'std::ops::RangeFull':
        return None, None, 'RangeFull'
    if adt == 'std::ops::RangeInclusive':
        return ops[0], ops[1], 'RangeInclusive'
    return None


def rule_slice(sm):
    prog, roles = sm.prog, sm.roles
    obs = sm.rule_invariant()
    sites = slice_sites(prog, roles)
    obs.append(floor('SLICE', 'slice-sites', len(sites), 1, 'token text is cut out of the input by slicing (one shared slicing helper is enough)'))
    first, verdicts = _judge_sites(sm, sites)
    if any(o.status == 'violated' for o in first):
        # second reading: the same slice sites where they end up when closures handed to combinators and private
        # higher-order helpers (`scan_while(|t, ch| ..)`) are opened at their call sites; a site is proved when every
        # copy of it is
        copies = {}
        for v in roles.token_bodies(views='ho'):
            if not getattr(v, 'is_view', False):
                continue
            bo = v.j.get('block_origin') or {}
            for c in v.live_calls:
                if (c.rdef or '') == STR_INDEX:
                    ok_b = bo.get(c.bb, (v.orig_id, c.bb))
                    copies.setdefault(tuple(ok_b), []).append(c)
        if copies:
            vobs, vver = _judge_sites(sm, [c for cs in copies.values() for c in cs])
            for o in first:
                if o.status != 'violated' or 'SLICE|' not in o.key:
                    continue
                w = o.witness or {}
                site = None
                for c in sites:
                    if c.body.name == w.get('body') and c.bb == w.get('bb'):
                        site = c
                if site is None:
                    continue
                cs = copies.get((site.body.id, site.bb), [])
                if cs and all(vver.get((c.body.id, c.bb)) for c in cs):
                    o.status = 'discharged'
                    o.what = 'both bounds are char boundaries at every place this slice ends up when the closures / higher-order helpers around it are opened (%d cop%s) [second reading]' % (len(cs), 'y' if len(cs) == 1 else 'ies')
                    verdicts[(site.body.id, site.bb)] = True
    obs += first
    sm.verdicts = verdicts
    return obs


def _judge_sites(sm, sites):
    prog, roles = sm.prog, sm.roles
    obs = []
    cnt = {}
    verdicts = {}
    for c in sites:
        b = c.body
        n = cnt.get(b.id, 0); cnt[b.id] = n + 1
        key = 'SLICE|%s|#%d' % (b.name, n)
        if not sm._is_self_field(b, c.args[0], sm.input_idx):
            # a slice of another string (e.g. a token's text): judged only if it is not the input
            obs.append(bad('SLICE', key, 'a str slice in the parse path whose receiver is not the tokenizer input: bounds cannot be related to a boundary source', c.where(), body=b.name, bb=c.bb))
            verdicts[(b.id, c.bb)] = False
            continue
        rb = range_bounds(b, c)
        if rb is None:
            obs.append(bad('SLICE', key, 'cannot read the range of this slice', c.where(), body=b.name, bb=c.bb))
            verdicts[(b.id, c.bb)] = False
            continue
        lo, hi, kind = rb
        problems = []
        whys = []
        if kind == 'RangeInclusive':
            problems.append('inclusive range: the upper bound + 1 must be a boundary')
        for nm, op in (('lower', lo), ('upper', hi)):
            if op is None:
                continue
            r, w = sm.is_b(b, op)
            if r:
                whys.append('%s: %s' % (nm, w))
            else:
                v = vetted_bound(sm, b, c, nm, op)
                if v:
                    whys.append('%s: %s' % (nm, v))
                else:
                    problems.append('%s bound is not provably a char boundary of the input: %s' % (nm, w))
        if problems:
            obs.append(bad('SLICE', key, 'input[..] in %s: %s — a multi-byte character there makes the slice panic' % (b.name.split('::')[-1], '; '.join(problems)), c.where(), body=b.name, bb=c.bb))
            verdicts[(b.id, c.bb)] = False
        else:
            obs.append(ok('SLICE', key, 'both bounds are char boundaries (%s)' % ' | '.join(whys), c.where()))
            verdicts[(b.id, c.bb)] = True
    return obs, verdicts


def vetted_bound(sm, b, c, which, op):
    """D-vetted: the string-token payload bound `current() - 1`: precondition re-checked here:
    (a) the slice passes a `char == char` true edge (the closing quote was just consumed),
    (b) every call site of the body sits behind ASCII-only switch edges (the quote is one byte),
    (c) the minuend is a boundary (the position right after the consumed quote)."""
    import r_parse
    o = single_origin(trace_operand(b, op, through_calls=set()))
    if o is None or o.kind != 'binop' or o.data[2]['op'] not in ('SubWithOverflow', 'Sub') or op_const_int(o.data[2]['b']) != 1:
        return None
    r, w = sm.is_b(b, o.data[2]['a'])
    if not r:
        return None
    # (a)
    W = []
    du = defuse(b)
    for sb in sorted(b.live_blocks):
        t = b.blocks[sb]['term']
        if t['k'] != 'switch':
            continue
        l = op_local(t['discr'])
        defs = du.defs.get(l, []) if l is not None else []
        if len(defs) == 1 and defs[0][2] == 'assign' and defs[0][3]['k'] == 'binop' and defs[0][3]['op'] == 'Eq' and defs[0][3].get('aty') == 'char':
            listed = [v for v, _ in t['targets']]
            for v, tb in switch_edges(b, sb):
                tv = (1 if listed == [0] else 0 if listed == [1] else None) if v == 'otherwise' else (1 if v != 0 else 0)
                if tv == 1:
                    W.append((sb, tb))
    if not W or not r_parse.passes_edge(b, c.bb, W):
        return None
    # (b)
    sites = []
    for caller_id in sm.prog.callers.get(getattr(b, 'orig_id', b.id), ()):
        sites += sm.prog.edge_sites.get((caller_id, getattr(b, 'orig_id', b.id)), [])
    if not sites:
        return None
    for cs in sites:
        # the start parameter (an item index) identifies the item whose char is switched on
        good = False
        for a in cs.args[1:]:
            rr, ww = sm._site_ascii(cs, a)
            if rr:
                good = True
        if not good:
            return None
    return 'D-vetted string payload: position after the consumed closing quote minus 1; the quote equals the opening character, which every call site proves one byte wide'
