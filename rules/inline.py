"""Virtual inlining (analysis-level, never touches /repo): build a *view* of a body in which calls to
private helper bodies, and closures handed to the standard Option / Result combinators, are replaced
by a copy of their MIR.  A view is an ordinary facts.Body (same name, id suffixed '#inl'), so every
intraprocedural rule can run on it unchanged.  Used as a second, equally faithful representation of
the same program when a rule cannot read the original shape (helper extracted, logic moved into a
`.map(|x| ..)` closure, one helper shared by several callers)."""
import copy
from facts import Body, Call, op_place
from analysis import trace_operand, single_origin

OPTION = 'std::option::Option'
RESULT = 'std::result::Result'

# combinator -> (receiver kind, variant whose payload is handed to the closure (None = closure takes
# nothing), which argument is the closure, how the result is built)
COMBINATORS = {
    'std::option::Option::<T>::map':           ('opt', 'Some', 1, 'wrap:Some', 'pass:None'),
    'std::option::Option::<T>::and_then':      ('opt', 'Some', 1, 'use', 'pass:None'),
    'std::option::Option::<T>::map_or':        ('opt', 'Some', 2, 'use', 'arg:1'),
    'std::option::Option::<T>::is_some_and':   ('opt', 'Some', 1, 'use', 'const:false'),
    'std::option::Option::<T>::is_none_or':    ('opt', 'Some', 1, 'use', 'const:true'),
    'std::option::Option::<T>::unwrap_or_else':('opt', None, 1, 'use', 'payload:Some'),
    'std::option::Option::<T>::ok_or_else':    ('opt', None, 1, 'wrap:Err', 'okpayload:Some'),
    'std::result::Result::<T, E>::map':        ('res', 'Ok', 1, 'wrap:Ok', 'pass:Err'),
    'std::result::Result::<T, E>::map_err':    ('res', 'Err', 1, 'wrap:Err', 'pass:Ok'),
    'std::result::Result::<T, E>::and_then':   ('res', 'Ok', 1, 'use', 'pass:Err'),
    'std::result::Result::<T, E>::map_or':     ('res', 'Ok', 2, 'use', 'arg:1'),
    'std::result::Result::<T, E>::unwrap_or_else': ('res', 'Err', 1, 'use', 'payload:Ok'),
    'std::result::Result::<T, E>::or_else':    ('res', 'Err', 1, 'use', 'pass:Ok'),
    'std::result::Result::<T, E>::is_ok_and':  ('res', 'Ok', 1, 'use', 'const:false'),
}
VIDX = {'None': 0, 'Some': 1, 'Ok': 0, 'Err': 1}


def _remap(obj, lmap, bmap):
    """deep-copy a MIR json fragment, renumbering locals and blocks"""
    if isinstance(obj, list):
        return [_remap(x, lmap, bmap) for x in obj]
    if not isinstance(obj, dict):
        return obj
    out = {}
    for k, v in obj.items():
        if k == 'l' and isinstance(v, int):
            out[k] = lmap(v)
        elif k == 'idx' and isinstance(v, int):
            out[k] = lmap(v)
        elif k in ('target', 'otherwise') and isinstance(v, int):
            out[k] = bmap(v)
        elif k == 'unwind':
            out[k] = bmap(v) if isinstance(v, int) else v
        elif k == 'targets' and isinstance(v, list):
            out[k] = [[a, bmap(b)] for a, b in v]
        else:
            out[k] = _remap(v, lmap, bmap)
    return out


def _pl(l, proj=(), ty=''):
    return {'l': l, 'p': list(proj), 'ty': ty}


def _assign(pl, rv, span):
    return {'k': 'assign', 'pl': pl, 'rv': rv, 'span': span}


def _use(op):
    return {'k': 'use', 'op': op}


def _mv(pl):
    return {'k': 'move', 'pl': pl}


def _agg(adt, variant, ops):
    return {'k': 'agg', 'agg': 'adt', 'adt': adt, 'variant': variant, 'vi': VIDX[variant], 'is_enum': True, 'ops': ops}


class Inliner:
    def __init__(self, prog, keep, max_depth=3, max_blocks=260):
        self.prog = prog
        self.keep = keep
        self.max_depth = max_depth
        self.max_blocks = max_blocks

    def view(self, body):
        j = copy.deepcopy(body.j)
        j['id'] = body.id + '#inl'
        j['inlined'] = []
        progress = True
        depth = 0
        stack = {body.id}
        # iterate: each round inlines the currently visible inlinable calls once
        origin_of_block = {}     # new block -> set of body ids it was copied from (recursion cut)
        while progress and depth < self.max_depth:
            progress = False
            depth += 1
            n = len(j['blocks'])
            for b in range(n):
                blk = j['blocks'][b]
                if blk['cleanup'] or blk['term']['k'] != 'call':
                    continue
                tmp = Body(j, body.facts)
                c = Call(tmp, b, blk['term'])
                chain = origin_of_block.get(b, set()) | stack
                done = self._inline_helper(j, b, c, chain, origin_of_block) or self._inline_combinator(j, tmp, b, c, chain, origin_of_block)
                if done:
                    progress = True
        v = Body(j, body.facts)
        v.orig_id = body.id
        v.is_view = True
        return v

    # ---- plain helper
    def _inlinable(self, g, chain):
        if g is None or g.id in chain or self.keep(g) or g.n > self.max_blocks:
            return False
        if g.is_closure:
            return False
        return True

    def _copy_in(self, j, g, chain, origin_of_block):
        """append a renumbered copy of g's locals and blocks; returns (local offset, block offset, [copied return block ids])"""
        offL = len(j['locals'])
        offB = len(j['blocks'])
        j['locals'].extend(copy.deepcopy(g.j['locals']))
        lmap = lambda l: l + offL
        bmap = lambda b: b + offB
        rets = []
        for i, blk in enumerate(g.j['blocks']):
            nb = _remap(blk, lmap, bmap)
            j['blocks'].append(nb)
            origin_of_block[offB + i] = set(chain) | {g.id}
            if nb['term']['k'] == 'return' and not nb['cleanup']:
                rets.append(offB + i)
        j['inlined'].append(g.name)
        return offL, offB, rets

    def _inline_helper(self, j, b, c, chain, origin_of_block):
        g = self.prog.by_id.get(c.ruid) if c.ruid else None
        if not self._inlinable(g, chain):
            return False
        blk = j['blocks'][b]
        t = blk['term']
        span = blk['span']
        offL, offB, rets = self._copy_in(j, g, chain, origin_of_block)
        for k, a in enumerate(t['args']):
            if k + 1 <= g.arg_count:
                blk['stmts'].append(_assign(_pl(offL + 1 + k, ty=g.locals[1 + k]['ty']), _use(a), span))
        # return block: dest = move ret ; goto target
        retb = len(j['blocks'])
        j['blocks'].append({'cleanup': False, 'stmts': [_assign(t['dest'], _use(_mv(_pl(offL, ty=g.locals[0]['ty']))), span)],
                            'term': ({'k': 'goto', 'target': t['target']} if t['target'] is not None else {'k': 'unreachable'}), 'span': span})
        origin_of_block[retb] = origin_of_block.get(b, set())
        for r in rets:
            j['blocks'][r]['term'] = {'k': 'goto', 'target': retb}
        blk['term'] = {'k': 'goto', 'target': offB}
        return True

    # ---- closure handed to a combinator
    def _inline_combinator(self, j, tmp, b, c, chain, origin_of_block):
        spec = COMBINATORS.get(c.callee or '')
        if spec is None:
            return False
        kind, payload_variant, clo_arg, on_call, on_skip = spec
        blk = j['blocks'][b]
        t = blk['term']
        if clo_arg >= len(t['args']):
            return False
        co = single_origin(trace_operand(tmp, t['args'][clo_arg], through_calls=set()))
        if co is None or co.kind != 'agg' or co.data[2]['agg'] != 'closure':
            return False
        g = self.prog.by_id.get(co.data[2]['closure'])
        if g is None or g.id in chain or g.n > self.max_blocks:
            return False
        recv = op_place(t['args'][0])
        if recv is None:
            return False
        span = blk['span']
        adt = OPTION if kind == 'opt' else RESULT
        variants = ('None', 'Some') if kind == 'opt' else ('Ok', 'Err')
        offL, offB, rets = self._copy_in(j, g, chain, origin_of_block)
        # discriminant temp
        dl = len(j['locals'])
        j['locals'].append({'ty': 'isize', 'mut': True})
        blk['stmts'].append(_assign(_pl(dl, ty='isize'), {'k': 'discr', 'pl': recv}, span))
        call_variant = payload_variant if payload_variant is not None else variants[0] if on_skip.endswith(variants[1]) else variants[1]
        if payload_variant is None:
            # closure runs on the variant that carries no usable payload for the result
            call_variant = 'None' if kind == 'opt' else 'Err'
        other = [v for v in variants if v != call_variant][0]
        pre = len(j['blocks'])
        skip = pre + 1
        retb = pre + 2
        # PRE: bind closure environment and parameter
        clo_pl = op_place(t['args'][clo_arg])
        env_ty = g.locals[1]['ty'] if g.arg_count >= 1 else ''
        pre_stmts = []
        if g.arg_count >= 1 and clo_pl is not None:
            if env_ty.startswith('&'):
                pre_stmts.append(_assign(_pl(offL + 1, ty=env_ty), {'k': 'ref', 'mut': env_ty.startswith('&mut'), 'pl': clo_pl}, span))
            else:
                pre_stmts.append(_assign(_pl(offL + 1, ty=env_ty), _use(_mv(clo_pl)), span))
        if payload_variant is not None and g.arg_count >= 2:
            src = dict(recv)
            src = {'l': recv['l'], 'p': list(recv['p']) + [{'dc': payload_variant, 'vi': VIDX[payload_variant]}, {'f': 0, 'ty': g.locals[2]['ty']}], 'ty': g.locals[2]['ty']}
            pre_stmts.append(_assign(_pl(offL + 2, ty=g.locals[2]['ty']), _use(_mv(src)), span))
        j['blocks'].append({'cleanup': False, 'stmts': pre_stmts, 'term': {'k': 'goto', 'target': offB}, 'span': span})
        # SKIP: result without running the closure
        dest = t['dest']
        if on_skip.startswith('pass:'):
            v = on_skip[5:]
            ops = [] if v == 'None' else [_mv({'l': recv['l'], 'p': list(recv['p']) + [{'dc': v, 'vi': VIDX[v]}, {'f': 0, 'ty': ''}], 'ty': ''})]
            rv = _agg(adt, v, ops)
        elif on_skip.startswith('arg:'):
            rv = _use(t['args'][int(on_skip[4:])])
        elif on_skip.startswith('const:'):
            rv = _use({'k': 'const', 'ty': 'bool', 's': 'const ' + on_skip[6:], 'int': 1 if on_skip.endswith('true') else 0})
        elif on_skip.startswith('payload:'):
            v = on_skip[8:]
            rv = _use(_mv({'l': recv['l'], 'p': list(recv['p']) + [{'dc': v, 'vi': VIDX[v]}, {'f': 0, 'ty': ''}], 'ty': ''}))
        elif on_skip.startswith('okpayload:'):
            v = on_skip[10:]
            rv = _agg(RESULT, 'Ok', [_mv({'l': recv['l'], 'p': list(recv['p']) + [{'dc': v, 'vi': VIDX[v]}, {'f': 0, 'ty': ''}], 'ty': ''})])
        else:
            return False
        tgt = {'k': 'goto', 'target': t['target']} if t['target'] is not None else {'k': 'unreachable'}
        j['blocks'].append({'cleanup': False, 'stmts': [_assign(dest, rv, span)], 'term': tgt, 'span': span})
        # RET: wrap the closure's result
        retv = _mv(_pl(offL, ty=g.locals[0]['ty']))
        if on_call == 'use':
            rrv = _use(retv)
        else:
            wv = on_call[5:]
            rrv = _agg(OPTION if wv in ('Some', 'None') else RESULT, wv, [retv])
        j['blocks'].append({'cleanup': False, 'stmts': [_assign(dest, rrv, span)], 'term': tgt, 'span': span})
        for x in (pre, skip, retb):
            origin_of_block[x] = origin_of_block.get(b, set())
        for r in rets:
            j['blocks'][r]['term'] = {'k': 'goto', 'target': retb}
        cv = VIDX[call_variant]
        blk['term'] = {'k': 'switch', 'discr': _mv(_pl(dl, ty='isize')), 'dty': 'isize',
                       'targets': [[cv, pre]], 'otherwise': skip}
        return True
