"""Virtual inlining (analysis-level, never touches /repo): build a *view* of a body in which calls to
private helper bodies, and closures handed to the standard Option / Result combinators, are replaced
by a copy of their MIR.  A view is an ordinary facts.Body (same name, id suffixed '#inl'), so every
intraprocedural rule can run on it unchanged.  Used as a second, equally faithful representation of
the same program when a rule cannot read the original shape (helper extracted, logic moved into a
`.map(|x| ..)` closure, one helper shared by several callers)."""
import copy
from facts import Body, Call, op_place
from analysis import trace_operand, single_origin

OPTION = 'std::option::Option'
RESULT = 'std::result::Result'

# combinator -> (receiver kind, variant whose payload is handed to the closure (None = closure takes
# nothing), which argument is the closure, how the result is built)
COMBINATORS = {
    'std::option::Option::<T>::map':           ('opt', 'Some', 1, 'wrap:Some', 'pass:None'),
    'std::option::Option::<T>::and_then':      ('opt', 'Some', 1, 'use', 'pass:None'),
    'std::option::Option::<T>::map_or':        ('opt', 'Some', 2, 'use', 'arg:1'),
    'std::option::Option::<T>::is_some_and':   ('opt', 'Some', 1, 'use', 'const:false'),
    'std::option::Option::<T>::is_none_or':    ('opt', 'Some', 1, 'use', 'const:true'),
    'std::option::Option::<T>::unwrap_or_else':('opt', None, 1, 'use', 'payload:Some'),
    'std::option::Option::<T>::ok_or_else':    ('opt', None, 1, 'wrap:Err', 'okpayload:Some'),
    'std::result::Result::<T, E>::map':        ('res', 'Ok', 1, 'wrap:Ok', 'pass:Err'),
    'std::result::Result::<T, E>::map_err':    ('res', 'Err', 1, 'wrap:Err', 'pass:Ok'),
    'std::result::Result::<T, E>::and_then':   ('res', 'Ok', 1, 'use', 'pass:Err'),
    'std::result::Result::<T, E>::map_or':     ('res', 'Ok', 2, 'use', 'arg:1'),
    'std::result::Result::<T, E>::unwrap_or_else': ('res', 'Err', 1, 'use', 'payload:Ok'),
    'std::result::Result::<T, E>::or_else':    ('res', 'Err', 1, 'use', 'pass:Ok'),
    'std::result::Result::<T, E>::is_ok_and':  ('res', 'Ok', 1, 'use', 'const:false'),
}
VIDX = {'None': 0, 'Some': 1, 'Ok': 0, 'Err': 1}
# closure-less combinators that only re-label the variant: receiver kind, {variant (or bool value): result}
# result: ('agg', adt kind, variant, payload source) with payload source 'payload' (the receiver's) / 'arg1' / None
VARIANT_MAPS = {
    'std::result::Result::<T, E>::ok':     ('res', {'Ok': ('agg', 'opt', 'Some', 'payload'), 'Err': ('agg', 'opt', 'None', None)}),
    'std::result::Result::<T, E>::err':    ('res', {'Ok': ('agg', 'opt', 'None', None), 'Err': ('agg', 'opt', 'Some', 'payload')}),
    'std::option::Option::<T>::ok_or':     ('opt', {'Some': ('agg', 'res', 'Ok', 'payload'), 'None': ('agg', 'res', 'Err', 'arg1')}),
    'core::bool::<impl bool>::then_some':  ('bool', {1: ('agg', 'opt', 'Some', 'arg1'), 0: ('agg', 'opt', 'None', None)}),
    'std::bool::<impl bool>::then_some':   ('bool', {1: ('agg', 'opt', 'Some', 'arg1'), 0: ('agg', 'opt', 'None', None)}),
}


def _remap(obj, lmap, bmap):
    """deep-copy a MIR json fragment, renumbering locals and blocks"""
    if isinstance(obj, list):
        return [_remap(x, lmap, bmap) for x in obj]
    if not isinstance(obj, dict):
        return obj
    out = {}
    for k, v in obj.items():
        if k == 'l' and isinstance(v, int):
            out[k] = lmap(v)
        elif k == 'idx' and isinstance(v, int):
            out[k] = lmap(v)
        elif k in ('target', 'otherwise') and isinstance(v, int):
            out[k] = bmap(v)
        elif k == 'unwind':
            out[k] = bmap(v) if isinstance(v, int) else v
        elif k == 'targets' and isinstance(v, list):
            out[k] = [[a, bmap(b)] for a, b in v]
        else:
            out[k] = _remap(v, lmap, bmap)
    return out


def _pl(l, proj=(), ty=''):
    return {'l': l, 'p': list(proj), 'ty': ty}


def _assign(pl, rv, span):
    return {'k': 'assign', 'pl': pl, 'rv': rv, 'span': span}


def _use(op):
    return {'k': 'use', 'op': op}


def _mv(pl):
    return {'k': 'move', 'pl': pl}


def _agg(adt, variant, ops):
    return {'k': 'agg', 'agg': 'adt', 'adt': adt, 'variant': variant, 'vi': VIDX[variant], 'is_enum': True, 'ops': ops}


class Inliner:
    def __init__(self, prog, keep, max_depth=3, max_blocks=260, minimal=False):
        self.prog = prog
        self.keep = keep
        self.minimal = minimal        # only open helpers and the closures handed to them; leave every other shape as written
        self.max_depth = max_depth
        self.max_blocks = max_blocks

    def view(self, body, upvar_consts=None):
        """upvar_consts: {captured-variable index: constant operand} — read a closure for one particular value of
        what it captured (a handler factory called with a fn item)"""
        j = copy.deepcopy(body.j)
        j['id'] = body.id + '#inl'
        j['inlined'] = []
        self.upvar_consts = upvar_consts or {}
        if self.upvar_consts:
            j['inlined'].append('specialised:' + ','.join('%d=%s' % (k, (v.get('fn') or {}).get('def', v.get('s'))) for k, v in sorted(self.upvar_consts.items())))
        progress = True
        depth = 0
        stack = {body.id}
        # iterate: each round inlines the currently visible inlinable calls once
        origin_of_block = {}     # new block -> set of body ids it was copied from (recursion cut)
        while progress and depth < self.max_depth:
            progress = False
            depth += 1
            n = len(j['blocks'])
            for b in range(n):
                blk = j['blocks'][b]
                if blk['cleanup'] or blk['term']['k'] != 'call':
                    continue
                tmp = Body(j, body.facts)
                c = Call(tmp, b, blk['term'])
                chain = origin_of_block.get(b, set()) | stack
                if self.minimal:
                    done = (self._inline_helper(j, b, c, chain, origin_of_block) or self._resolve_fn_trait(j, tmp, b, c, chain, origin_of_block))
                else:
                    done = (self._inline_helper(j, b, c, chain, origin_of_block) or self._inline_combinator(j, tmp, b, c, chain, origin_of_block)
                            or self._resolve_indirect(j, tmp, b, c, chain, origin_of_block)
                            or self._resolve_fn_trait(j, tmp, b, c, chain, origin_of_block)
                            or self._desugar_pipeline(j, tmp, b, c, chain, origin_of_block))
                if done:
                    progress = True
        if any(isinstance(v, dict) and v.get('enum') for v in self.upvar_consts.values()):
            # a captured field-less enum of known value: every discriminant read of it is that variant's index
            tmp = Body(j, body.facts)
            for blk in j['blocks']:
                for st in blk['stmts']:
                    if st['k'] == 'assign' and st['rv']['k'] == 'discr':
                        o = single_origin(trace_operand(tmp, {'k': 'copy', 'pl': st['rv']['pl']}, through_calls=set()))
                        if o is not None and o.kind == 'param' and o.data == 1 and len(o.proj) == 1 and o.proj[0][0] == 'f':
                            uc = self.upvar_consts.get(o.proj[0][1])
                            if isinstance(uc, dict) and uc.get('enum') and uc['enum'].get('vi') is not None:
                                st['rv'] = _use({'k': 'const', 'ty': 'isize', 's': 'const %d_isize' % uc['enum']['vi'], 'int': uc['enum']['vi']})
        if self.minimal:
            v = Body(j, body.facts)
            v.orig_id = body.id
            v.is_view = True
            return v
        if j['inlined']:
            if fold_const_str_eq(j, body.facts):
                j['inlined'].append('fold:str-eq')
            if fold_const_enum_eq(j, body.facts):
                j['inlined'].append('fold:enum-eq')
            fold_const_switches(j, body.facts)
            thread_known_variants(j)
        if thread_reaching_consts(j):
            j['inlined'].append('flow:reaching-constants')
        v = Body(j, body.facts)
        v.orig_id = body.id
        v.is_view = True
        return v

    # ---- plain helper
    def _inlinable(self, g, chain):
        if g is None or g.id in chain or g.n > self.max_blocks or g.is_closure:
            return False
        if self.keep(g) and not self._trivial_ctor(g):
            return False
        return True

    @staticmethod
    def _trivial_ctor(g):
        """`fn new(a, b) -> Self { Self(a, b) }`: pure data, always read through"""
        if g.n > 2 or g.live_calls:
            return False
        aggs = [rv for bb, i, pl, rv in g.assigns() if rv['k'] == 'agg' and not pl['p'] and pl['l'] == 0]
        others = [rv for bb, i, pl, rv in g.assigns() if rv['k'] not in ('agg', 'use')]
        if g.arg_count == 0:
            # `fn ternary() -> Self { Self::TERNARY }`: a unit variant under a constructor name
            return len(aggs) == 1 and not others and aggs[0].get('agg') == 'adt' and not aggs[0]['ops'] and len(list(g.assigns())) == 1
        return len(aggs) == 1 and not others and aggs[0].get('agg') == 'adt'

    def _copy_in(self, j, g, chain, origin_of_block, ret_to=None):
        """append a renumbered copy of g's locals and blocks; returns (local offset, block offset, [copied return block ids]).
        ret_to: a local of the caller that stands for g's return place (the call wrote its result to that whole local)"""
        offL = len(j['locals'])
        offB = len(j['blocks'])
        j['locals'].extend(copy.deepcopy(g.j['locals']))
        lmap = (lambda l: l + offL) if ret_to is None else (lambda l: ret_to if l == 0 else l + offL)
        bmap = lambda b: b + offB
        rets = []
        bo = j.setdefault('block_origin', {})
        gbo = g.j.get('block_origin') or {}
        for i, blk in enumerate(g.j['blocks']):
            nb = _remap(blk, lmap, bmap)
            j['blocks'].append(nb)
            origin_of_block[offB + i] = set(chain) | {g.id}
            bo[offB + i] = tuple(gbo.get(i, (getattr(g, 'orig_id', g.id), i)))
            if nb['term']['k'] == 'return' and not nb['cleanup']:
                rets.append(offB + i)
        j['inlined'].append(g.name)
        j.setdefault('inlined_ids', []).append(g.id)
        return offL, offB, rets

    def _inline_helper(self, j, b, c, chain, origin_of_block):
        g = self.prog.by_id.get(c.ruid) if c.ruid else None
        if g is None:
            # `x.into()` / `x.try_into()`: std's blanket impl forwards to the local From / TryFrom impl
            g = self.prog.conv_target_of(c)
            if g is not None and (g.id in chain or g.n > self.max_blocks):
                g = None
            if g is None:
                return False
        elif not self._inlinable(g, chain):
            return False
        blk = j['blocks'][b]
        t = blk['term']
        span = blk['span']
        direct = t['dest']['l'] if not t['dest']['p'] else None
        offL, offB, rets = self._copy_in(j, g, chain, origin_of_block, ret_to=direct)
        for k, a in enumerate(t['args']):
            if k + 1 <= g.arg_count:
                blk['stmts'].append(_assign(_pl(offL + 1 + k, ty=g.locals[1 + k]['ty']), _use(a), span))
        # return block: dest = move ret ; goto target   (no copy when the helper wrote the caller's local directly)
        retb = len(j['blocks'])
        j['blocks'].append({'cleanup': False, 'stmts': ([] if direct is not None else [_assign(t['dest'], _use(_mv(_pl(offL, ty=g.locals[0]['ty']))), span)]),
                            'term': ({'k': 'goto', 'target': t['target']} if t['target'] is not None else {'k': 'unreachable'}), 'span': span})
        origin_of_block[retb] = origin_of_block.get(b, set())
        for r in rets:
            j['blocks'][r]['term'] = {'k': 'goto', 'target': retb}
        blk['term'] = {'k': 'goto', 'target': offB}
        return True

    # ---- closure handed to a combinator
    def _inline_variant_map(self, j, b, c, origin_of_block):
        """`r.ok()`, `o.ok_or(e)`, `flag.then_some(v)`: a case split that builds the re-labelled value"""
        spec = VARIANT_MAPS.get(c.callee or '')
        if spec is None:
            return False
        kind, table = spec
        blk = j['blocks'][b]
        t = blk['term']
        span = blk['span']
        recv = op_place(t['args'][0]) if t['args'] else None
        if recv is None or _pl is None:
            return False
        tgt = {'k': 'goto', 'target': t['target']} if t['target'] is not None else {'k': 'unreachable'}
        arms = {}
        for key, (_, okind, ovar, src) in table.items():
            if src == 'payload':
                ops = [_mv({'l': recv['l'], 'p': list(recv['p']) + [{'dc': key, 'vi': VIDX[key]}, {'f': 0, 'ty': ''}], 'ty': ''})]
            elif src == 'arg1':
                if len(t['args']) < 2:
                    return False
                ops = [t['args'][1]]
            else:
                ops = []
            nb = len(j['blocks'])
            j['blocks'].append({'cleanup': False, 'stmts': [_assign(t['dest'], _agg(OPTION if okind == 'opt' else RESULT, ovar, ops), span)], 'term': dict(tgt), 'span': span})
            origin_of_block[nb] = origin_of_block.get(b, set())
            arms[key] = nb
        if kind == 'bool':
            blk['term'] = {'k': 'switch', 'discr': t['args'][0], 'dty': 'bool', 'targets': [[0, arms[0]]], 'otherwise': arms[1]}
        else:
            dl = len(j['locals'])
            j['locals'].append({'ty': 'isize', 'mut': True})
            blk['stmts'].append(_assign(_pl(dl, ty='isize'), {'k': 'discr', 'pl': recv}, span))
            first, second = ('None', 'Some') if kind == 'opt' else ('Ok', 'Err')
            blk['term'] = {'k': 'switch', 'discr': _mv(_pl(dl, ty='isize')), 'dty': 'isize', 'targets': [[VIDX[first], arms[first]]], 'otherwise': arms[second]}
        j['inlined'].append('relabel:' + (c.callee or '').split('::')[-1])
        return True

    def _inline_combinator(self, j, tmp, b, c, chain, origin_of_block):
        if (c.callee or '') in VARIANT_MAPS:
            return self._inline_variant_map(j, b, c, origin_of_block)
        spec = COMBINATORS.get(c.callee or '')
        if spec is None:
            return False
        kind, payload_variant, clo_arg, on_call, on_skip = spec
        blk = j['blocks'][b]
        t = blk['term']
        if clo_arg >= len(t['args']):
            return False
        co = single_origin(trace_operand(tmp, t['args'][clo_arg], through_calls=set()))
        g = None
        if co is not None and co.kind == 'agg' and co.data[2]['agg'] == 'closure':
            g = self.prog.by_id.get(co.data[2]['closure'])
            if g is None or g.id in chain or g.n > self.max_blocks:
                return False
        recv = op_place(t['args'][0])
        if recv is None:
            return False
        span = blk['span']
        adt = OPTION if kind == 'opt' else RESULT
        variants = ('None', 'Some') if kind == 'opt' else ('Ok', 'Err')
        if g is None:
            return self._apply_opaque(j, b, t, spec, recv, adt, variants, origin_of_block)
        offL, offB, rets = self._copy_in(j, g, chain, origin_of_block)
        # discriminant temp
        dl = len(j['locals'])
        j['locals'].append({'ty': 'isize', 'mut': True})
        blk['stmts'].append(_assign(_pl(dl, ty='isize'), {'k': 'discr', 'pl': recv}, span))
        call_variant = payload_variant if payload_variant is not None else variants[0] if on_skip.endswith(variants[1]) else variants[1]
        if payload_variant is None:
            # closure runs on the variant that carries no usable payload for the result
            call_variant = 'None' if kind == 'opt' else 'Err'
        other = [v for v in variants if v != call_variant][0]
        pre = len(j['blocks'])
        skip = pre + 1
        retb = pre + 2
        # PRE: bind closure environment and parameter
        clo_pl = op_place(t['args'][clo_arg])
        env_ty = g.locals[1]['ty'] if g.arg_count >= 1 else ''
        pre_stmts = []
        if g.arg_count >= 1 and clo_pl is not None:
            if env_ty.startswith('&'):
                pre_stmts.append(_assign(_pl(offL + 1, ty=env_ty), {'k': 'ref', 'mut': env_ty.startswith('&mut'), 'pl': clo_pl}, span))
            else:
                pre_stmts.append(_assign(_pl(offL + 1, ty=env_ty), _use(_mv(clo_pl)), span))
        if payload_variant is not None and g.arg_count >= 2:
            src = dict(recv)
            src = {'l': recv['l'], 'p': list(recv['p']) + [{'dc': payload_variant, 'vi': VIDX[payload_variant]}, {'f': 0, 'ty': g.locals[2]['ty']}], 'ty': g.locals[2]['ty']}
            pre_stmts.append(_assign(_pl(offL + 2, ty=g.locals[2]['ty']), _use(_mv(src)), span))
        j['blocks'].append({'cleanup': False, 'stmts': pre_stmts, 'term': {'k': 'goto', 'target': offB}, 'span': span})
        # SKIP: result without running the closure
        dest = t['dest']
        if on_skip.startswith('pass:'):
            v = on_skip[5:]
            ops = [] if v == 'None' else [_mv({'l': recv['l'], 'p': list(recv['p']) + [{'dc': v, 'vi': VIDX[v]}, {'f': 0, 'ty': ''}], 'ty': ''})]
            rv = _agg(adt, v, ops)
        elif on_skip.startswith('arg:'):
            rv = _use(t['args'][int(on_skip[4:])])
        elif on_skip.startswith('const:'):
            rv = _use({'k': 'const', 'ty': 'bool', 's': 'const ' + on_skip[6:], 'int': 1 if on_skip.endswith('true') else 0})
        elif on_skip.startswith('payload:'):
            v = on_skip[8:]
            rv = _use(_mv({'l': recv['l'], 'p': list(recv['p']) + [{'dc': v, 'vi': VIDX[v]}, {'f': 0, 'ty': ''}], 'ty': ''}))
        elif on_skip.startswith('okpayload:'):
            v = on_skip[10:]
            rv = _agg(RESULT, 'Ok', [_mv({'l': recv['l'], 'p': list(recv['p']) + [{'dc': v, 'vi': VIDX[v]}, {'f': 0, 'ty': ''}], 'ty': ''})])
        else:
            return False
        tgt = {'k': 'goto', 'target': t['target']} if t['target'] is not None else {'k': 'unreachable'}
        j['blocks'].append({'cleanup': False, 'stmts': [_assign(dest, rv, span)], 'term': dict(tgt), 'span': span})
        # RET: wrap the closure's result
        retv = _mv(_pl(offL, ty=g.locals[0]['ty']))
        if on_call == 'use':
            rrv = _use(retv)
        else:
            wv = on_call[5:]
            rrv = _agg(OPTION if wv in ('Some', 'None') else RESULT, wv, [retv])
        j['blocks'].append({'cleanup': False, 'stmts': [_assign(dest, rrv, span)], 'term': dict(tgt), 'span': span})
        for x in (pre, skip, retb):
            origin_of_block[x] = origin_of_block.get(b, set())
        for r in rets:
            j['blocks'][r]['term'] = {'k': 'goto', 'target': retb}
        cv = VIDX[call_variant]
        blk['term'] = {'k': 'switch', 'discr': _mv(_pl(dl, ty='isize')), 'dty': 'isize',
                       'targets': [[cv, pre]], 'otherwise': skip}
        return True


    def _fn_value(self, tmp, op, depth=0):
        """('const', operand) / ('closure', body, place) for a fn-pointer operand whose value is known here"""
        if op['k'] == 'const' and op.get('closure'):
            g = self.prog.by_id.get(op['closure'])
            return ('closure', g, None) if g is not None else None
        if op['k'] == 'const':
            return ('const', op) if op.get('fn') else None
        o = single_origin(trace_operand(tmp, op, through_calls=set()))
        if o is None:
            return None
        if o.proj and o.kind != 'param':
            return None
        if o.kind == 'const' and isinstance(o.data, dict) and o.data.get('fn'):
            return ('const', o.data)
        if o.kind == 'param' and o.data == 1 and tmp.is_closure and len(o.proj) == 1 and o.proj[0][0] == 'f' and o.proj[0][1] in self.upvar_consts:
            uc = self.upvar_consts[o.proj[0][1]]
            if uc.get('closure'):
                g = self.prog.by_id.get(uc['closure'])
                return ('closure', g, None) if g is not None else None
            return ('const', uc)
        if o.kind == 'agg' and o.data[2].get('agg') == 'closure' and not o.data[2]['ops']:
            g = self.prog.by_id.get(o.data[2]['closure'])
            stmt = tmp.blocks[o.data[0]]['stmts'][o.data[1]]
            return ('closure', g, stmt['pl']) if g is not None else None
        return None

    def _resolve_indirect(self, j, tmp, b, c, chain, origin_of_block):
        """a call through a fn pointer whose value is a known fn item or non-capturing closure of this body"""
        if c.fn is not None:
            return False
        blk = j['blocks'][b]
        t = blk['term']
        fv = self._fn_value(tmp, t['func'])
        if fv is None:
            return False
        if fv[0] == 'const':
            t['func'] = fv[1]
            j['inlined'].append('fnptr:' + fv[1]['fn']['def'])
            return True
        g, clo_pl = fv[1], fv[2]
        if g.id in chain or g.n > self.max_blocks:
            return False
        span = blk['span']
        direct = t['dest']['l'] if not t['dest']['p'] else None
        offL, offB, rets = self._copy_in(j, g, chain, origin_of_block, ret_to=direct)
        env_ty = g.locals[1]['ty'] if g.arg_count >= 1 else ''
        if g.arg_count >= 1 and clo_pl is not None:
            if env_ty.startswith('&'):
                blk['stmts'].append(_assign(_pl(offL + 1, ty=env_ty), {'k': 'ref', 'mut': False, 'pl': clo_pl}, span))
            else:
                blk['stmts'].append(_assign(_pl(offL + 1, ty=env_ty), _use({'k': 'copy', 'pl': clo_pl}), span))
        for k, a in enumerate(t['args']):
            if k + 2 <= g.arg_count:
                blk['stmts'].append(_assign(_pl(offL + 2 + k, ty=g.locals[2 + k]['ty']), _use(a), span))
        retb = len(j['blocks'])
        j['blocks'].append({'cleanup': False, 'stmts': ([] if direct is not None else [_assign(t['dest'], _use(_mv(_pl(offL, ty=g.locals[0]['ty']))), span)]),
                            'term': ({'k': 'goto', 'target': t['target']} if t['target'] is not None else {'k': 'unreachable'}), 'span': span})
        origin_of_block[retb] = origin_of_block.get(b, set())
        for r in rets:
            j['blocks'][r]['term'] = {'k': 'goto', 'target': retb}
        blk['term'] = {'k': 'goto', 'target': offB}
        return True

    def _resolve_fn_trait(self, j, tmp, b, c, chain, origin_of_block):
        """`f(args)` on a generic `impl Fn*` value that is a closure built in this body (after its generic
        receiver was inlined here): Fn::call / FnMut::call_mut / FnOnce::call_once (recv, (args..))"""
        if c.callee not in ('std::ops::Fn::call', 'std::ops::FnMut::call_mut', 'std::ops::FnOnce::call_once') or len(c.args) != 2:
            return False
        blk = j['blocks'][b]
        t = blk['term']
        o = single_origin(trace_operand(tmp, t['args'][0], through_calls=set())) if t['args'][0]['k'] != 'const' else None
        fconst = t['args'][0] if t['args'][0]['k'] == 'const' and t['args'][0].get('fn') else (o.data if o is not None and not o.proj and o.kind == 'const' and isinstance(o.data, dict) and o.data.get('fn') else None)
        if fconst is not None and '{constructor#' in (fconst['fn'].get('uid') or ''):
            # the callable is a tuple-variant / tuple-struct constructor (`self.token(Token::Operator, span)`): the call
            # builds that aggregate from the tuple's components
            to = single_origin(trace_operand(tmp, t['args'][1], through_calls=set()))
            if to is None or to.proj or to.kind != 'agg' or to.data[2].get('agg') != 'tuple' or t.get('target') is None:
                return False
            path = fconst['fn']['def'].rsplit('::', 1)
            a = self.prog.f.adt_by_name.get(path[0])
            names = [v['name'] for v in a['variants']] if a else []
            if not a or path[1] not in names:
                return False
            blk['stmts'].append(_assign(t['dest'], {'k': 'agg', 'agg': 'adt', 'adt': path[0], 'variant': path[1], 'vi': names.index(path[1]),
                                                    'is_enum': len(names) > 1, 'ops': list(to.data[2]['ops'])}, blk['span']))
            blk['term'] = {'k': 'goto', 'target': t['target']}
            j['inlined'].append('ctor:' + fconst['fn']['def'])
            return True
        if fconst is not None and '{constructor#' not in (fconst['fn'].get('uid') or ''):
            # the callable is a fn item (`self.eat(Token::is_close_paren)`): a direct call with the tuple's components
            to = single_origin(trace_operand(tmp, t['args'][1], through_calls=set()))
            if to is None or to.proj or to.kind != 'agg' or to.data[2].get('agg') != 'tuple':
                return False
            t['func'] = fconst
            t['fty'] = fconst.get('ty', '')
            t['args'] = list(to.data[2]['ops'])
            t['arg_tys'] = ['' for _ in t['args']]
            j['inlined'].append('fn-item:' + fconst['fn']['def'])
            return True
        if o is None or o.proj or o.kind != 'agg' or o.data[2].get('agg') != 'closure':
            return False
        g = self.prog.by_id.get(o.data[2]['closure'])
        if g is None or g.id in chain or g.n > self.max_blocks:
            return False
        clo_pl = tmp.blocks[o.data[0]]['stmts'][o.data[1]]['pl']
        tup = op_place(t['args'][1])
        if tup is None:
            return False
        span = blk['span']
        direct = t['dest']['l'] if not t['dest']['p'] else None
        offL, offB, rets = self._copy_in(j, g, chain, origin_of_block, ret_to=direct)
        env_ty = g.locals[1]['ty'] if g.arg_count >= 1 else ''
        if g.arg_count >= 1 and clo_pl is not None:
            if env_ty.startswith('&'):
                blk['stmts'].append(_assign(_pl(offL + 1, ty=env_ty), {'k': 'ref', 'mut': env_ty.startswith('&mut'), 'pl': clo_pl}, span))
            else:
                blk['stmts'].append(_assign(_pl(offL + 1, ty=env_ty), _use(_mv(clo_pl)), span))
        for k in range(2, g.arg_count + 1):
            src = {'l': tup['l'], 'p': list(tup['p']) + [{'f': k - 2, 'ty': g.locals[k]['ty']}], 'ty': g.locals[k]['ty']}
            blk['stmts'].append(_assign(_pl(offL + k, ty=g.locals[k]['ty']), _use(_mv(src)), span))
        retb = len(j['blocks'])
        j['blocks'].append({'cleanup': False, 'stmts': ([] if direct is not None else [_assign(t['dest'], _use(_mv(_pl(offL, ty=g.locals[0]['ty']))), span)]),
                            'term': ({'k': 'goto', 'target': t['target']} if t['target'] is not None else {'k': 'unreachable'}), 'span': span})
        origin_of_block[retb] = origin_of_block.get(b, set())
        for r in rets:
            j['blocks'][r]['term'] = {'k': 'goto', 'target': retb}
        blk['term'] = {'k': 'goto', 'target': offB}
        return True

    # ---- iterator pipelines -> explicit loops
    def _new_local(self, j, ty=''):
        j['locals'].append({'ty': ty, 'mut': True})
        return len(j['locals']) - 1

    def _new_block(self, j, stmts, term, span, oob, like):
        j['blocks'].append({'cleanup': False, 'stmts': stmts, 'term': term, 'span': span})
        n = len(j['blocks']) - 1
        oob[n] = oob.get(like, set())
        return n

    def _emit_apply(self, j, tmp, fop, args, ret_l, cont, chain, oob, span, like):
        """blocks computing `ret_l = fop(args..)` and continuing at `cont`; returns the entry block.  A closure built
        in this body is inlined, a fn item becomes a direct call, an enum constructor the aggregate it builds."""
        co = single_origin(trace_operand(tmp, fop, through_calls=set())) if fop['k'] != 'const' else None
        if co is not None and not co.proj and co.kind == 'agg' and co.data[2].get('agg') == 'closure':
            g = self.prog.by_id.get(co.data[2]['closure'])
            if g is not None and g.id not in chain and g.n <= self.max_blocks:
                clo_pl = tmp.blocks[co.data[0]]['stmts'][co.data[1]]['pl']
                offL, offB, rets = self._copy_in(j, g, chain, oob, ret_to=ret_l)
                st = []
                env_ty = g.locals[1]['ty'] if g.arg_count >= 1 else ''
                if g.arg_count >= 1:
                    if env_ty.startswith('&'):
                        st.append(_assign(_pl(offL + 1, ty=env_ty), {'k': 'ref', 'mut': env_ty.startswith('&mut'), 'pl': clo_pl}, span))
                    else:
                        st.append(_assign(_pl(offL + 1, ty=env_ty), _use({'k': 'copy', 'pl': clo_pl}), span))
                for k, a in enumerate(args):
                    if k + 2 <= g.arg_count:
                        st.append(_assign(_pl(offL + 2 + k, ty=g.locals[2 + k]['ty']), _use(a), span))
                pre = self._new_block(j, st, {'k': 'goto', 'target': offB}, span, oob, like)
                for r in rets:
                    j['blocks'][r]['term'] = {'k': 'goto', 'target': cont}
                return pre
        fn = fop.get('fn') if fop['k'] == 'const' else None
        if fn is not None and '{constructor#' in (fn.get('uid') or ''):
            path = fn['def'].rsplit('::', 1)
            a = self.prog.f.adt_by_name.get(path[0])
            names = [v['name'] for v in a['variants']] if a else []
            if a and path[1] in names:
                rv = {'k': 'agg', 'agg': 'adt', 'adt': path[0], 'variant': path[1], 'vi': names.index(path[1]), 'is_enum': len(names) > 1, 'ops': list(args)}
                return self._new_block(j, [_assign(_pl(ret_l), rv, span)], {'k': 'goto', 'target': cont}, span, oob, like)
        term = {'k': 'call', 'func': fop, 'fty': fop.get('ty') or (fop.get('pl') or {}).get('ty', ''), 'args': list(args), 'arg_tys': ['' for _ in args],
                'dest': _pl(ret_l), 'target': cont, 'unwind': 'Continue', 'fn_span': span}
        return self._new_block(j, [], term, span, oob, like)

    def _emit_try(self, j, res_l, dest, cont_payload_l, cont, tgt, span, oob, like):
        """the canonical `?` on the Result in local res_l: Continue payload -> cont_payload_l, then `cont`;
        Break -> `dest = from_residual(residual)` and leave to `tgt`.  Returns the entry block."""
        def fnc(defp, uid, trait):
            return {'k': 'const', 'ty': 'fn', 's': defp, 'fn': {'def': defp, 'path': defp, 'crate': 'core', 'uid': uid, 'local': False, 'args': [], 'trait': trait,
                    'resolved': {'kind': 'item', 'def': defp, 'uid': uid, 'local': False, 'crate': 'core', 'args': []}}}
        BR, DD, RS = self._new_local(j, 'std::ops::ControlFlow<?>'), self._new_local(j, 'isize'), self._new_local(j)
        fail_t = dict(tgt)
        fail = self._new_block(j, [_assign(_pl(RS), _use(_mv({'l': BR, 'p': [{'dc': 'Break', 'vi': 1}, {'f': 0, 'ty': ''}], 'ty': ''})), span)],
                               {'k': 'call', 'func': fnc(FROM_RESIDUAL, 'core::ops::try_trait::FromResidual::from_residual', 'std::ops::FromResidual'), 'fty': '', 'args': [_mv(_pl(RS))], 'arg_tys': [''],
                                'dest': dest, 'target': fail_t.get('target'), 'unwind': 'Continue', 'fn_span': span}, span, oob, like)
        if fail_t['k'] != 'goto':
            j['blocks'][fail]['term']['target'] = None
        okb = self._new_block(j, [_assign(_pl(cont_payload_l), _use(_mv({'l': BR, 'p': [{'dc': 'Continue', 'vi': 0}, {'f': 0, 'ty': ''}], 'ty': ''})), span)],
                              {'k': 'goto', 'target': cont}, span, oob, like)
        sw = self._new_block(j, [_assign(_pl(DD), {'k': 'discr', 'pl': _pl(BR)}, span)],
                             {'k': 'switch', 'discr': _mv(_pl(DD)), 'dty': 'isize', 'targets': [[0, okb], [1, fail]], 'otherwise': fail}, span, oob, like)
        return self._new_block(j, [], {'k': 'call', 'func': fnc(TRY_BRANCH, 'core::ops::try_trait::Try::branch', 'std::ops::Try'), 'fty': '', 'args': [_mv(_pl(res_l))],
                                       'arg_tys': ['std::result::Result<?, ?>'], 'dest': _pl(BR), 'target': sw, 'unwind': 'Continue', 'fn_span': span}, span, oob, like)

    NEXT_OF = [('std::vec::IntoIter<', "<std::vec::IntoIter<T, A> as std::iter::Iterator>::next", 'alloc'),
               ('std::slice::Iter<', "<std::slice::Iter<'a, T> as std::iter::Iterator>::next", 'core'),
               ('std::slice::IterMut<', "<std::slice::IterMut<'a, T> as std::iter::Iterator>::next", 'core'),
               ('std::array::IntoIter<', "<std::array::IntoIter<T, N> as std::iter::Iterator>::next", 'core'),
               ('std::str::CharIndices<', "<std::str::CharIndices<'a> as std::iter::Iterator>::next", 'core'),
               ('std::str::Chars<', "<std::str::Chars<'a> as std::iter::Iterator>::next", 'core')]
    ITEM_OF = {'std::str::CharIndices<': '(usize, char)', 'std::str::Chars<': 'char'}
    CONSUMERS = {'std::iter::Iterator::collect': 'collect', 'std::iter::Iterator::try_fold': 'try_fold', 'std::iter::Iterator::try_for_each': 'try_for_each',
                 'std::iter::Iterator::fold': 'fold', 'std::iter::Iterator::for_each': 'for_each', 'std::iter::Iterator::any': 'any',
                 'std::iter::Iterator::all': 'all', 'std::iter::Iterator::find': 'find', 'std::iter::Iterator::last': 'last'}

    def _desugar_pipeline(self, j, tmp, b, c, chain, oob):
        """`src.map(f).collect::<Result<..>>()`, `src.try_fold(init, f)`, `src.any(f)` … over a plain forward
        iterator: the loop the adaptor runs, written out (draw an item, apply the closures, test, continue / leave),
        so that order, laziness and early exits are visible to the path rules.  The std semantics encoded here:
        collect into Result / try_fold / try_for_each stop at the first Err; fold / for_each / last / collect into a
        plain collection visit every item; any / all / find stop at the first deciding item."""
        kind = self.CONSUMERS.get(c.callee or '')
        if kind is None or not c.args:
            return False
        blk = j['blocks'][b]
        t = blk['term']
        span = blk['span']
        o = single_origin(trace_operand(tmp, t['args'][0], through_calls=set()))
        kmap = None
        src_op, src_ty = t['args'][0], (t['arg_tys'][0] if t['arg_tys'] else '')
        if o is not None and o.kind == 'callres' and not o.proj and o.data.callee == 'std::iter::Iterator::map' and len(o.data.args) == 2:
            kmap = o.data.args[1]
            src_op, src_ty = o.data.args[0], (o.data.term['arg_tys'][0] if o.data.term['arg_tys'] else '')
        so0 = single_origin(trace_operand(tmp, src_op, through_calls=set()))
        if so0 is not None and so0.kind == 'callres' and not so0.proj and so0.data.callee == 'std::iter::Iterator::by_ref' and len(so0.data.args) == 1:
            # `self.chars.by_ref().any(..)`: by_ref hands the same iterator on (as `&mut`), the adaptor draws from it in place
            src_op, src_ty = so0.data.args[0], (so0.data.term['arg_tys'][0] if so0.data.term['arg_tys'] else src_ty)
        bare = src_ty[5:] if src_ty.startswith('&mut ') else src_ty
        nx = [(rd, cr) for pfx, rd, cr in self.NEXT_OF if bare.startswith(pfx)]
        item_ty = ([v for k, v in self.ITEM_OF.items() if bare.startswith(k)] or [''])[0]
        if not nx:
            return False
        dest_ty = t['dest'].get('ty', '')
        if kind == 'collect':
            is_res = dest_ty.startswith('std::result::Result<')
            if dest_ty.startswith('std::option::Option<'):
                return False
            if is_res and kmap is None:
                return False
        step = t['args'][-1] if kind in ('try_fold', 'try_for_each', 'fold', 'for_each', 'any', 'all', 'find') else None
        if kind in ('try_fold', 'try_for_each'):
            so = single_origin(trace_operand(tmp, step, through_calls=set()))
            g = self.prog.by_id.get(so.data[2]['closure']) if so is not None and so.kind == 'agg' and so.data[2].get('agg') == 'closure' else None
            if g is None or not g.locals[0]['ty'].startswith('std::result::Result<'):
                return False
        L = lambda ty='': self._new_local(j, ty)
        IT, REF, NX, D, ITEM, X = L(src_ty), L('&mut ' + bare), L('std::option::Option<%s>' % (item_ty or '?')), L('isize'), L(item_ty), L(item_ty if kmap is None else '')
        ACC, V, R, D2, BL = L(), L(dest_ty), L(), L('isize'), L('bool')
        tgt = {'k': 'goto', 'target': t['target']} if t['target'] is not None else {'k': 'unreachable'}
        dest = t['dest']
        nb = lambda st, term: self._new_block(j, st, term, span, oob, b)
        # placeholders: HEAD is needed by the step blocks, which are needed by SW
        head = nb([], {'k': 'unreachable'})
        # exits
        if kind == 'collect':
            done = nb([_assign(dest, _agg(RESULT, 'Ok', [_mv(_pl(V))]) if is_res else _use(_mv(_pl(V))), span)], dict(tgt))
        elif kind == 'try_fold':
            done = nb([_assign(dest, _agg(RESULT, 'Ok', [_mv(_pl(ACC))]), span)], dict(tgt))
        elif kind == 'try_for_each':
            done = nb([_assign(_pl(ACC), {'k': 'agg', 'agg': 'tuple', 'ops': []}, span), _assign(dest, _agg(RESULT, 'Ok', [_mv(_pl(ACC))]), span)], dict(tgt))
        elif kind in ('fold', 'last'):
            done = nb([_assign(dest, _use(_mv(_pl(ACC))), span)], dict(tgt))
        elif kind == 'for_each':
            done = nb([_assign(dest, {'k': 'agg', 'agg': 'tuple', 'ops': []}, span)], dict(tgt))
        elif kind in ('any', 'all'):
            done = nb([_assign(dest, _use({'k': 'const', 'ty': 'bool', 's': 'const %s' % ('false' if kind == 'any' else 'true'), 'int': 0 if kind == 'any' else 1}), span)], dict(tgt))
        else:   # find
            done = nb([_assign(dest, _agg(OPTION, 'None', []), span)], dict(tgt))
        # consumer step, entered with the (mapped) item in X
        if kind == 'collect':
            push_fn = {'k': 'const', 'ty': 'fn', 's': 'std::vec::Vec::<T, A>::push',
                       'fn': {'def': 'std::vec::Vec::<T, A>::push', 'path': 'std::vec::Vec::<T, A>::push', 'crate': 'alloc', 'uid': 'alloc::vec::{impl#1}::push', 'local': False, 'args': [],
                              'resolved': {'kind': 'item', 'def': 'std::vec::Vec::<T, A>::push', 'uid': 'alloc::vec::{impl#1}::push', 'local': False, 'crate': 'alloc', 'args': []}}}
            VR = L('&mut ' + dest_ty)
            if is_res:
                PAY = L()
                push = nb([_assign(_pl(VR), {'k': 'ref', 'mut': True, 'pl': _pl(V)}, span)],
                          {'k': 'call', 'func': push_fn, 'fty': '', 'args': [_mv(_pl(VR)), _mv(_pl(PAY))], 'arg_tys': ['', ''],
                           'dest': _pl(L('()')), 'target': head, 'unwind': 'Continue', 'fn_span': span})
                cstep = self._emit_try(j, X, dest, PAY, push, tgt, span, oob, b)
            else:
                cstep = nb([_assign(_pl(VR), {'k': 'ref', 'mut': True, 'pl': _pl(V)}, span)],
                           {'k': 'call', 'func': push_fn, 'fty': '', 'args': [_mv(_pl(VR)), _mv(_pl(X))], 'arg_tys': ['', ''],
                            'dest': _pl(L('()')), 'target': head, 'unwind': 'Continue', 'fn_span': span})
        elif kind in ('try_fold', 'try_for_each'):
            test = self._emit_try(j, R, dest, ACC, head, tgt, span, oob, b)
            args = [_mv(_pl(ACC)), _mv(_pl(X))] if kind == 'try_fold' else [_mv(_pl(X))]
            cstep = self._emit_apply(j, tmp, step, args, R, test, chain, oob, span, b)
        elif kind == 'fold':
            back = nb([_assign(_pl(ACC), _use(_mv(_pl(R))), span)], {'k': 'goto', 'target': head})
            cstep = self._emit_apply(j, tmp, step, [_mv(_pl(ACC)), _mv(_pl(X))], R, back, chain, oob, span, b)
        elif kind == 'for_each':
            cstep = self._emit_apply(j, tmp, step, [_mv(_pl(X))], R, head, chain, oob, span, b)
        elif kind in ('any', 'all'):
            hit = nb([_assign(dest, _use({'k': 'const', 'ty': 'bool', 's': 'const %s' % ('true' if kind == 'any' else 'false'), 'int': 1 if kind == 'any' else 0}), span)], dict(tgt))
            test = nb([], {'k': 'switch', 'discr': _mv(_pl(BL)), 'dty': 'bool',
                           'targets': [[0, head if kind == 'any' else hit]], 'otherwise': hit if kind == 'any' else head})
            cstep = self._emit_apply(j, tmp, step, [_mv(_pl(X))], BL, test, chain, oob, span, b)
        elif kind == 'find':
            XR = L()
            found = nb([_assign(dest, _agg(OPTION, 'Some', [_mv(_pl(X))]), span)], dict(tgt))
            test = nb([], {'k': 'switch', 'discr': _mv(_pl(BL)), 'dty': 'bool', 'targets': [[0, head]], 'otherwise': found})
            app = self._emit_apply(j, tmp, step, [_mv(_pl(XR))], BL, test, chain, oob, span, b)
            cstep = nb([_assign(_pl(XR), {'k': 'ref', 'mut': False, 'pl': _pl(X)}, span)], {'k': 'goto', 'target': app})
        else:   # last
            cstep = nb([_assign(_pl(ACC), _agg(OPTION, 'Some', [_mv(_pl(X))]), span)], {'k': 'goto', 'target': head})
        # map stage: X = kmap(ITEM)
        if kmap is not None:
            body_entry = self._emit_apply(j, tmp, kmap, [_mv(_pl(ITEM))], X, cstep, chain, oob, span, b)
        else:
            body_entry = nb([_assign(_pl(X), _use(_mv(_pl(ITEM))), span)], {'k': 'goto', 'target': cstep})
        take = nb([_assign(_pl(ITEM), _use(_mv({'l': NX, 'p': [{'dc': 'Some', 'vi': 1}, {'f': 0, 'ty': ''}], 'ty': ''})), span)], {'k': 'goto', 'target': body_entry})
        sw = nb([_assign(_pl(D), {'k': 'discr', 'pl': _pl(NX)}, span)],
                {'k': 'switch', 'discr': _mv(_pl(D)), 'dty': 'isize', 'targets': [[0, done], [1, take]], 'otherwise': done})
        rdef, crate = nx[0]
        next_fn = {'k': 'const', 'ty': 'fn', 's': rdef,
                   'fn': {'def': 'std::iter::Iterator::next', 'path': rdef, 'crate': 'core', 'uid': 'core::iter::traits::iterator::Iterator::next', 'local': False, 'args': [], 'trait': 'std::iter::Iterator',
                          'resolved': {'kind': 'item', 'def': rdef, 'uid': 'synthetic::next', 'local': False, 'crate': crate, 'args': []}}}
        by_ref = src_ty.startswith('&mut ')
        j['blocks'][head]['stmts'] = [_assign(_pl(REF), _use({'k': 'copy', 'pl': _pl(IT)}) if by_ref else {'k': 'ref', 'mut': True, 'pl': _pl(IT)}, span)]
        j['blocks'][head]['term'] = {'k': 'call', 'func': next_fn, 'fty': '', 'args': [_mv(_pl(REF))], 'arg_tys': ['&mut ' + bare],
                                     'dest': _pl(NX), 'target': sw, 'unwind': 'Continue', 'fn_span': span}
        # entry: bind the iterator, the accumulator / the collection, then loop
        blk['stmts'].append(_assign(_pl(IT), _use(src_op), span))
        if kind in ('try_fold', 'fold'):
            blk['stmts'].append(_assign(_pl(ACC), _use(t['args'][1]), span))
        if kind == 'last':
            blk['stmts'].append(_assign(_pl(ACC), _agg(OPTION, 'None', []), span))
        if kind == 'collect':
            new_fn = {'k': 'const', 'ty': 'fn', 's': 'std::vec::Vec::<T>::new',
                      'fn': {'def': 'std::vec::Vec::<T>::new', 'path': 'std::vec::Vec::<T>::new', 'crate': 'alloc', 'uid': 'alloc::vec::{impl#0}::new', 'local': False, 'args': [],
                             'resolved': {'kind': 'item', 'def': 'std::vec::Vec::<T>::new', 'uid': 'alloc::vec::{impl#0}::new', 'local': False, 'crate': 'alloc', 'args': []}}}
            blk['term'] = {'k': 'call', 'func': new_fn, 'fty': '', 'args': [], 'arg_tys': [], 'dest': _pl(V), 'target': head, 'unwind': 'Continue', 'fn_span': span}
        else:
            blk['term'] = {'k': 'goto', 'target': head}
        j['inlined'].append('iterator:' + kind + ('+map' if kmap is not None else ''))
        return True

    def _skip_rv(self, t, on_skip, recv, adt):
        def payload(v):
            return _mv({'l': recv['l'], 'p': list(recv['p']) + [{'dc': v, 'vi': VIDX[v]}, {'f': 0, 'ty': ''}], 'ty': ''})
        if on_skip.startswith('pass:'):
            v = on_skip[5:]
            return _agg(adt, v, [] if v == 'None' else [payload(v)])
        if on_skip.startswith('arg:'):
            return _use(t['args'][int(on_skip[4:])])
        if on_skip.startswith('const:'):
            return _use({'k': 'const', 'ty': 'bool', 's': 'const ' + on_skip[6:], 'int': 1 if on_skip.endswith('true') else 0})
        if on_skip.startswith('payload:'):
            return _use(payload(on_skip[8:]))
        if on_skip.startswith('okpayload:'):
            return _agg(RESULT, 'Ok', [payload(on_skip[10:])])
        return None

    def _apply_opaque(self, j, b, t, spec, recv, adt, variants, origin_of_block):
        """the callable is a fn item / enum constructor / a closure that is not built here: same case split, the
        application itself stays a call (or becomes the aggregate the constructor builds)"""
        kind, payload_variant, clo_arg, on_call, on_skip = spec
        blk = j['blocks'][b]
        span = blk['span']
        fop = t['args'][clo_arg]
        skip_rv = self._skip_rv(t, on_skip, recv, adt)
        if skip_rv is None:
            return False
        dl = len(j['locals'])
        j['locals'].append({'ty': 'isize', 'mut': True})
        R = len(j['locals'])
        j['locals'].append({'ty': t['dest'].get('ty', '') if on_call == 'use' else '', 'mut': True})
        P = len(j['locals'])
        j['locals'].append({'ty': '', 'mut': True})
        blk['stmts'].append(_assign(_pl(dl, ty='isize'), {'k': 'discr', 'pl': recv}, span))
        call_variant = payload_variant if payload_variant is not None else ('None' if kind == 'opt' else 'Err')
        pre = len(j['blocks'])
        skip, retb = pre + 1, pre + 2
        pre_stmts = []
        args = []
        if payload_variant is not None:
            src = {'l': recv['l'], 'p': list(recv['p']) + [{'dc': payload_variant, 'vi': VIDX[payload_variant]}, {'f': 0, 'ty': ''}], 'ty': ''}
            pre_stmts.append(_assign(_pl(P), _use(_mv(src)), span))
            args = [_mv(_pl(P))]
        fn = fop.get('fn') if fop['k'] == 'const' else None
        ctor = fn is not None and '{constructor#' in (fn.get('uid') or '')
        if ctor:
            path = fn['def'].rsplit('::', 1)
            a = self.prog.f.adt_by_name.get(path[0])
            names = [v['name'] for v in a['variants']] if a else []
            if not a or path[1] not in names:
                return False
            pre_stmts.append(_assign(_pl(R), {'k': 'agg', 'agg': 'adt', 'adt': path[0], 'variant': path[1], 'vi': names.index(path[1]),
                                              'is_enum': len(names) > 1, 'ops': args}, span))
            term = {'k': 'goto', 'target': retb}
        else:
            term = {'k': 'call', 'func': fop, 'fty': fop.get('ty') or (fop.get('pl') or {}).get('ty', ''), 'args': args, 'arg_tys': ['' for _ in args],
                    'dest': _pl(R), 'target': retb, 'unwind': 'Continue', 'fn_span': t.get('fn_span', span)}
        j['blocks'].append({'cleanup': False, 'stmts': pre_stmts, 'term': term, 'span': span})
        tgt = {'k': 'goto', 'target': t['target']} if t['target'] is not None else {'k': 'unreachable'}
        j['blocks'].append({'cleanup': False, 'stmts': [_assign(t['dest'], skip_rv, span)], 'term': dict(tgt), 'span': span})
        retv = _mv(_pl(R))
        if on_call == 'use':
            rrv = _use(retv)
        else:
            wv = on_call[5:]
            rrv = _agg(OPTION if wv in ('Some', 'None') else RESULT, wv, [retv])
        j['blocks'].append({'cleanup': False, 'stmts': [_assign(t['dest'], rrv, span)], 'term': dict(tgt), 'span': span})
        for x in (pre, skip, retb):
            origin_of_block[x] = origin_of_block.get(b, set())
        blk['term'] = {'k': 'switch', 'discr': _mv(_pl(dl, ty='isize')), 'dty': 'isize',
                       'targets': [[VIDX[call_variant], pre]], 'otherwise': skip}
        j['inlined'].append('combinator:' + (fn['def'] if fn else 'callable'))
        return True


# ----------------------------------------------------------------------------- jump threading
TRY_BRANCH = 'std::ops::Try::branch'
FROM_RESIDUAL = 'std::ops::FromResidual::from_residual'
_VI = {'Ok': 0, 'Err': 1, 'None': 0, 'Some': 1, 'Continue': 0, 'Break': 1}


def _fn_def(t):
    f = t.get('func') or {}
    return ((f.get('fn') or {}).get('def')) if isinstance(f, dict) else None


def _whole(pl):
    return pl is not None and not pl['p']


def _const_int(op, lconst):
    if op['k'] == 'const':
        return op.get('int')
    if op['k'] in ('move', 'copy') and _whole(op['pl']):
        return lconst.get(op['pl']['l'])
    return None


def _known_after(blk):
    """locals holding a Result / Option of statically known variant (and, when constant, payload) at the end of
    the block: local -> (variant, payload int or None)"""
    known = {}
    lconst = {}
    for s in blk['stmts']:
        if s['k'] != 'assign':
            continue
        pl, rv = s['pl'], s['rv']
        if not _whole(pl):
            continue
        l = pl['l']
        known.pop(l, None)
        lconst.pop(l, None)
        if rv['k'] == 'agg' and rv.get('agg') == 'adt' and rv.get('adt') in (OPTION, RESULT) and rv.get('variant') in _VI:
            pc = _const_int(rv['ops'][0], lconst) if len(rv['ops']) == 1 else None
            known[l] = (rv['variant'], pc)
        elif rv['k'] == 'use':
            ci = _const_int(rv['op'], lconst)
            if ci is not None:
                lconst[l] = ci
            elif rv['op']['k'] in ('move', 'copy') and _whole(rv['op']['pl']) and rv['op']['pl']['l'] in known:
                known[l] = known[rv['op']['pl']['l']]
    t = blk['term']
    if t['k'] == 'call' and _whole(t.get('dest')):
        if _fn_def(t) == FROM_RESIDUAL:
            known[t['dest']['l']] = ('Err', None)
        else:
            known.pop(t['dest']['l'], None)
    return known


def _succs(t):
    k = t['k']
    if k == 'goto':
        return [t['target']]
    if k == 'switch':
        return [tb for _, tb in t['targets']] + [t['otherwise']]
    if k in ('drop', 'assert'):
        return [t['target']]
    if k == 'call':
        return [t['target']] if t.get('target') is not None else []
    return []


def _consts_before(j, a, max_back=8):
    """integer constants held by whole locals at the end of block a, as far as the unique-predecessor chain into a
    determines them (drop flags and mode flags are set to constants a few blocks before the join they steer)"""
    preds = {}
    for i, blk in enumerate(j['blocks']):
        if blk['cleanup']:
            continue
        for sx in _succs(blk['term']):
            preds.setdefault(sx, []).append(i)
    chain = [a]
    cur = a
    for _ in range(max_back):
        ps = preds.get(cur, [])
        if len(ps) != 1 or ps[0] in chain:
            break
        cur = ps[0]
        chain.append(cur)
    consts = {}
    for bi in reversed(chain):
        blk = j['blocks'][bi]
        for s in blk['stmts']:
            if s['k'] != 'assign' or not _whole(s['pl']):
                continue
            l = s['pl']['l']
            rv = s['rv']
            if rv['k'] == 'use' and rv['op']['k'] == 'const' and rv['op'].get('int') is not None:
                consts[l] = rv['op']['int']
            elif rv['k'] == 'use' and rv['op']['k'] in ('move', 'copy') and _whole(rv['op']['pl']) and rv['op']['pl']['l'] in consts:
                consts[l] = consts[rv['op']['pl']['l']]
            else:
                consts.pop(l, None)
        t = blk['term']
        if t['k'] == 'call' and _whole(t.get('dest')):
            consts.pop(t['dest']['l'], None)
    return consts


def _payload_read(pl):
    """(local, variant) when the place is `(local as Variant).0`"""
    p = pl['p']
    if len(p) == 2 and isinstance(p[0], dict) and 'dc' in p[0] and isinstance(p[1], dict) and p[1].get('f') == 0:
        return pl['l'], p[0]['dc']
    return None


def thread_known_variants(j, max_clones=80, max_len=14):
    """tail-duplicate the straight-line join between `X = Ok(..)` / `X = Err(..)` and the `?` (or discriminant
    switch, or switch on a constant payload) that tests X, resolving the switches in each copy.  Pure CFG
    restructuring: every copy executes the same statements as the original path."""
    clones = 0
    changed = True
    done = set()
    while changed and clones < max_clones:
        changed = False
        for a in range(len(j['blocks'])):
            A = j['blocks'][a]
            if A['cleanup'] or a in done:
                continue
            if A['term']['k'] == 'goto':
                start = A['term']['target']
            elif A['term']['k'] == 'call':
                start = A['term'].get('target')
            else:
                start = None
            if start is None:
                continue
            known = _known_after(A)
            if not known:
                continue
            names = dict(known)      # local -> (variant name, payload const)
            dvals = _consts_before(j, a)   # local -> known integer (drop flags / flags set on the way here, then discriminants and constant payloads)
            path = []                # [(block, resolved successor or None)]
            cur = start
            last_resolved = -1
            while cur is not None and len(path) < max_len and cur not in [p for p, _ in path]:
                blk = j['blocks'][cur]
                if blk['cleanup']:
                    break
                for s in blk['stmts']:
                    if s['k'] != 'assign':
                        continue
                    pl, rv = s['pl'], s['rv']
                    if not _whole(pl):
                        continue
                    l = pl['l']
                    nv = dv = None
                    if rv['k'] == 'discr' and _whole(rv['pl']) and rv['pl']['l'] in names:
                        dv = _VI[names[rv['pl']['l']][0]]
                    elif rv['k'] == 'use' and rv['op']['k'] in ('move', 'copy'):
                        sp = rv['op']['pl']
                        if _whole(sp):
                            nv = names.get(sp['l'])
                            dv = dvals.get(sp['l'])
                        else:
                            pr = _payload_read(sp)
                            if pr and pr[0] in names and names[pr[0]][0] == pr[1] and names[pr[0]][1] is not None:
                                dv = names[pr[0]][1]
                    elif rv['k'] == 'use' and rv['op']['k'] == 'const' and rv['op'].get('int') is not None:
                        dv = rv['op']['int']
                    elif rv['k'] == 'unop' and rv.get('op') == 'Not' and rv['a']['k'] in ('move', 'copy') and _whole(rv['a']['pl']) \
                            and rv['a']['pl']['l'] in dvals and rv.get('aty') == 'bool':
                        dv = 1 - dvals[rv['a']['pl']['l']]
                    names.pop(l, None)
                    dvals.pop(l, None)
                    if nv is not None:
                        names[l] = nv
                    if dv is not None:
                        dvals[l] = dv
                t = blk['term']
                if t['k'] == 'switch':
                    dl = t['discr'].get('pl') if t['discr']['k'] in ('move', 'copy') else None
                    if _whole(dl) and dl['l'] in dvals:
                        v = dvals[dl['l']]
                        hit = [tb for val, tb in t['targets'] if val == v]
                        nxt = hit[0] if hit else t['otherwise']
                        path.append((cur, nxt))
                        last_resolved = len(path) - 1
                        cur = nxt
                        continue
                    break
                if t['k'] == 'call' and _fn_def(t) == TRY_BRANCH and t['args'] and t['args'][0]['k'] in ('move', 'copy') \
                        and _whole(t['args'][0]['pl']) and t['args'][0]['pl']['l'] in names and _whole(t['dest']):
                    v, pc = names[t['args'][0]['pl']['l']]
                    names[t['dest']['l']] = ('Continue' if v in ('Ok', 'Some') else 'Break', pc)
                    path.append((cur, None))
                    cur = t['target']
                    continue
                if t['k'] in ('goto', 'drop'):
                    if t['k'] == 'drop' and _whole(t.get('pl')) and (t['pl']['l'] in names):
                        break
                    path.append((cur, None))
                    cur = t['target']
                    continue
                break
            done.add(a)
            if last_resolved < 0:
                continue
            path = path[:last_resolved + 1]
            # clone the path
            base = len(j['blocks'])
            newid = {p: base + k for k, (p, _) in enumerate(path)}
            for k, (pth, res) in enumerate(path):
                nb = copy.deepcopy(j['blocks'][pth])
                t = nb['term']
                if res is not None:
                    nb['term'] = {'k': 'goto', 'target': newid[path[k + 1][0]] if k + 1 < len(path) else res}
                else:
                    t['target'] = newid[path[k + 1][0]]
                j['blocks'].append(nb)
            A['term']['target'] = newid[start]
            clones += 1
            changed = True
            break
    return clones



def thread_reaching_consts(j, max_clones=24):
    """a switch on a flag / on the discriminant of an Option or Result *variable* whose every definition is a constant
    (`let mut closing = None; loop { .. closing = Some(idx); break .. } let Some(c) = closing else { .. }`): for each
    predecessor edge into the switch block on which all reaching definitions agree, the edge is redirected to a copy of
    the block with the switch resolved.  Pure CFG restructuring (every copy executes the same statements)."""
    nb = len(j['blocks'])
    # definitions per local: value = ('v', variant index) / ('c', int) / None (not a constant)
    defs = {}
    tainted = set()
    for b, blk in enumerate(j['blocks']):
        for i, st in enumerate(blk['stmts']):
            if st['k'] != 'assign':
                continue
            pl, rv = st['pl'], st['rv']
            if rv['k'] in ('ref', 'addr_of', 'rawptr') and rv['pl']['l'] is not None and not (rv['k'] == 'ref' and not rv.get('mut')):
                tainted.add(rv['pl']['l'])
            if pl['p']:
                tainted.add(pl['l'])
                continue
            val = None
            if rv['k'] == 'agg' and rv.get('agg') == 'adt' and rv.get('adt') in (OPTION, RESULT) and rv.get('variant') in _VI:
                val = ('v', _VI[rv['variant']])
            elif rv['k'] == 'use' and rv['op']['k'] == 'const' and rv['op'].get('int') is not None:
                val = ('c', rv['op']['int'])
            elif rv['k'] == 'use' and rv['op']['k'] in ('move', 'copy') and _whole(rv['op']['pl']):
                val = ('via', rv['op']['pl']['l'])       # resolved below: a temporary with a single constant definition
            defs.setdefault(pl['l'], []).append((b, i, val))
        t = blk['term']
        if t['k'] == 'call' and t.get('dest') is not None:
            defs.setdefault(t['dest']['l'], []).append((b, 'term', None))
        for a in (t.get('args') or []) if t['k'] == 'call' else []:
            pass
    for l, ds in defs.items():
        for k, (b, i, val) in enumerate(ds):
            hops = 0
            while val is not None and val[0] == 'via' and hops < 4:
                src = defs.get(val[1], [])
                val = src[0][2] if len(src) == 1 and val[1] not in tainted else None
                hops += 1
            if val is not None and val[0] == 'via':
                val = None
            ds[k] = (b, i, val)
    succ = {b: [x for x in _succs(blk['term']) if x is not None] for b, blk in enumerate(j['blocks'])}
    preds = {}
    for b, ss in succ.items():
        for x in ss:
            preds.setdefault(x, set()).add(b)
    clones = 0
    for S in range(nb):
        blk = j['blocks'][S]
        if blk['cleanup'] or blk['term']['k'] != 'switch' or clones >= max_clones:
            continue
        t = blk['term']
        d = t['discr'].get('pl') if t['discr']['k'] in ('move', 'copy') else None
        if not _whole(d):
            continue
        X, kind = None, None
        ddefs = [x for x in defs.get(d['l'], [])]
        if len(ddefs) == 1 and ddefs[0][0] == S and ddefs[0][1] != 'term':
            rv = blk['stmts'][ddefs[0][1]]['rv']
            if rv['k'] == 'discr' and _whole(rv['pl']):
                X, kind = rv['pl']['l'], 'v'
            elif rv['k'] == 'use' and rv['op']['k'] in ('move', 'copy') and _whole(rv['op']['pl']):
                X, kind = rv['op']['pl']['l'], 'c'
        elif ddefs and all(x[2] is not None and x[2][0] == 'c' for x in ddefs):
            X, kind = d['l'], 'c'
        if X is None or X in tainted:
            continue
        xd = defs.get(X, [])
        if len(xd) < 2 or any(v is None or v[0] != kind for _, _, v in xd):
            continue
        # X must not be redefined inside S before the read
        if any(b == S for b, _, _ in xd):
            continue
        # reaching definitions of X at the end of every block
        gen = {}
        for b, i, v in xd:
            gen[b] = v[1]          # the last definition in block order wins (stmts are visited in order)
        OUT = {b: (frozenset([gen[b]]) if b in gen else frozenset()) for b in range(nb)}
        changed = True
        while changed:
            changed = False
            for b in range(nb):
                if b in gen:
                    continue
                inn = frozenset().union(*[OUT[p] for p in preds.get(b, ())]) if preds.get(b) else frozenset()
                if inn != OUT[b]:
                    OUT[b] = inn
                    changed = True
        allv = frozenset().union(*[OUT[p] for p in preds.get(S, ())]) if preds.get(S) else frozenset()
        if len(allv) < 2:
            continue
        for P in sorted(preds.get(S, ())):
            if P == S or len(OUT[P]) != 1 or clones >= max_clones:
                continue
            v = next(iter(OUT[P]))
            hit = [tb for val, tb in t['targets'] if val == v]
            nxt = hit[0] if hit else t['otherwise']
            cp = copy.deepcopy(blk)
            cp['term'] = {'k': 'goto', 'target': nxt}
            new = len(j['blocks'])
            j['blocks'].append(cp)
            bo = j.get('block_origin')
            if bo is not None and S in bo:
                bo[new] = bo[S]
            _retarget(j['blocks'][P]['term'], S, new)
            clones += 1
    return clones


def _retarget(t, old, new):
    k = t['k']
    if k in ('goto', 'drop', 'assert', 'call') and t.get('target') == old:
        t['target'] = new
    if k == 'switch':
        t['targets'] = [[v, (new if tb == old else tb)] for v, tb in t['targets']]
        if t['otherwise'] == old:
            t['otherwise'] = new


def fold_const_str_eq(j, facts):
    """`op == "+"` where both sides are string constants at this place (a helper that matches on an operator name,
    inlined at a call site that passes a literal): the call becomes the constant answer, so the switch on it folds"""
    from facts import op_const_str
    tmp = Body(j, facts)
    n = 0
    for b in sorted(tmp.live_blocks):
        blk = j['blocks'][b]
        t = blk['term']
        if t['k'] != 'call' or t.get('target') is None or len(t.get('args') or []) != 2:
            continue
        fd = _fn_def(t)
        rdef = (((t.get('func') or {}).get('fn') or {}).get('resolved') or {}).get('def') or ''
        if fd not in ('std::cmp::PartialEq::eq', 'std::cmp::PartialEq::ne') or 'for str' not in rdef and 'impl std::cmp::PartialEq for str' not in rdef and '&' not in rdef:
            continue
        vals = []
        for a in t['args']:
            sv = op_const_str(a)
            if sv is None:
                o = single_origin(trace_operand(tmp, a, through_calls=set()))
                sv = op_const_str(o.data) if o is not None and o.kind == 'const' and not o.proj and isinstance(o.data, dict) else None
            vals.append(sv)
        if vals[0] is None or vals[1] is None:
            continue
        ans = (vals[0] == vals[1]) if fd.endswith('::eq') else (vals[0] != vals[1])
        blk['stmts'].append(_assign(t['dest'], _use({'k': 'const', 'ty': 'bool', 's': 'const %s' % ('true' if ans else 'false'), 'int': 1 if ans else 0}), blk.get('span')))
        blk['term'] = {'k': 'goto', 'target': t['target']}
        n += 1
    return n

def fold_const_enum_eq(j, facts):
    """`end == SeqEnd::Lenient` where `end` is a helper's parameter bound, at this inlined call site, to a unit variant
    of a field-less enum of the crate whose `PartialEq` is derived (it compares discriminants): the call becomes the
    constant answer"""
    tmp = Body(j, facts)
    derived = set()
    for im in facts.impls:
        if (im.get('trait') or '').split('<')[0] == 'std::cmp::PartialEq' and im.get('derived'):
            derived.add(im.get('self'))
    n = 0
    for b in sorted(tmp.live_blocks):
        blk = j['blocks'][b]
        t = blk['term']
        if t['k'] != 'call' or t.get('target') is None or len(t.get('args') or []) != 2:
            continue
        fd = _fn_def(t)
        if fd not in ('std::cmp::PartialEq::eq', 'std::cmp::PartialEq::ne'):
            continue
        vals = []
        for a in t['args']:
            o = single_origin(trace_operand(tmp, a, through_calls=set()))
            v = None
            if o is not None and o.kind == 'agg' and not o.proj and o.data[2].get('agg') == 'adt' and not o.data[2].get('ops'):
                adt = facts.adt_by_name.get(o.data[2].get('adt'))
                if adt is not None and adt.get('kind') == 'Enum' and o.data[2].get('adt') in derived and all(not vv['fields'] for vv in adt['variants']):
                    v = (o.data[2]['adt'], o.data[2].get('variant'))
            vals.append(v)
        if vals[0] is None or vals[1] is None or vals[0][0] != vals[1][0]:
            continue
        ans = (vals[0] == vals[1]) if fd.endswith('::eq') else (vals[0] != vals[1])
        blk['stmts'].append(_assign(t['dest'], _use({'k': 'const', 'ty': 'bool', 's': 'const %s' % ('true' if ans else 'false'), 'int': 1 if ans else 0}), blk.get('span')))
        blk['term'] = {'k': 'goto', 'target': t['target']}
        n += 1
    return n


def fold_const_switches(j, facts):
    """a switch on a local whose only definition is a constant (a helper's flag parameter bound to `true` at the
    inlined call site) becomes a goto"""
    tmp = Body(j, facts)
    n = 0
    for b in sorted(tmp.live_blocks):
        t = j['blocks'][b]['term']
        if t['k'] != 'switch':
            continue
        o = single_origin(trace_operand(tmp, t['discr'], through_calls=set()))
        if o is not None and o.kind == 'discr' and not o.proj:
            # `match direction { ShiftDirection::Left => .. }` where `direction` is a helper's parameter bound, at this inlined
            # call site, to a unit variant of a field-less enum of the crate
            so = single_origin(trace_operand(tmp, {'k': 'copy', 'pl': o.data[2]['pl']}, through_calls=set()))
            if so is not None and so.kind == 'agg' and not so.proj and so.data[2].get('agg') == 'adt' and not so.data[2].get('ops') and so.data[2].get('vi') is not None:
                adt = facts.adt_by_name.get(so.data[2].get('adt'))
                if adt is not None and adt.get('kind') == 'Enum' and all(not vv['fields'] for vv in adt['variants']) and not any(vv.get('explicit_discr') for vv in adt['variants']):
                    v = so.data[2]['vi']
                    hit = [tb for val, tb in t['targets'] if val == v]
                    j['blocks'][b]['term'] = {'k': 'goto', 'target': hit[0] if hit else t['otherwise']}
                    n += 1
            continue
        if o is None or o.proj or o.kind != 'const' or not isinstance(o.data, dict) or o.data.get('int') is None:
            continue
        v = o.data['int']
        hit = [tb for val, tb in t['targets'] if val == v]
        j['blocks'][b]['term'] = {'k': 'goto', 'target': hit[0] if hit else t['otherwise']}
        n += 1
    return n
