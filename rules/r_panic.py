"""PANIC: panic-site inventory + discharge rules (DESIGN §3).

A *site* is a terminator that can unwind or abort by the engine's own doing:
  - Assert terminators (overflow, division by zero, bounds check, ...),
  - calls whose resolved callee is in spec/may_panic.tsv, or a rust_decimal operator trait
    (Add/Sub/Mul/Div/Rem and the *Assign forms, Sum/Product).
A site is discharged only by one of the D-rules below.  External callees not in the table are
assumed non-panicking (listed in the evidence).
"""
import os, re
from facts import op_local, op_place, op_const_int, pl_str, op_str, Call
from analysis import TRANSPARENT_CALLS
from analysis import (defuse, trace_operand, trace_local, trace_place, single_origin, Origin,
                      LOCK_CALLS, proj_key)
from engine import ok, bad, assumed, VERIF


def _load_tsv(name):
    rows = []
    with open(os.path.join(VERIF, 'spec', name)) as f:
        for line in f:
            line = line.rstrip('\n')
            if not line or line.startswith('#'):
                continue
            rows.append(line.split('\t'))
    return rows

_MAY_PANIC = [(re.compile('^(?:%s)$' % r[0]), r[1], r[2]) for r in _load_tsv('may_panic.tsv') if r[1] != 'decimal-ok']
TOTAL_CTORS = {r[0]: r[1] for r in _load_tsv('total_ctors.tsv')}
_VETTED = [re.compile('^(?:%s)$' % r[0]) for r in _load_tsv('vetted_externals.tsv')]

DECIMAL = 'rust_decimal::Decimal'
UB_CHECK_ASSERTS = {'NullPointerDereference', 'MisalignedPointerDereference', 'InvalidEnumConstruction'}
_DEC_OPS = re.compile(r'^std::ops::(Add|Sub|Mul|Div|Rem)(Assign)?::\w+$')
_SUMPROD = re.compile(r'^std::iter::(Iterator::(sum|product)|Sum::sum|Product::product)$')

# generic-path normalisation: the driver prints resolved defs with their generic parameter
# names (e.g. std::option::Option::<T>::unwrap); nothing to do.


def classify_call(c):
    """(class, reason) if the call is a may-panic site, else None"""
    if c.fn is None:
        return None
    names = [c.callee]
    if c.rdef and c.rdef != c.callee:
        names.append(c.rdef)
    for n in names:
        for rx, cls, reason in _MAY_PANIC:
            if rx.match(n):
                return cls, reason
    args = c.fn.get('args', [])
    if _DEC_OPS.match(c.callee) and args and args[0] == DECIMAL:
        return 'decimal-op', 'rust_decimal operator traits panic on overflow / zero divisor'
    if _SUMPROD.match(c.callee) and any(DECIMAL in a for a in args):
        return 'decimal-op', 'rust_decimal Sum/Product panic on overflow'
    # third-party code nobody vetted: fail closed
    cr = c.crate
    if cr and cr not in ('std', 'core', 'alloc') and not c.fn.get('local') and not (c.fn.get('resolved') or {}).get('local'):
        if not any(rx.match(n) for n in names for rx in _VETTED):
            return 'unvetted-external', 'third-party callee (crate %s) that is neither vetted total (spec/vetted_externals.tsv) nor a listed panic site: whether it can panic is unknown' % cr
    return None


class Site:
    __slots__ = ('body', 'bb', 'cls', 'callee', 'reason', 'ordinal', 'call', 'term')

    def __init__(self, body, bb, cls, callee, reason, call=None, term=None):
        self.body = body; self.bb = bb; self.cls = cls; self.callee = callee
        self.reason = reason; self.ordinal = 0; self.call = call; self.term = term

    @property
    def key(self):
        return '%s|%s:%s|#%d' % (self.body.name, self.cls, self.callee, self.ordinal)

    def where(self):
        return self.body.where(self.bb)


def short_callee(c):
    n = c.rdef or c.callee
    return n


def sites_of(body):
    out = []
    lb = body.live_blocks
    for b in sorted(lb):
        t = body.blocks[b]['term']
        if t['k'] == 'assert' and t['kind'] in UB_CHECK_ASSERTS:
            continue   # debug-assertions UB checks on references: cannot fail in a crate without unsafe (UNSAFE rule)
        if t['k'] == 'assert':
            out.append(Site(body, b, 'assert', t['kind'] + (':' + t['msg'].split('(')[1].split(',')[0] if t['kind'] == 'Overflow' and '(' in t['msg'] else ''),
                            'MIR Assert(%s)' % t['msg'][:60], term=t))
        elif t['k'] == 'call':
            c = body.call_at(b)
            cl = classify_call(c)
            if cl:
                out.append(Site(body, b, cl[0], short_callee(c), cl[1], call=c, term=t))
    # ordinals among equal (cls, callee) in block order
    cnt = {}
    for s in out:
        k = (s.cls, s.callee)
        s.ordinal = cnt.get(k, 0)
        cnt[k] = s.ordinal + 1
    return out


# ----------------------------------------------------------------------------- helpers

def root_place(body, op_or_pl, is_place=False):
    """follow single-def copy/move/ref chains back to a root (local, proj).  Stops at a local
    with several whole definitions, a parameter, or a non-copy definition."""
    du = defuse(body)
    if is_place:
        l, proj = op_or_pl['l'], proj_key(op_or_pl['p'])
    else:
        pl = op_place(op_or_pl)
        if pl is None:
            return None
        l, proj = pl['l'], proj_key(pl['p'])
    for _ in range(50):
        defs = du.defs.get(l, [])
        if len(defs) != 1:
            return (l, proj)
        (b, i, kind, payload, dproj) = defs[0]
        if dproj != () or kind != 'assign':
            if kind == 'call' and payload.callee in ('std::ops::Deref::deref', 'std::ops::DerefMut::deref_mut') and payload.args:
                # deref of a smart pointer is not the same place: stop
                return (l, proj)
            return (l, proj)
        rv = payload
        if rv['k'] == 'use' and op_place(rv['op']) is not None:
            pl = rv['op']['pl']
        elif rv['k'] in ('ref', 'copy_for_deref'):
            pl = rv['pl']
        else:
            return (l, proj)
        l, proj = pl['l'], proj_key(pl['p']) + proj
    return (l, proj)


def bool_source(body, op, parity=0):
    """trace a switch discriminant back to (Call, parity) through Not / copies; parity 1 = negated"""
    du = defuse(body)
    l = op_local(op)
    for _ in range(20):
        if l is None:
            return None
        defs = du.defs.get(l, [])
        if len(defs) != 1:
            return None
        (b, i, kind, payload, dproj) = defs[0]
        if kind == 'call':
            return payload, parity
        if kind != 'assign':
            return None
        rv = payload
        if rv['k'] == 'use':
            l = op_local(rv['op'])
        elif rv['k'] == 'unop' and rv['op'] == 'Not':
            parity ^= 1
            l = op_local(rv['a'])
        else:
            return None
    return None


def edge_dominates(body, s, t, target_bb):
    """True if every path entry -> target_bb passes through CFG edge s->t"""
    seen = set()
    st = [0]
    while st:
        b = st.pop()
        if b in seen:
            continue
        seen.add(b)
        if b == target_bb:
            return False
        for n in body.succ[b]:
            if b == s and n == t:
                # edge removed; but if the switch has another arm to the same block keep it
                continue
            st.append(n)
    return True


def defs_in_blocks(body, root_local, blocks):
    du = defuse(body)
    return any(b in blocks and i != 'term' for (b, i, kind, payload, dproj) in du.defs.get(root_local, []))


def switch_edges(body, bb):
    """[(value or 'otherwise', target)] of the switch terminating bb"""
    t = body.blocks[bb]['term']
    if t['k'] != 'switch':
        return []
    return [(v, tb) for v, tb in t['targets']] + [('otherwise', t['otherwise'])]


def defs_between(body, root_local, from_bb, to_bb, avoid=None):
    """is root_local (re)defined in a block on some path from from_bb to to_bb (inclusive) that
    does not pass through block `avoid` again (the test itself: a path that re-executes the test
    re-establishes the fact)?"""
    av = {avoid} if avoid is not None and avoid != from_bb else set()
    fwd = body.reachable_from(from_bb, avoid=av)
    if to_bb not in fwd:
        return False
    # blocks that can reach to_bb
    back = set()
    st = [to_bb]
    while st:
        b = st.pop()
        if b in back or b in av:
            continue
        back.add(b)
        st.extend(body.pred[b])
    between = fwd & back
    du = defuse(body)
    for (b, i, kind, payload, dproj) in du.defs.get(root_local, []):
        if b in between:
            # a definition in to_bb as the *result* of the terminator itself does not count
            if b == to_bb and i == 'term':
                continue
            return True
    # mutable borrows of the root in between could also change it
    for b in between:
        for st_ in body.blocks[b]['stmts']:
            if st_['k'] == 'assign' and st_['rv']['k'] == 'ref' and st_['rv'].get('mut') and st_['rv']['pl']['l'] == root_local:
                return True
    return False


_TESTS = {
    # callee -> (kind, value of the *test result* on which the payload is present)
    'std::option::Option::<T>::is_none': ('opt', 0),
    'std::option::Option::<T>::is_some': ('opt', 1),
    'std::result::Result::<T, E>::is_err': ('res_ok', 0),
    'std::result::Result::<T, E>::is_ok': ('res_ok', 1),
}

def d_guard(site):
    """unwrap/expect dominated by the matching edge of a test of the same place"""
    c = site.call
    if c is None or site.cls != 'unwrap' or not c.args:
        return None
    body = site.body
    name = c.callee
    want_err = name.endswith('unwrap_err') or name.endswith('expect_err')
    rp = root_place(body, c.args[0])
    if rp is None:
        return None
    for b in sorted(body.live_blocks):
        t = body.blocks[b]['term']
        if t['k'] != 'switch':
            continue
        src = bool_source(body, t['discr'])
        if src is not None:
            tc, parity = src
            tinfo = _TESTS.get(tc.callee)
            if not tinfo or not tc.args:
                continue
            trp = root_place(body, tc.args[0])
            if trp != rp:
                continue
            kind, present_val = tinfo
            if want_err:
                present_val ^= 1
            if parity:
                present_val ^= 1
            for v, tb in switch_edges(body, b):
                truth = None
                if v == 'otherwise':
                    # otherwise = all values not listed; with a bool: the complement
                    listed = [x for x, _ in t['targets']]
                    if listed == [0]:
                        truth = 1
                    elif listed == [1]:
                        truth = 0
                else:
                    truth = 1 if v != 0 else 0
                if truth is None or truth != present_val:
                    continue
                if edge_dominates(body, b, tb, site.bb) and not defs_between(body, rp[0], tb, site.bb, avoid=tc.bb) and not defs_in_blocks(body, rp[0], [tc.target, b] if tc.target != b else [b]):
                    return ('D-guard', 'dominated by the %s edge of %s on the same place %s (bb%d->bb%d), no write in between'
                            % ('true' if truth else 'false', tc.callee.split('::')[-1], '_%d%s' % (rp[0], ''.join('.%s' % (x[1],) for x in rp[1])), b, tb))
        else:
            # switch on discriminant(place)
            du = defuse(body)
            l = op_local(t['discr'])
            if l is None:
                continue
            defs = du.defs.get(l, [])
            if len(defs) != 1 or defs[0][2] != 'assign' or defs[0][3]['k'] != 'discr':
                continue
            dpl = defs[0][3]['pl']
            trp = root_place(body, dpl, is_place=True)
            if trp != rp:
                continue
            ty = dpl['ty']
            if ty.startswith('std::option::Option<'):
                present = 1
            elif ty.startswith('std::result::Result<'):
                present = 1 if want_err else 0
            else:
                continue
            for v, tb in switch_edges(body, b):
                if v == present and edge_dominates(body, b, tb, site.bb) and not defs_between(body, rp[0], b, site.bb):
                    return ('D-guard', 'dominated by the discriminant==%d edge on the same place (bb%d->bb%d)' % (present, b, tb))
    return None


def d_total(site):
    c = site.call
    if c is None or site.cls != 'unwrap' or not c.args:
        return None
    o = single_origin(trace_operand(site.body, c.args[0]))
    if o is not None and o.kind == 'callres' and not o.proj:
        rd = o.data.rdef
        if rd in TOTAL_CTORS:
            return ('D-total', '%s is total: %s' % (rd, TOTAL_CTORS[rd]))
    return None


def d_lock(site):
    c = site.call
    if c is None or site.cls != 'unwrap' or not c.args:
        return None
    o = single_origin(trace_operand(site.body, c.args[0]))
    if o is not None and o.kind == 'callres' and not o.proj and o.data.callee in LOCK_CALLS:
        return ('D-lock', 'LockResult::unwrap panics only on a poisoned mutex; NO-POISON invariant (LOCK-c, checked under C13/C15) rules poisoning out')
    return None


def _is_len_of(body, origin):
    """origin is the result of Vec::len / slice len / str::len: returns root place of the receiver"""
    if origin is None or origin.kind != 'callres' or origin.proj:
        return None
    c = origin.data
    if c.callee in ('std::vec::Vec::<T, A>::len', 'core::slice::<impl [T]>::len', 'std::slice::<impl [T]>::len') and c.args:
        o = single_origin(trace_operand(body, c.args[0]))
        return o
    return None


def _range_item(body, origin):
    """origin is the Some payload of Range<usize>::next: returns (next call, range origin) """
    if origin is None or origin.kind != 'callres':
        return None
    c = origin.data
    if origin.proj != (('dc', 'Some'), ('f', 0)):
        return None
    if not (c.rdef or '').endswith('for std::ops::Range<A>>::next'):
        return None
    # receiver: &mut iter ; iter = into_iter(Range{start,end})
    it = single_origin(trace_operand(body, c.args[0]))
    if it is None:
        return None
    if it.kind == 'callres' and it.data.callee == 'std::iter::IntoIterator::into_iter':
        it = single_origin(trace_operand(body, it.data.args[0]))
    if it is None or it.kind != 'agg':
        return None
    rv = it.data[2]
    if rv.get('adt') != 'std::ops::Range' or len(rv['ops']) != 2:
        return None
    return c, rv


def vec_unmutated(body, vec_origin):
    """the Vec the origin names is never mutably borrowed / assigned in the body (so its length
    is loop-invariant)"""
    if vec_origin is None:
        return False
    if vec_origin.kind == 'param':
        l = vec_origin.data
    else:
        return False
    du = defuse(body)
    if du.whole_defs(l):
        return False
    for b, i, pl, rv in body.assigns():
        if rv['k'] == 'ref' and rv.get('mut') and rv['pl']['l'] == l:
            return False
        if pl['l'] == l:
            return False
    # moved out?
    for b in body.live_blocks:
        t = body.blocks[b]['term']
        if t['k'] == 'call':
            for a in t['args']:
                if a['k'] == 'move' and a['pl']['l'] == l and not a['pl']['p']:
                    return False
    return True


def d_range(site):
    """Vec indexing v[i] with i drawn from 0..v.len() of the same unmutated v;  v.len()-1 inside
    such a loop; v[k] after len(v)==n with k<n."""
    body = site.body
    if site.cls == 'index' and site.call is not None:
        c = site.call
        if 'Vec<T, A> as std::ops::Index' not in (c.rdef or '') and 'impl std::ops::Index<I> for [T]' not in (c.rdef or ''):
            return None
        vo = single_origin(trace_operand(body, c.args[0]))
        io = single_origin(trace_operand(body, c.args[1]))
        if vo is None or io is None:
            return None
        ri = _range_item(body, io)
        if ri is not None:
            nxt, rv = ri
            start, end = rv['ops']
            eo = single_origin(trace_operand(body, end))
            lo = _is_len_of(body, eo)
            if lo is not None and lo == vo and vec_unmutated(body, vo) and op_const_int(start) is not None and op_const_int(start) >= 0:
                return ('D-range', 'index is an item of %d..len(v) of the same un-mutated Vec (%r)' % (op_const_int(start), vo))
        k = op_const_int(c.args[1]) if c.args[1]['k'] == 'const' else (io.data.get('int') if io.kind == 'const' else None)
        if k is not None:
            # dominated by the true edge of len(v) == n (n > k) or len(v) > k ...
            for b in sorted(body.live_blocks):
                t = body.blocks[b]['term']
                if t['k'] != 'switch':
                    continue
                l = op_local(t['discr'])
                if l is None:
                    continue
                defs = defuse(body).defs.get(l, [])
                if len(defs) != 1 or defs[0][2] != 'assign' or defs[0][3]['k'] != 'binop':
                    continue
                rv = defs[0][3]
                if rv['op'] not in ('Eq', 'Ne'):
                    continue
                a = single_origin(trace_operand(body, rv['a']))
                n = op_const_int(rv['b'])
                lo = _is_len_of(body, a)
                if lo is None or n is None or lo != vo or n <= k:
                    continue
                for v, tb in switch_edges(body, b):
                    if rv['op'] == 'Ne' and v == 0 and edge_dominates(body, b, tb, site.bb):
                        # `if v.len() != 1 { return .. }  v[0]`: the false edge of `!=`
                        if vo.kind == 'param' or not _mutated_between(body, vo, b, site.bb):
                            return ('D-range', 'index %d after len(v) != %d was false on the same Vec' % (k, n))
                    if rv['op'] == 'Eq' and v == 'otherwise' and [x for x, _ in t['targets']] == [0]:
                        if edge_dominates(body, b, tb, site.bb):
                            # v must not change between the test and the index
                            if vo.kind == 'param' or not _mutated_between(body, vo, b, site.bb):
                                return ('D-range', 'index %d after len(v) == %d on the same Vec' % (k, n))
        return None
    if site.cls == 'assert' and site.term and site.term['kind'] == 'BoundsCheck':
        # built-in slice indexing s[i] with i drawn from 0..s.len() of the same shared (hence un-mutated) slice
        co = single_origin(trace_operand(body, site.term['cond']))
        if co is None or co.kind != 'binop' or co.data[2]['op'] != 'Lt':
            return None
        io = single_origin(trace_operand(body, co.data[2]['a']))
        lo_ = single_origin(trace_operand(body, co.data[2]['b']))
        if io is None or lo_ is None or lo_.kind != 'unop' or lo_.data[2].get('op') != 'PtrMetadata':
            return None
        so = single_origin(trace_operand(body, lo_.data[2]['a']))
        ri = _range_item(body, io)
        if so is None or ri is None or so.kind != 'param' or so.proj or not body.locals[so.data]['ty'].startswith('&[') or body.is_closure:
            return None
        nxt, rv = ri
        start, end = rv['ops']
        eo = single_origin(trace_operand(body, end))
        ln = _is_len_of(body, eo)
        if ln is not None and ln.kind == 'param' and ln.data == so.data and not [x for x in ln.proj if x != 'deref' and x != ('deref',)] \
                and op_const_int(start) is not None and op_const_int(start) >= 0:
            return ('D-range', 'index is an item of %d..len(s) of the same shared slice parameter' % op_const_int(start))
        return None
    if site.cls == 'assert' and site.term and site.term['kind'] == 'Overflow' and 'Sub' in site.term['msg']:
        # len(v) - 1 inside `for i in 0..len(v)`
        blk = body.blocks[site.bb]
        # the checked subtraction feeding the assert
        cond_l = op_place(site.term['cond'])
        if cond_l is None:
            return None
        du = defuse(body)
        for (b, i, kind, payload, dproj) in du.defs.get(cond_l['l'], []):
            if kind == 'assign' and payload['k'] == 'binop' and payload['op'] in ('SubWithOverflow', 'Sub'):
                a = single_origin(trace_operand(body, payload['a']))
                kconst = op_const_int(payload['b'])
                lo = _is_len_of(body, a)
                if lo is None or kconst != 1 or not vec_unmutated(body, lo):
                    return None
                # dominated by Some edge of a Range::next whose end is len(same v) and start const >= 0
                for c in body.live_calls:
                    if not (c.rdef or '').endswith('for std::ops::Range<A>>::next'):
                        continue
                    ri = _range_item(body, Origin('callres', c, (('dc', 'Some'), ('f', 0))))
                    if ri is None:
                        continue
                    _, rv = ri
                    eo = single_origin(trace_operand(body, rv['ops'][1]))
                    lo2 = _is_len_of(body, eo)
                    s0 = op_const_int(rv['ops'][0])
                    if lo2 is None or lo2 != lo or s0 is None or s0 < 0:
                        continue
                    # find the switch on discriminant of next()'s result; the Some edge
                    for sb in sorted(body.live_blocks):
                        t = body.blocks[sb]['term']
                        if t['k'] != 'switch':
                            continue
                        l = op_local(t['discr'])
                        defs = du.defs.get(l, []) if l is not None else []
                        if len(defs) == 1 and defs[0][2] == 'assign' and defs[0][3]['k'] == 'discr':
                            dpl = defs[0][3]['pl']
                            if dpl['l'] == c.dest['l'] and not dpl['p']:
                                for v, tb in switch_edges(body, sb):
                                    if v == 1 and edge_dominates(body, sb, tb, site.bb):
                                        return ('D-range', 'len(v) - 1 inside a loop over %d..len(v) of the same un-mutated Vec: the range yielded an item, so len(v) >= 1' % s0)
                # ... or by the Some edge of next() of an iterator (iter / enumerate / into_iter chains) over the same v:
                # an item was drawn, so len(v) >= 1
                for c in body.live_calls:
                    rd = c.rdef or ''
                    if not rd.endswith('as std::iter::Iterator>::next') or not c.args:
                        continue
                    src = single_origin(trace_operand(body, c.args[0]))
                    hops = 0
                    while src is not None and src.kind == 'callres' and not src.proj and hops < 5 and (src.data.callee or '') in (
                            'std::iter::IntoIterator::into_iter', 'std::iter::Iterator::enumerate', 'core::slice::<impl [T]>::iter', 'std::slice::<impl [T]>::iter',
                            'std::vec::Vec::<T, A>::iter', 'std::iter::Iterator::rev', 'std::iter::Iterator::peekable', 'std::ops::Deref::deref'):
                        src = single_origin(trace_operand(body, src.data.args[0]))
                        hops += 1
                    if src is None or hops == 0 or (src.kind, src.key()[1], src.proj) != (lo.kind, lo.key()[1], lo.proj):
                        continue
                    for sb in sorted(body.live_blocks):
                        t = body.blocks[sb]['term']
                        if t['k'] != 'switch':
                            continue
                        l = op_local(t['discr'])
                        defs = du.defs.get(l, []) if l is not None else []
                        if len(defs) == 1 and defs[0][2] == 'assign' and defs[0][3]['k'] == 'discr':
                            dpl = defs[0][3]['pl']
                            if dpl['l'] == c.dest['l'] and not dpl['p']:
                                for v, tb in switch_edges(body, sb):
                                    if v == 1 and edge_dominates(body, sb, tb, site.bb):
                                        return ('D-range', 'len(v) - 1 inside a loop that has just drawn an item from an iterator over the same un-mutated slice: len(v) >= 1')
        return None
    return None


def _mutated_between(body, vo, from_bb, to_bb):
    if vo.kind == 'param':
        return not vec_unmutated(body, vo)
    return True


def _len_call_root(body, op):
    a = single_origin(trace_operand(body, op))
    if a is None or a.kind != 'callres' or a.data.callee != 'std::vec::Vec::<T, A>::len':
        return None
    return root_place(body, a.data.args[0])


def _len_edges(body, vroot):
    """(switch block, target block, n) for every edge on which `len(v) == n` is known for the Vec rooted at vroot:
    the true edge of `len == n` and the `n:` arm of a switch on the length itself"""
    out = []
    for b in sorted(body.live_blocks):
        t = body.blocks[b]['term']
        if t['k'] != 'switch':
            continue
        if _len_call_root(body, t['discr']) == vroot:
            for v, tb in t['targets']:
                out.append((b, tb, v))
            continue
        l = op_local(t['discr'])
        defs = defuse(body).defs.get(l, []) if l is not None else []
        if len(defs) != 1 or defs[0][2] != 'assign' or defs[0][3]['k'] != 'binop' or defs[0][3]['op'] not in ('Eq', 'Ne'):
            continue
        rv = defs[0][3]
        n = op_const_int(rv['b'])
        if n is None or _len_call_root(body, rv['a']) != vroot:
            continue
        for v, tb in switch_edges(body, b):
            if rv['op'] == 'Eq' and v == 'otherwise' and [x for x, _ in t['targets']] == [0]:
                out.append((b, tb, n))
            elif rv['op'] == 'Ne' and v == 0:
                out.append((b, tb, n))       # the false edge of `len != n` (`if v.len() != 1 { return .. }  v[0]`)
    return out


def d_len_eq(site):
    """v[k] / v.remove(k) / v.swap_remove(k) (k constant) dominated by an edge on which `v.len() == n`, n > k, is
    known, for a *local* Vec that is not mutably borrowed / reassigned between the test and the use"""
    body = site.body
    c = site.call
    if c is None:
        return None
    is_index = site.cls == 'index' and 'Vec<T, A> as std::ops::Index' in (c.rdef or '')
    is_remove = c.callee in ('std::vec::Vec::<T, A>::remove', 'std::vec::Vec::<T, A>::swap_remove')
    if not (is_index or is_remove) or len(c.args) < 2:
        return None
    k = op_const_int(c.args[1])
    if k is None:
        io = single_origin(trace_operand(body, c.args[1]))
        k = io.data.get('int') if io is not None and io.kind == 'const' else None
    if k is None:
        return None
    vroot = root_place(body, c.args[0])
    if vroot is None:
        return None
    # the &mut borrow that feeds this very call is not a mutation "in between"
    own = set()
    pl = op_place(c.args[0])
    if pl is not None:
        own.add(pl['l'])
    for b, tb, n in _len_edges(body, vroot):
        if n <= k or not edge_dominates(body, b, tb, site.bb):
            continue
        fwd = body.reachable_from(tb)
        back = set()
        st = [site.bb]
        while st:
            x = st.pop()
            if x in back:
                continue
            back.add(x)
            st.extend(body.pred[x])
        between = fwd & back
        mutated = False
        for x in between:
            for s_ in body.blocks[x]['stmts']:
                if s_['k'] != 'assign':
                    continue
                if s_['rv']['k'] == 'ref' and s_['rv'].get('mut') and s_['rv']['pl']['l'] == vroot[0] and s_['pl']['l'] not in own:
                    mutated = True
                if s_['pl']['l'] == vroot[0]:
                    mutated = True
        # a removing call must not sit on a cycle (a second execution would see a shorter Vec)
        if is_remove and any(site.bb in body.reachable_from(sx) for sx in body.succ[site.bb] if not body.blocks[sx]['cleanup']):
            mutated = True
        if not mutated:
            return ('D-range', '%s %d after len(v) == %d on the same local Vec, not mutated in between' % ('index' if is_index else 'remove', k, n))
    return None


VETTED = {r[0]: (r[1], r[2]) for r in _load_tsv('vetted_sites.tsv')}


def _pre_bp_plus_minus_one(site):
    """machine-checked precondition: the assert guards  x (+|-) const 1  on i32 where x is a field
    of a value looked up in a registry (result of a local call), i.e. a registered precedence"""
    t = site.term
    if not t or t['kind'] != 'Overflow':
        return False
    body = site.body
    cl = op_place(t['cond'])
    if cl is None:
        return False
    for (b, i, kind, payload, dproj) in defuse(body).defs.get(cl['l'], []):
        if kind == 'assign' and payload['k'] == 'binop' and payload['op'] in ('AddWithOverflow', 'SubWithOverflow', 'MulWithOverflow') and payload.get('aty') == 'i32':
            k = op_const_int(payload['b'])
            if (payload['op'] == 'MulWithOverflow' and k != 2) or (payload['op'] != 'MulWithOverflow' and k != 1):
                return False
            o = single_origin(trace_operand(body, payload['a']))
            if o is not None and o.kind == 'binop' and o.data[2]['op'] == 'MulWithOverflow' and op_const_int(o.data[2]['b']) == 2 and o.proj == (('f', 0),):
                o = single_origin(trace_operand(body, o.data[2]['a']))
            # through unwrap of the lookup result: field 0 (the precedence) of the registry entry
            if o is not None and o.kind == 'callres' and o.proj and o.proj[-1] == ('f', 0):
                return True
    return False


PRECONDITIONS = {'bp_plus_minus_one': _pre_bp_plus_minus_one}


def d_vetted(site):
    k = site.key
    if k in VETTED:
        pre, reason = VETTED[k]
        fn = PRECONDITIONS.get(pre)
        if fn and fn(site):
            return ('D-vetted', '%s [precondition %s re-checked on this tree]' % (reason, pre))
    return None


def _assert_binop(site):
    t = site.term
    if site.cls != 'assert' or not t or t['kind'] != 'Overflow':
        return None
    cl = op_place(t['cond'])
    if cl is None:
        return None
    for (b, i, kind, payload, dproj) in defuse(site.body).defs.get(cl['l'], []):
        if kind == 'assign' and payload['k'] == 'binop':
            return payload
    return None


def d_counter(site):
    """a 64-bit counter incremented by a small constant cannot overflow in fewer than 2^47 steps"""
    rv = _assert_binop(site)
    if rv is None or rv['op'] != 'AddWithOverflow' or rv.get('aty') not in ('usize', 'u64', 'i64', 'isize', 'u128', 'i128'):
        return None
    k = op_const_int(rv['b'])
    if k is None or not (0 <= k <= 65536):
        return None
    pl = op_place(rv['a'])
    if pl is None:
        return None
    # the incremented value must be a counter: a field of self or a local that is written back
    # (x = x + k); an index that is merely *read* (start + 1) is not covered here
    body = site.body
    for b2, i2, dpl, drv in body.assigns():
        if drv['k'] == 'use' and op_place(drv['op']) is not None:
            o = single_origin(trace_operand(body, drv['op']))
            if o is not None and o.kind == 'binop' and o.data[2] is rv:
                if proj_key(dpl['p']) == proj_key(pl['p']) and (dpl['l'] == pl['l'] or root_place(body, pl, is_place=True) == root_place(body, dpl, is_place=True)):
                    return ('D-counter', '64-bit counter += %d written back to the same place: cannot overflow in fewer than 2^47 increments' % k)
    return None


BYTE_LEN = ('core::str::<impl str>::len', 'std::string::String::len', 'std::ffi::OsStr::len')


def d_len_plus(site):
    """byte length of a string + a small constant: a str never exceeds isize::MAX bytes, so the sum fits usize"""
    rv = _assert_binop(site)
    if rv is None or rv['op'] != 'AddWithOverflow' or rv.get('aty') != 'usize':
        return None
    for x, y in ((rv['a'], rv['b']), (rv['b'], rv['a'])):
        k = op_const_int(y)
        if k is None or not (0 <= k <= 1 << 32):
            continue
        o = single_origin(trace_operand(site.body, x, through_calls=set()))
        if o is not None and o.kind == 'callres' and (o.data.rdef or o.data.callee) in BYTE_LEN:
            return ('D-bound', 'str byte length (<= isize::MAX) + %d fits usize' % k)
    return None


def _len_sum(body, op, depth=0):
    """(number of byte-length terms, constant part) when the operand is a sum of str / String / Vec lengths and small
    constants (`op.len() + 1 + rhs.len()`), else None"""
    k = op_const_int(op)
    if k is not None:
        return (0, k) if 0 <= k <= 1 << 20 else None
    if depth > 4:
        return None
    o = single_origin(trace_operand(body, op, through_calls=set()))
    if o is None:
        return None
    if o.kind == 'const' and isinstance(o.data, dict) and o.data.get('int') is not None and not o.proj:
        return (0, o.data['int']) if 0 <= o.data['int'] <= 1 << 20 else None
    if o.kind == 'callres' and not o.proj and ((o.data.rdef or o.data.callee) in BYTE_LEN or (o.data.callee or '') in ('std::vec::Vec::<T, A>::len', 'core::slice::<impl [T]>::len', 'std::slice::<impl [T]>::len')):
        return (1, 0)
    if o.kind == 'binop' and o.data[2]['op'] in ('AddWithOverflow', 'Add') and o.proj in ((('f', 0),), ()):
        a, b = _len_sum(body, o.data[2]['a'], depth + 1), _len_sum(body, o.data[2]['b'], depth + 1)
        if a is None or b is None:
            return None
        return (a[0] + b[0], a[1] + b[1])
    return None


def d_len_sum(site):
    """the sum of at most two lengths of live strings / vectors and a small constant (a capacity hint): each length is at
    most isize::MAX, so the sum fits usize"""
    rv = _assert_binop(site)
    if rv is None or rv['op'] != 'AddWithOverflow' or rv.get('aty') != 'usize':
        return None
    a, b = _len_sum(site.body, rv['a']), _len_sum(site.body, rv['b'])
    if a is None or b is None:
        return None
    n, k = a[0] + b[0], a[1] + b[1]
    if 1 <= n <= 2 and k <= 1 << 20:
        return ('D-bound', 'sum of %d byte / element length(s) (each <= isize::MAX) and %d fits usize' % (n, k))
    return None


def d_balanced(site):
    """x -= k on a field that is only ever initialised by a constant, incremented and decremented by
    constants, where in every body each decrement is dominated by an increment (of at least the same
    amount) of the same field: every call then has non-negative net effect, so the field is >= k here"""
    rv = _assert_binop(site)
    if rv is None or rv['op'] != 'SubWithOverflow':
        return None
    k = op_const_int(rv['b'])
    pl = op_place(rv['a'])
    if k is None or k < 0 or pl is None or not pl['p']:
        return None
    body = site.body
    fld = proj_key(pl['p'])
    base_ty = body.locals[pl['l']]['ty'].replace('&mut ', '').replace('&', '')
    facts = body.facts
    # every write to this field anywhere in the crate
    for b in facts.bodies:
        for bb, i, dpl, drv in b.assigns():
            if not dpl['p'] or proj_key(dpl['p']) != fld:
                continue
            if b.locals[dpl['l']]['ty'].replace('&mut ', '').replace('&', '') != base_ty:
                continue
            o = single_origin(trace_operand(b, drv['op'])) if drv['k'] == 'use' else None
            if o is None or o.kind != 'binop' or o.data[2]['op'] not in ('AddWithOverflow', 'SubWithOverflow') or op_const_int(o.data[2]['b']) is None:
                return None
            src = op_place(o.data[2]['a'])
            if src is None or proj_key(src['p']) != fld:
                return None
            if o.data[2]['op'] == 'SubWithOverflow':
                kk = op_const_int(o.data[2]['b'])
                # dominated by an increment >= kk in the same body, with no other decrement between
                incs = []
                for b3, i3, d3, r3 in b.assigns():
                    o3 = single_origin(trace_operand(b, r3['op'])) if r3['k'] == 'use' and d3['p'] and proj_key(d3['p']) == fld else None
                    if o3 is not None and o3.kind == 'binop' and o3.data[2]['op'] == 'AddWithOverflow' and (op_const_int(o3.data[2]['b']) or 0) >= kk and b.dominates(b3, bb) and b3 != bb:
                        incs.append(b3)
                if not incs:
                    return None
    # constructors: constant initial value
    return ('D-balanced', 'the field is only incremented / decremented by constants, and in every body each decrement is dominated by an increment of at least the same amount: it is >= %d here' % k)


def d_index_succ(site):
    """i + k (small constant) where i is an item of a Range<usize> or the index of enumerate():
    i < end <= usize::MAX / i < number of items, so i + 1 cannot overflow"""
    rv = _assert_binop(site)
    if rv is None or rv['op'] != 'AddWithOverflow' or rv.get('aty') != 'usize':
        return None
    k = op_const_int(rv['b'])
    if k is None or not (0 <= k <= 1):
        return None
    body = site.body
    o = single_origin(trace_operand(body, rv['a']))
    if o is None or o.kind != 'callres':
        return None
    rd = o.data.rdef or ''
    if rd.endswith('for std::ops::Range<A>>::next') and o.proj == (('dc', 'Some'), ('f', 0)):
        return ('D-range', 'successor of an item of a Range<usize>: the item is < end <= usize::MAX')
    if rd.startswith('<std::iter::Enumerate<I> as std::iter::Iterator>::next') and o.proj == (('dc', 'Some'), ('f', 0), ('f', 0)):
        return ('D-range', 'successor of an enumerate() index: the index is < the number of items of an in-memory collection')
    return None


def _registry_config_adts(facts):
    """ADT names stored as values of a `HashMap<String, X>` registry static (e.g. the infix operator
    configuration record)"""
    out = set()
    for s in facts.statics:
        m = re.search(r'HashMap<std::string::String, ([\w:]+)>', s['ty'])
        if m and m.group(1) in facts.adt_by_name:
            out.add(m.group(1))
    return out


def _is_precedence(body, op, depth=0):
    """the operand is a registered precedence (field 0 of a registry configuration record),
    possibly doubled, possibly handed in as a parameter of a private helper"""
    if depth > 3:
        return False
    cfg = _registry_config_adts(body.facts)
    origins = trace_operand(body, op)
    if not origins:
        return False
    for o in origins:
        if o.kind == 'callres' and o.proj and o.proj[-1] == ('f', 0) and any(c in o.data.term['dest']['ty'] for c in cfg):
            continue
        if o.kind == 'param' and o.proj == (('f', 0),) and any(c in body.locals[o.data]['ty'] for c in cfg):
            continue
        if o.kind == 'binop' and o.data[2]['op'] in ('MulWithOverflow', 'Mul') and op_const_int(o.data[2]['b']) == 2 and o.proj in ((('f', 0),), ()):
            if _is_precedence(body, o.data[2]['a'], depth + 1):
                continue
            return False
        if o.kind == 'param' and not o.proj and not body.is_closure and body.locals[o.data]['ty'] in ('i32', 'i64'):
            # every call site passes a precedence
            import analysis
            prog = getattr(body.facts, '_prog', None)
            sites = []
            for b2 in body.facts.bodies:
                for c in b2.live_calls:
                    if c.ruid == body.id:
                        sites.append(c)
            if sites and all(o.data - 1 < len(c.args) and _is_precedence(c.body, c.args[o.data - 1], depth + 1) for c in sites):
                continue
            return False
        return False
    return True


def d_bp(site):
    """binding-power arithmetic: 2*p and 2*p +- 1 on a registered precedence p; precedences are
    positive and <= 10^9 by the contract of register_infix_op (C08), so all three fit i32"""
    rv = _assert_binop(site)
    if rv is None or rv.get('aty') not in ('i32', 'i64'):
        return None
    k = op_const_int(rv['b'])
    if rv['op'] == 'MulWithOverflow' and k == 2 and _is_precedence(site.body, rv['a']):
        return ('D-contract', 'left binding power = 2 * registered precedence; precedences are <= 10^9 by the contract of register_infix_op, so 2p < i32::MAX')
    if rv['op'] in ('AddWithOverflow', 'SubWithOverflow') and k == 1 and _is_precedence(site.body, rv['a']):
        return ('D-contract', 'right binding power = left binding power +- 1 on a registered precedence (positive, <= 10^9 by contract)')
    return None


def d_checked_index(site):
    """v[i] / v.remove(i) / v.swap_remove(i) where i is the Ok payload of a local helper `H(.., n)` called with
    n = v.len() of the same vector (not touched in between), and H can return Ok(x) only on the true edge of `x < n`"""
    body = site.body
    c = site.call
    if c is None or len(c.args) < 2:
        return None
    cal = c.callee or ''
    rd = c.rdef or ''
    if not (cal in ('std::vec::Vec::<T, A>::remove', 'std::vec::Vec::<T, A>::swap_remove') or 'Vec<T, A> as std::ops::Index' in rd or 'impl std::ops::Index<I> for [T]' in rd):
        return None
    prog = getattr(body.facts, '_prog', None)
    if prog is None:
        return None
    vo = single_origin(trace_operand(body, c.args[0]))
    io = single_origin(trace_operand(body, c.args[1], through_calls=set(TRANSPARENT_CALLS)))
    if vo is None or io is None or io.kind != 'callres' or io.proj != (('dc', 'Ok'), ('f', 0)) or io.data.ruid is None:
        return None
    hc = io.data
    H = prog.by_id.get(hc.ruid)
    if H is None or not body.dominates(hc.bb, site.bb):
        return None
    # which argument of the helper call is v.len()
    for k, a in enumerate(hc.args):
        lo = _is_len_of(body, single_origin(trace_operand(body, a)))
        if lo is None or (lo.kind, lo.key()[1], lo.proj) != (vo.kind, vo.key()[1], vo.proj):
            continue
        # the vector is not changed between the len() read and the indexed access
        lc = single_origin(trace_operand(body, a)).data
        between = body.reachable_after(lc.bb) & ({site.bb} | {x for x in body.live_blocks if site.bb in body.reachable_after(x)})
        touched = False
        for cc in body.live_calls:
            if cc.bb in between and cc.bb != site.bb and cc is not lc and cc.args:
                ro = single_origin(trace_operand(body, cc.args[0]))
                if ro is not None and (ro.kind, ro.key()[1], ro.proj) == (vo.kind, vo.key()[1], vo.proj) and (cc.term['arg_tys'] or [''])[0].startswith('&mut '):
                    touched = True
        if touched:
            continue
        # in H: every Ok(x) is edge-dominated by the true edge of x < n
        n = k + 1
        oks = [(bb, rv) for bb, i, pl, rv in H.assigns() if pl['l'] == 0 and not pl['p'] and rv['k'] == 'agg' and rv.get('variant') == 'Ok']
        if not oks or any(Call(H, bb, H.blocks[bb]['term']).dest['l'] == 0 for bb in H.live_blocks
                          if H.blocks[bb]['term']['k'] == 'call' and Call(H, bb, H.blocks[bb]['term']).callee != 'std::ops::FromResidual::from_residual'):
            continue
        good = True
        for bb, rv in oks:
            xo = single_origin(trace_operand(H, rv['ops'][0]))
            found = False
            for sb in sorted(H.live_blocks):
                t = H.blocks[sb]['term']
                if t['k'] != 'switch':
                    continue
                do = single_origin(trace_operand(H, t['discr']))
                if do is None or do.kind != 'binop' or do.data[2]['op'] not in ('Lt', 'Gt', 'Ge', 'Le'):
                    continue
                ao = single_origin(trace_operand(H, do.data[2]['a']))
                bo = single_origin(trace_operand(H, do.data[2]['b']))
                op = do.data[2]['op']
                def is_x(o):
                    return o is not None and xo is not None and (o.kind, o.key()[1], o.proj) == (xo.kind, xo.key()[1], xo.proj)
                def is_n(o):
                    return o is not None and o.kind == 'param' and o.data == n and not o.proj
                # edge on which x < n holds
                want = None
                if op == 'Lt' and is_x(ao) and is_n(bo): want = 1
                if op == 'Gt' and is_n(ao) and is_x(bo): want = 1
                if op == 'Ge' and is_x(ao) and is_n(bo): want = 0
                if op == 'Le' and is_n(ao) and is_x(bo): want = 0
                if want is None:
                    continue
                for v, tb in switch_edges(H, sb):
                    truth = (1 if v != 0 else 0) if v != 'otherwise' else (1 if [x for x, _ in t['targets']] == [0] else 0)
                    if truth == want and edge_dominates(H, sb, tb, bb):
                        found = True
            if not found:
                good = False
        if good:
            return ('D-range', 'index = Ok payload of %s(.., len(v)), which returns Ok(x) only where x < its length parameter; the same un-mutated Vec' % H.name.split('::')[-1])
    return None


DISCHARGERS = [d_guard, d_total, d_lock, d_range, d_len_eq, d_bp, d_vetted, d_counter, d_balanced, d_index_succ, d_len_plus, d_len_sum, d_checked_index]


def evaluate(bodies, extra_dischargers=(), rule='PANIC'):
    """run the inventory over `bodies`; returns (obligations, sites)"""
    obs = []
    all_sites = []
    for body in bodies:
        for s in sites_of(body):
            all_sites.append(s)
            res = None
            for d in list(DISCHARGERS) + list(extra_dischargers):
                res = d(s)
                if res:
                    break
            key = '%s|%s' % (rule, s.key)
            if res:
                st = assumed if res[0] == 'D-lock' else ok
                obs.append(st(rule, key, '%s at %s: %s — discharged by %s: %s' % (s.cls, s.callee, s.reason, res[0], res[1]), s.where(), discharge=res[0],
                              **({'body': s.body.name, 'bb': s.bb} if res[0] == 'D-contract' else {})))
            else:
                obs.append(bad(rule, key, 'undischarged panic site: %s %s (%s) in %s' % (s.cls, s.callee, s.reason, s.body.name), s.where(),
                               body=s.body.name, bb=s.bb, callee=s.callee, cls=s.cls))
    return obs, all_sites
