"""TDESC (C18): descriptor store key agreement and describe() dispatch."""
import re
from facts import op_local, op_place, Call
from analysis import (defuse, trace_operand, trace_local, single_origin, TRANSPARENT_CALLS, dyn_fn_class, proj_key)
from engine import ok, bad, assumed, floor
import r_misc

DESCRIBE = "parser::ExprAST::<'a>::describe"
THROUGH = set(TRANSPARENT_CALLS) | {'std::clone::Clone::clone', 'std::string::ToString::to_string', 'std::borrow::ToOwned::to_owned',
                                    'std::convert::Into::into', 'std::convert::From::from'}
NAME_ALIAS = {'stmt': 'chain', 'chain': 'chain'}


def store_types(prog):
    """(key enum, value enum) of the DESCRIPTOR static, read from its HashMap<K, V> type"""
    for s in prog.f.statics:
        if r_misc.classify_static(s) == 'DESCRIPTOR':
            m = re.search(r'HashMap<([\w:]+), ([\w:]+)>', s['ty'])
            if m:
                return m.group(1), m.group(2)
    return None, None


def _oid(b):
    return getattr(b, 'orig_id', b.id)


class DescModel:
    def __init__(self, prog):
        self.prog = prog
        self.K, self.V = store_types(prog)
        self.key_bodies = {}   # body id -> set of key variants constructed
        self.val_built = {}    # body id -> set of value variants constructed
        self.val_matched = {}  # body id -> set of value variants whose payload is extracted
        self.views = {}        # body id -> the view it was read in (higher-order helpers / closures / trivial constructors opened)
        if not self.K:
            return
        # read each body that deals with keys / descriptors with its private higher-order helpers, the closures handed to
        # them and trivial constructors opened (`self.lookup(DescriptorKey::binary(op), |found| match found { .. }, ..)`);
        # pure constructor helpers (`fn binary(op) -> DescriptorKey`) are not getters or setters themselves
        def _ho(g):
            return not g.is_closure and not g.j.get('reachable', g.is_pub) and any(
                re.search(r'Fn(Mut|Once)?\(', g.locals[k]['ty']) or 'closure@' in g.locals[k]['ty'] or re.match(r'^(&(mut )?)?[A-Z]\w{0,3}$', g.locals[k]['ty'])
                for k in range(1, g.arg_count + 1))
        scan = []
        swallowed = set()
        for b in prog.bodies:
            if b.is_closure:
                continue
            if b.locals[0]['ty'] in (self.K, self.V) and not any(self.K in b.locals[k]['ty'] or self.V in b.locals[k]['ty'] for k in range(1, b.arg_count + 1)):
                continue
            if not any(self.K in l['ty'] or self.V in l['ty'] for l in b.locals):
                scan.append(b)
                continue
            # ... and projection methods of the descriptor itself (`fn as_binary(&self) -> Option<Arc<..>>`)
            def _proj(g):
                return not g.is_closure and not g.j.get('reachable', g.is_pub) and g.arg_count == 1 and self.V in g.locals[1]['ty'] \
                    and g.locals[0]['ty'].startswith('std::option::Option<')
            v = prog.view(b, keep=lambda g: not (_ho(g) or _proj(g)), tag='desc-ho')
            if getattr(v, 'is_view', False):
                swallowed |= set(v.j.get('inlined') or [])
                self.views[b.id] = v
            scan.append(v)
        for b in prog.bodies:
            if b.is_closure and b.name not in swallowed:
                scan.append(b)
        for b0 in scan:
            b = b0
            for bb, i, pl, rv in b.assigns():
                if rv['k'] == 'agg' and rv['agg'] == 'adt':
                    if rv['adt'] == self.K:
                        self.key_bodies.setdefault(_oid(b), set()).add(rv['variant'])
                    elif rv['adt'] == self.V:
                        self.val_built.setdefault(_oid(b), set()).add(rv['variant'])
                # unit variants may appear as constants instead of aggregates
                for op in _rv_operands(rv):
                    self._const_variant(b, op)
                # payload extraction: a use of ((_x as VARIANT).k) with _x : V
                for op in _rv_operands(rv):
                    opl = op_place(op)
                    if opl is None:
                        continue
                    self._downcasts(b, opl)
                if rv['k'] in ('ref', 'copy_for_deref'):
                    self._downcasts(b, rv['pl'])
            for c in b.live_calls:
                for a in c.args:
                    self._const_variant(b, a)

    def _const_variant(self, b, op, depth=0):
        if isinstance(op, dict) and op.get('k') == 'const' and 'promoted' in op and 'uneval_uid' in op and depth == 0:
            pb = b.facts.promoted.get('%s::promoted[%d]' % (op['uneval_uid'], op['promoted']))
            if pb is not None:
                for bb in range(pb.n):
                    for st in pb.blocks[bb]['stmts']:
                        if st['k'] != 'assign':
                            continue
                        rv = st['rv']
                        if rv['k'] == 'agg' and rv['agg'] == 'adt' and rv['adt'] == self.K:
                            self.key_bodies.setdefault(_oid(b), set()).add(rv['variant'])
                        for o2 in _rv_operands(rv):
                            self._const_variant(b, o2, 1)
            return
        if isinstance(op, dict) and op.get('k') == 'const':
            ty = op.get('ty', '')
            m = re.search(r'::(\w+)$', op.get('s', ''))
            if m and ty == self.K:
                self.key_bodies.setdefault(_oid(b), set()).add(m.group(1))
            elif m and ty == self.V:
                self.val_built.setdefault(_oid(b), set()).add(m.group(1))

    def _downcasts(self, b, pl):
        ty = b.locals[pl['l']]['ty']
        cur = ty
        for e in pl['p']:
            if isinstance(e, dict) and 'dc' in e:
                if cur.lstrip('&').strip() == self.V or cur.endswith(self.V):
                    self.val_matched.setdefault(_oid(b), set()).add(e['dc'])
            if isinstance(e, dict) and 'ty' in e:
                cur = e['ty']
            elif e == 'deref':
                cur = cur.lstrip('&').replace('mut ', '', 1).strip()


def _rv_operands(rv):
    k = rv['k']
    if k in ('use', 'cast', 'repeat'):
        return [rv['op']]
    if k == 'binop':
        return [rv['a'], rv['b']]
    if k == 'unop':
        return [rv['a']]
    if k == 'agg':
        return rv['ops']
    return []


def rule_keys(dm):
    prog = dm.prog
    obs = []
    if not dm.K:
        return [bad('TDESC', 'TDESC|store', 'anchor lost: no descriptor store static (Mutex<HashMap<Key, Descriptor>>) found')]
    ka, va = prog.f.adt_by_name.get(dm.K), prog.f.adt_by_name.get(dm.V)
    kn = [v['name'] for v in ka['variants']] if ka else []
    vn = [v['name'] for v in va['variants']] if va else []
    if kn != vn:
        obs.append(bad('TDESC', 'TDESC|enums', 'the key enum %s and the value enum %s do not declare the same variant list: %s vs %s' % (dm.K, dm.V, kn, vn)))
    else:
        obs.append(ok('TDESC', 'TDESC|enums', 'key enum and value enum declare the same %d variants: %s' % (len(kn), kn)))
    # key enum must derive Hash + Eq (key separation)
    derived = {(i['self'], i.get('trait')): i.get('derived') for i in prog.f.impls}
    for tr in ('std::hash::Hash', 'std::cmp::PartialEq', 'std::cmp::Eq'):
        d = derived.get((dm.K, tr))
        key = 'TDESC|derive|%s' % tr
        if d is True:
            obs.append(ok('TDESC', key, '%s derives %s: distinct kinds / names are distinct keys' % (dm.K, tr)))
        else:
            obs.append(bad('TDESC', key, '%s has %s %s impl: key separation no longer follows from the derive' % (dm.K, 'a hand-written' if d is False else 'no', tr)))
    setters, getters = {}, {}
    for bid, kvs in sorted(dm.key_bodies.items()):
        b = prog.by_id[bid]
        built = dm.val_built.get(bid, set())
        matched = dm.val_matched.get(bid, set())
        for kv in sorted(kvs):
            if built:
                key = 'TDESC|setter|%s' % kv
                setters.setdefault(kv, []).append(b)
                if built == {kv}:
                    obs.append(ok('TDESC', key, '%s stores value variant %s under key variant %s' % (b.name, kv, kv), b.where()))
                else:
                    obs.append(bad('TDESC', key, '%s stores value variant %s under key variant %s: a descriptor registered for one kind lands under another kind\'s key' % (b.name, sorted(built), kv), b.where(), body=b.name))
            if matched or not built:
                key = 'TDESC|getter|%s|%s' % (kv, ','.join(sorted(matched)) or '-')
                getters.setdefault(kv, []).append(b)
                if matched == {kv}:
                    obs.append(ok('TDESC', 'TDESC|getter|%s' % kv, '%s looks up key variant %s and extracts value variant %s' % (b.name, kv, kv), b.where()))
                elif not matched:
                    obs.append(bad('TDESC', key, '%s builds key variant %s but extracts no descriptor' % (b.name, kv), b.where(), body=b.name))
                else:
                    obs.append(bad('TDESC', key, '%s looks up key variant %s but extracts value variant %s: the registered descriptor of this kind is never found (and another kind\'s entry is consulted)' % (b.name, kv, sorted(matched)), b.where(), body=b.name))
            # name-carrying kinds: the String parameter goes into the key unchanged
            for bb, i, pl, rv in b.assigns():
                if rv['k'] == 'agg' and rv['agg'] == 'adt' and rv['adt'] == dm.K and rv['variant'] == kv and rv['ops']:
                    # `name.to_string()` / `to_owned()` / `String::from(name)` / `into()` copy the text unchanged
                    o = single_origin(trace_operand(b, rv['ops'][0], through_calls=set(TRANSPARENT_CALLS) | {
                        'std::string::ToString::to_string', 'std::borrow::ToOwned::to_owned', 'std::convert::From::from', 'std::convert::Into::into', 'std::clone::Clone::clone'}))
                    k2 = 'TDESC|keyname|%s|%s' % (b.name, kv)
                    if o is not None and o.kind == 'param' and not o.proj:
                        obs.append(ok('TDESC', k2, 'the name in the key is parameter %d, unchanged' % o.data, b.where(bb)))
                    else:
                        obs.append(bad('TDESC', k2, 'the name stored in the %s key is not the (unchanged) name parameter: %r' % (kv, o), b.where(bb), body=b.name))
    for v in kn:
        for role, table in (('setter', setters), ('getter', getters)):
            key = 'TDESC|pair|%s|%s' % (role, v)
            n = len(table.get(v, []))
            if n == 1:
                obs.append(ok('TDESC', key, 'exactly one %s for kind %s' % (role, v)))
            elif role == 'getter' and n == 0:
                obs.append(bad('TDESC', key, 'no getter looks up key variant %s: descriptors registered for that kind are never used' % v))
            elif n != 1:
                obs.append(bad('TDESC', key, '%d %ss build key variant %s (expected 1)' % (n, role, v)))
    obs.append(floor('TDESC', 'key-variants', len(kn), 9, 'nine node kinds have descriptors'))
    return obs, getters


def _absent_region(prog, dm, b):
    """blocks of getter b on the absent-key path: reachable from the true edge of is_none (or the
    None edge of a discriminant switch) on the Option<value enum> returned by the store lookup"""
    from r_panic import bool_source, switch_edges
    out = None
    du = defuse(b)
    for bb in sorted(b.live_blocks):
        t = b.blocks[bb]['term']
        if t['k'] != 'switch':
            continue
        src = bool_source(b, t['discr'])
        if src is not None:
            tc, parity = src
            if tc.callee in ('std::option::Option::<T>::is_none', 'std::option::Option::<T>::is_some') and dm.V in ' '.join(tc.term['arg_tys']):
                want = 1 if tc.callee.endswith('is_none') else 0
                want ^= parity
                for v, tb in switch_edges(b, bb):
                    truth = None
                    if v == 'otherwise':
                        listed = [x for x, _ in t['targets']]
                        truth = 1 if listed == [0] else (0 if listed == [1] else None)
                    else:
                        truth = 1 if v != 0 else 0
                    if truth == want:
                        out = (out or set()) | b.reachable_from(tb)
        else:
            l = op_local(t['discr'])
            defs = du.defs.get(l, []) if l is not None else []
            if len(defs) == 1 and defs[0][2] == 'assign' and defs[0][3]['k'] == 'discr':
                ty = defs[0][3]['pl']['ty']
                if ty.startswith('std::option::Option<') and dm.V in ty:
                    listed = {v for v, _ in t['targets']}
                    for v, tb in switch_edges(b, bb):
                        if v == 0 or (v == 'otherwise' and 0 not in listed):
                            out = (out or set()) | b.reachable_from(tb)
    return out


def rule_fallback(dm, getters):
    """the absent-key path of a getter returns one default fn item, used as the absent-key default
    of no other kind.  (The wrong-variant arm is dead code once key agreement holds and is not
    judged.)"""
    prog = dm.prog
    obs = []
    fb = {}
    for kv, bs in getters.items():
        for b in bs:
            b = dm.views.get(b.id, b)
            region = _absent_region(prog, dm, b)
            if region is None:
                obs.append(bad('TDESC', 'TDESC|fallback|%s' % kv, 'cannot find the absent-key path of %s (no is_none / None test on the store lookup)' % b.name, b.where(), body=b.name))
                continue
            for c in b.live_calls:
                if c.bb not in region:
                    continue
                for a in c.args:
                    if a['k'] == 'const' and 'fn' in a and a['fn'].get('local'):
                        fb.setdefault(kv, {}).setdefault(a['fn']['uid'], []).append(c)
    owner = {}
    for kv, m in fb.items():
        for fu in m:
            owner.setdefault(fu, set()).add(kv)
    for kv in sorted(getters):
        if kv not in fb:
            if not any(o.key == 'TDESC|fallback|%s' % kv for o in obs):
                obs.append(bad('TDESC', 'TDESC|fallback|%s' % kv, 'kind %s has no default descriptor on its absent-key path' % kv, getters[kv][0].where(), body=getters[kv][0].name))
            continue
        m = fb[kv]
        key = 'TDESC|fallback|%s' % kv
        names = sorted(prog.by_id[f].name if f in prog.by_id else f for f in m)
        if len(m) != 1:
            obs.append(bad('TDESC', key, 'kind %s has several absent-key defaults %s' % (kv, names), getters[kv][0].where(), body=getters[kv][0].name))
            continue
        fu = next(iter(m))
        if len(owner[fu]) == 1:
            obs.append(ok('TDESC', key, 'when nothing is registered, kind %s falls back to %s, which is the default of no other kind' % (kv, names[0])))
        else:
            obs.append(bad('TDESC', key, 'when nothing is registered, kind %s falls back to %s, which is the default of kind %s' % (kv, names[0], sorted(owner[fu] - {kv})),
                           getters[kv][0].where(), body=getters[kv][0].name))
    return obs


def rule_dispatch(dm, getters):
    prog = dm.prog
    ds = [b for b in prog.bodies if b.name == DESCRIBE]
    if not ds:
        return [bad('TDESC', 'TDESC|describe', 'anchor lost: public ExprAST::describe not found')]
    ds = [_render_root(prog, ds[0])]
    first = _rule_dispatch(dm, getters, ds[0])
    if not any(o.status == 'violated' for o in first):
        return first
    v = prog.view(ds[0], keep=lambda g: g.is_pub or bool(g.impl_trait), tag='describe')
    if v is not ds[0]:
        second = _rule_dispatch(dm, getters, v)
        from engine import covers
        if covers([o for o in first if '|dispatch|bb' not in o.key], second) and not any(o.status == 'violated' for o in second):
            for o in second:
                o.what += ' [read with private helpers inlined]'
            return second
    return first


def _render_root(prog, d0):
    """`pub fn describe(&self) -> String { self.describe_with(&DescriptorManager::new()) }`: the public entry hands its
    node, unchanged, to a private body that recurses over the tree; that body is the renderer the clauses speak about"""
    if any(c.is_virtual and dyn_fn_class(c.term['arg_tys'][0] if c.term['arg_tys'] else '') == 'descriptor' for c in d0.live_calls):
        return d0
    cands = []
    for c in d0.live_calls:
        g = prog.by_id.get(c.ruid) if c.ruid else None
        if g is None or g.is_closure or not c.args or g.locals[0]['ty'] != d0.locals[0]['ty']:
            continue
        o = single_origin(trace_operand(d0, c.args[0], through_calls=set(TRANSPARENT_CALLS)))
        if o is None or o.kind != 'param' or o.data != 1 or o.proj:
            continue
        if g.id in prog.reach([g.id]) and any(cc.ruid == g.id for b2 in [prog.by_id[i] for i in prog.reach([g.id])] for cc in b2.live_calls):
            cands.append(g)
    if len(cands) == 1 and d0.locals[0]['ty'] == cands[0].locals[0]['ty']:
        # the wrapper returns the callee's result as is
        ro = single_origin(trace_local(d0, 0, (), through_calls=set()))
        if ro is not None and ro.kind == 'callres' and ro.data.ruid == cands[0].id and not ro.proj:
            return cands[0]
    return d0


def _rule_dispatch(dm, getters, d):
    """describe(): each AST variant arm uses the getter of its own kind, passes the node's own
    name, and applies the descriptor to the children's describe() results in field order"""
    prog = dm.prog
    obs = []
    getter_kind = {}
    for kv, bs in getters.items():
        for b in bs:
            getter_kind[b.id] = kv
    used = {}
    sites = [c for c in d.live_calls if c.is_virtual and dyn_fn_class(c.term['arg_tys'][0] if c.term['arg_tys'] else '') == 'descriptor']
    for c in sites:
        # the argument tuple
        tup = single_origin(trace_operand(d, c.args[1], through_calls=set()))
        elems = []
        if tup is not None and tup.kind == 'agg' and tup.data[2]['agg'] == 'tuple':
            elems = tup.data[2]['ops']
        variant = None
        descr = []
        problems = []
        for e in elems:
            kind, v, fld = _classify_arg(prog, d, e)
            descr.append((kind, v, fld))
            if v is not None:
                if variant is None:
                    variant = v
                elif variant != v:
                    problems.append('arguments come from different node kinds (%s and %s)' % (variant, v))
            if kind == 'unknown':
                problems.append('an argument is neither the node\'s name nor describe() of a child')
        # the getter
        recv = single_origin(trace_operand(d, c.args[0], through_calls=set(TRANSPARENT_CALLS)))
        g = None
        if recv is not None and recv.kind == 'callres' and recv.data.ruid in getter_kind:
            g = recv.data
        key = 'TDESC|dispatch|%s' % (variant or ('bb%d' % c.bb))
        if g is None:
            obs.append(bad('TDESC', key, 'the descriptor invoked for %s does not come from a descriptor-store getter' % variant, c.where(), body=d.name, bb=c.bb))
            continue
        kv = getter_kind[g.ruid]
        used.setdefault(kv, []).append(variant)
        # name passed to the getter = the node's own name field
        if len(g.args) > 1:
            kind, v, fld = _classify_arg(prog, d, g.args[1])
            if kind != 'name' or v != variant:
                problems.append('the getter is asked for a name that is not this node\'s own name field')
        # children in field order; names before / after as the signature demands is compiler-checked
        child_fields = [fld for (kind, v, fld) in descr if kind in ('child', 'children')]
        if child_fields != sorted(child_fields):
            problems.append('children are passed out of field order: %s' % child_fields)
        adt = prog.f.adt_by_name.get('parser::ExprAST')
        if adt and variant:
            vdef = [v for v in adt['variants'] if v['name'] == variant]
            if vdef:
                want = [i for i, f in enumerate(vdef[0]['fields']) if 'parser::ExprAST' in f['ty']]
                if sorted(child_fields) != want:
                    problems.append('not every child is rendered exactly once: fields %s, rendered %s' % (want, child_fields))
        a, b = (variant or '').lower(), kv.lower()
        a = NAME_ALIAS.get(a, a)
        b = NAME_ALIAS.get(b, b)
        if a != b:
            problems.append('node kind %s is rendered with the descriptor of kind %s' % (variant, kv))
        if problems:
            obs.append(bad('TDESC', key, '; '.join(problems), c.where(), body=d.name, bb=c.bb))
        else:
            obs.append(ok('TDESC', key, '%s nodes use the %s getter with their own name and children %s in order' % (variant, kv, child_fields), c.where()))
    # injectivity
    for kv, vs in used.items():
        if len(set(vs)) > 1:
            obs.append(bad('TDESC', 'TDESC|inject|%s' % kv, 'node kinds %s share the descriptor kind %s' % (sorted(set(vs)), kv)))
    obs.append(floor('TDESC', 'descriptor-call-sites', len(sites), 9, 'one descriptor invocation per node kind'))
    return obs


def _classify_arg(prog, d, op):
    """('name', variant, field) | ('child', variant, field) | ('children', variant, field) | ('unknown', None, None)"""
    o = single_origin(trace_operand(d, op, through_calls=THROUGH))
    if o is None:
        return ('unknown', None, None)
    if o.kind == 'param' and o.data == 1 and len(o.proj) >= 2 and o.proj[0][0] == 'dc' and o.proj[1][0] == 'f':
        return ('name', o.proj[0][1], o.proj[1][1])
    did = getattr(d, 'orig_id', d.id)
    if o.kind == 'callres':
        c = o.data
        if c.callee in ('std::vec::Vec::<T>::new', 'std::vec::Vec::<T>::with_capacity') and not o.proj:
            # the loop an iterator pipeline was desugared to (view): V = Vec::new(); loop { V.push(describe(item)) }
            import r_order
            res = set()
            for pc in d.live_calls:
                if pc.callee != 'std::vec::Vec::<T, A>::push' or len(pc.args) < 2:
                    continue
                vo = single_origin(trace_operand(d, pc.args[0], through_calls=set()))
                if vo is None or vo.kind != 'callres' or vo.data.bb != c.bb:
                    continue
                xo = single_origin(trace_operand(d, pc.args[1], through_calls=THROUGH))
                parts = [xo]
                if xo is not None and xo.kind == 'agg' and xo.data[2].get('agg') == 'tuple' and not xo.proj:
                    # a (key, value) entry: each component is describe() of the matching component of the item
                    parts = [single_origin(trace_operand(d, e, through_calls=THROUGH)) for e in xo.data[2]['ops']]
                io = None
                for k, po in enumerate(parts):
                    if po is None or po.kind != 'callres' or po.data.ruid != did or not po.data.args:
                        return ('unknown', None, None)
                    io = single_origin(trace_operand(d, po.data.args[0], through_calls=THROUGH))
                    want_tail = () if len(parts) == 1 else (('f', k),)
                    if io is None or io.kind != 'callres' or not r_order.FORWARD_NEXT_RE.match(io.data.rdef or '') or io.proj[:2] != (('dc', 'Some'), ('f', 0)) or io.proj[2:] != want_tail:
                        return ('unknown', None, None)
                it = single_origin(trace_operand(d, io.data.args[0], through_calls=THROUGH))
                hops = 0
                while it is not None and it.kind == 'callres' and it.data.callee in r_order.FORWARD_ITER_MAKERS and hops < 3:
                    it = single_origin(trace_operand(d, it.data.args[0], through_calls=THROUGH))
                    hops += 1
                if it is not None and it.kind == 'param' and it.data == 1 and len(it.proj) >= 2 and it.proj[0][0] == 'dc':
                    res.add(('children', it.proj[0][1], it.proj[1][1]))
                else:
                    return ('unknown', None, None)
            if len(res) == 1:
                return next(iter(res))
            return ('unknown', None, None)
        if c.ruid == did and c.args:
            r = single_origin(trace_operand(d, c.args[0], through_calls=THROUGH))
            if r is not None and r.kind == 'param' and r.data == 1 and len(r.proj) >= 2 and r.proj[0][0] == 'dc':
                return ('child', r.proj[0][1], r.proj[1][1])
        if c.callee == 'std::iter::Iterator::collect' and c.args:
            m = single_origin(trace_operand(d, c.args[0], through_calls=set()))
            if m is not None and m.kind == 'callres' and m.data.callee == 'std::iter::Iterator::map':
                src = m.data.args[0]
                it = single_origin(trace_operand(d, src, through_calls=set()))
                hops = 0
                while it is not None and it.kind == 'callres' and re.search(r'(::into_iter|<impl \[T\]>::iter|Vec::<T, A>::iter)$', it.data.callee or '') and hops < 3:
                    nxt = single_origin(trace_operand(d, it.data.args[0], through_calls=set(TRANSPARENT_CALLS)))
                    if nxt is not None and nxt.kind == 'param':
                        it = nxt
                        break
                    it = nxt
                    hops += 1
                if it is not None and it.kind == 'param' and it.data == 1 and len(it.proj) >= 2 and it.proj[0][0] == 'dc':
                    # the closure must call describe on its item
                    clo = [cu for cu, calls in prog.closure_passed.items() if any(cc.body is d and cc.bb == m.data.bb for cc in calls)]
                    if clo and clo[0] in prog.by_id and any(cc.ruid == did for cc in prog.by_id[clo[0]].live_calls):
                        return ('children', it.proj[0][1], it.proj[1][1])
    return ('unknown', None, None)
