"""Newtype erasure: read a program that wraps a primitive integer in a private / public single-field struct
(`struct Precedence(i32)`, `struct BindingPower(i32)`) as the program over the primitive it stands for.

A newtype over an integer adds no behaviour by itself: construction is the identity on the field, `.0` is the identity,
and the *derived* comparison impls compare the field.  The rules that reason about binding powers (WGATE / WASSOC /
TPREC / D-contract) read primitive comparisons, `2 * p` / `± 1` arithmetic and `(i32, i32)` pairs; with the wrapper
erased they read the same program.  Erased, in the fact JSON, before any Body is built:

  * `T(x)` aggregates                      -> `x`
  * the field projection `.0` on a T place  -> nothing
  * derived `PartialOrd::{lt,le,gt,ge}` / `PartialEq::{eq,ne}` calls on two `&T` -> the primitive comparison
  * a struct all of whose fields are (newtypes over) one primitive, with at least one newtype field
    (`struct InfixBindingPower { left: BindingPower, right: BindingPower }`) -> the tuple of the primitives
  * the type names in every type string
  * `use` of an unevaluated constant of an erased type whose own body is one assignment (`BindingPower::MIN`) -> that value

Only structs whose impls for the comparison traits are *derived* are erased (a hand-written `PartialOrd` could order
differently); on the pinned tree nothing qualifies and the facts are returned unchanged.
"""
import re, copy

PRIMS = {'i8', 'i16', 'i32', 'i64', 'i128', 'isize', 'u8', 'u16', 'u32', 'u64', 'u128', 'usize'}
SKIP_KEYS = {'id', 'name', 's', 'def', 'path', 'uid', 'impl_self', 'parent', 'uneval', 'uneval_uid', 'file', 'closure', 'static', 'variant', 'adt'}
CMP = {'std::cmp::PartialOrd::lt': 'Lt', 'std::cmp::PartialOrd::le': 'Le', 'std::cmp::PartialOrd::gt': 'Gt', 'std::cmp::PartialOrd::ge': 'Ge',
       'std::cmp::PartialEq::eq': 'Eq', 'std::cmp::PartialEq::ne': 'Ne'}


def _strip_ref(ty):
    return re.sub(r"^&('\w+ )?(mut )?", '', ty)


def discover(j):
    impls = j.get('impls', [])
    hand = set()          # types with a hand-written comparison impl
    for im in impls:
        tr = (im.get('trait') or '')
        if tr.split('<')[0] in ('std::cmp::PartialOrd', 'std::cmp::PartialEq', 'std::cmp::Ord') and not im.get('derived', im.get('automatically_derived', False)):
            hand.add(_strip_ref(im.get('self_ty') or im.get('self') or ''))
    nt = {}
    for a in j['adts']:
        if a.get('kind') == 'Struct' and len(a['variants']) == 1 and len(a['variants'][0]['fields']) == 1:
            fty = a['variants'][0]['fields'][0]['ty']
            if fty in PRIMS and a['name'] not in hand and '<' not in a['name']:
                nt[a['name']] = fty
    tup = {}
    for a in j['adts']:
        if a['name'] in nt or a.get('kind') != 'Struct' or len(a['variants']) != 1 or a['name'] in hand or '<' in a['name']:
            continue
        fs = a['variants'][0]['fields']
        ftys = [nt.get(f['ty'], f['ty']) for f in fs]
        if len(fs) >= 2 and all(t in PRIMS for t in ftys) and any(f['ty'] in nt for f in fs):
            tup[a['name']] = '(%s)' % ', '.join(ftys)
        elif len(fs) == 2 and ftys[0] == ftys[1] and ftys[0] in ('i32', 'i64'):
            # `struct Bp { left: i32, right: i32 }`: a pair of signed integers under a name (binding powers); positions
            # (`usize`) keep their struct — `Span` is a role of its own
            tup[a['name']] = '(%s)' % ', '.join(ftys)
    return nt, tup


def inline_literal_consts(j):
    """`const CLOSE_BRACKET: &str = "]"`, `const COMMA: char = ','`, `precedence::ADDITIVE = 110`: an operand that names a
    constant item whose own body is one assignment of a literal is that literal.  (Operands of unevaluated constants
    with any other body — arrays, struct values, arithmetic — are left alone.)"""
    cb = {b['id']: b for b in j['bodies']}
    memo = {}

    def lit(uid, depth=0):
        if uid in memo:
            return memo[uid]
        memo[uid] = None
        b = cb.get(uid)
        if b is None or depth > 3 or len(b['blocks']) != 1 or b['blocks'][0]['term']['k'] != 'return':
            return None
        asg = [st for st in b['blocks'][0]['stmts'] if st['k'] == 'assign']
        if len(asg) != 1 or asg[0]['pl']['l'] != 0 or asg[0]['pl']['p'] or asg[0]['rv']['k'] != 'use':
            return None
        op = asg[0]['rv']['op']
        if op.get('k') != 'const' or 'static' in op or 'fn' in op:
            return None
        if op.get('uneval_uid') and 'promoted' not in op:
            v = lit(op['uneval_uid'], depth + 1)
        elif 'uneval_uid' in op or 'promoted' in op:
            v = None
        elif 'int' in op or (isinstance(op.get('s'), str) and op['s'].startswith('"') and op.get('ty') in ('&str', "&'static str")):
            v = op
        else:
            v = None
        memo[uid] = v
        return v

    def fix(op):
        if isinstance(op, dict) and op.get('k') == 'const' and op.get('uneval_uid') and 'promoted' not in op and 'static' not in op:
            v = lit(op['uneval_uid'])
            if v is not None:
                n = dict(v)
                n['named'] = op.get('s')
                return n
        return op
    n = 0
    for b in list(j['bodies']) + list(j.get('promoted', [])):
        for blk in b['blocks']:
            for st in blk['stmts']:
                if st['k'] != 'assign':
                    continue
                rv = st['rv']
                if rv['k'] in ('use', 'cast', 'repeat'):
                    rv['op'] = fix(rv['op'])
                elif rv['k'] == 'binop':
                    rv['a'], rv['b'] = fix(rv['a']), fix(rv['b'])
                elif rv['k'] == 'unop':
                    rv['a'] = fix(rv['a'])
                elif rv['k'] == 'agg':
                    rv['ops'] = [fix(o) for o in rv['ops']]
            t = blk['term']
            if t['k'] == 'call':
                t['args'] = [fix(a) for a in t['args']]
            elif t['k'] == 'switch':
                t['discr'] = fix(t['discr'])
    return j


def devirtualise_single_impl(j):
    """`fn accept<V: Visitor>(&self, v: &mut V)` with `v.binary(..)` inside: a call of a method of a crate-local trait on a
    generic type, where the trait cannot be named from outside the crate and has exactly one impl — the generic type can
    only be that impl's type, so the call is a direct call of that impl's method (closed world, one candidate)."""
    by_trait = {}
    for im in j.get('impls', []):
        if im.get('trait') and im.get('trait_local'):
            by_trait.setdefault(im['trait'], []).append(im)
    single = {t for t, ims in by_trait.items() if len(ims) == 1 and not ims[0].get('trait_reachable', True)}
    if not single:
        return j
    meth = {}
    for b in j['bodies']:
        t = (b.get('impl_trait') or '').split('<')[0]
        if t in single and not b.get('closure'):
            meth[(t, b['name'].rsplit('::', 1)[-1])] = b
    for b in j['bodies']:
        for blk in b['blocks']:
            t = blk['term']
            if t['k'] != 'call' or not isinstance(t.get('func'), dict) or not t['func'].get('fn'):
                continue
            fn = t['func']['fn']
            if (fn.get('resolved') or {}).get('kind') not in ('unresolved', 'error', None) or not fn.get('local'):
                continue
            tr = (fn.get('trait') or '').split('<')[0]
            m = meth.get((tr, (fn.get('def') or '').rsplit('::', 1)[-1]))
            if tr in single and m is not None:
                fn['resolved'] = {'kind': 'item', 'def': m['name'], 'uid': m['id'], 'local': True, 'crate': fn.get('crate'), 'impl_self': m.get('impl_self'), 'args': [], 'devirtualised': True}
    return j


def erase(j):
    inline_literal_consts(j)
    devirtualise_single_impl(j)
    nt, tup = discover(j)
    if not nt and not tup:
        return j, {}
    names = sorted(list(nt) + list(tup), key=len, reverse=True)
    rx = re.compile(r"(?<![\w:])(%s)(?![\w]|::)" % '|'.join(re.escape(n) for n in names))
    repl = dict(nt)
    repl.update(tup)

    def retype(s):
        return rx.sub(lambda m: repl[m.group(1)], s)

    const_bodies = {b['id']: b for b in j['bodies']}

    def fix_place(pl, locals_):
        if not isinstance(pl, dict) or 'l' not in pl or 'p' not in pl:
            return
        cur = locals_[pl['l']]['ty'] if pl['l'] < len(locals_) else '?'
        newp = []
        for e in pl['p']:
            if e == 'deref':
                cur = _strip_ref(cur)
                newp.append(e)
            elif isinstance(e, dict) and 'f' in e:
                if cur in nt and e['f'] == 0:
                    cur = nt[cur]
                    continue
                cur = e.get('ty', '?')
                newp.append(e)
            else:
                newp.append(e)
                if not (isinstance(e, dict) and 'dc' in e):
                    cur = '?'
        pl['p'] = newp

    def places_in(x, locals_):
        if isinstance(x, dict):
            if 'l' in x and 'p' in x and isinstance(x['p'], list):
                fix_place(x, locals_)
            for k, v in x.items():
                if k not in ('fn',):
                    places_in(v, locals_)
        elif isinstance(x, list):
            for v in x:
                places_in(v, locals_)

    def const_value(op, depth=0):
        """the rvalue an unevaluated constant of an erased type stands for (its body is one assignment), or None"""
        if depth > 3 or op.get('k') != 'const' or 'uneval_uid' not in op or 'promoted' in op:
            return None
        if _strip_ref(op.get('ty', '')) not in repl:
            return None
        cb = const_bodies.get(op['uneval_uid'])
        if cb is None or len(cb['blocks']) != 1 or cb['blocks'][0]['term']['k'] != 'return':
            return None
        asg = [st for st in cb['blocks'][0]['stmts'] if st['k'] == 'assign']
        if len(asg) != 1 or asg[0]['pl']['l'] != 0 or asg[0]['pl']['p']:
            return None
        return copy.deepcopy(asg[0]['rv'])

    def fix_body(b):
        locals_ = b['locals']
        for blk in b['blocks']:
            # 1. projections (types still carry the newtype names)
            places_in(blk, locals_)
            # 2. aggregates
            for st in blk['stmts']:
                if st['k'] != 'assign':
                    continue
                rv = st['rv']
                if rv['k'] == 'agg' and rv.get('agg') == 'adt' and rv.get('adt') in nt and len(rv['ops']) == 1:
                    st['rv'] = {'k': 'use', 'op': rv['ops'][0]}
                elif rv['k'] == 'agg' and rv.get('agg') == 'adt' and rv.get('adt') in tup:
                    st['rv'] = {'k': 'agg', 'agg': 'tuple', 'ops': rv['ops']}
            # 3. derived comparisons
            t = blk['term']
            if t['k'] == 'call' and isinstance(t.get('func'), dict) and t['func'].get('fn'):
                fn = t['func']['fn']
                op = CMP.get(fn.get('def'))
                targs = [_strip_ref(x) for x in fn.get('args', [])]
                if op and len(t['args']) == 2 and targs and all(x in nt for x in targs[:2]) and t.get('target') is not None \
                        and all(a['k'] in ('move', 'copy') for a in t['args']):
                    prim = nt[targs[0]]
                    ops = []
                    for a in t['args']:
                        pl = copy.deepcopy(a['pl'])
                        pl['p'] = list(pl['p']) + ['deref']
                        pl['ty'] = prim
                        ops.append({'k': 'copy', 'pl': pl})
                    blk['stmts'].append({'k': 'assign', 'pl': t['dest'], 'rv': {'k': 'binop', 'op': op, 'a': ops[0], 'b': ops[1], 'aty': prim}, 'span': blk.get('span')})
                    blk['term'] = {'k': 'goto', 'target': t['target']}

    for b in j['bodies']:
        fix_body(b)
    for p in j.get('promoted', []):
        fix_body(p)
    # 4. constants of erased types used as plain values
    for b in list(j['bodies']) + list(j.get('promoted', [])):
        for blk in b['blocks']:
            for st in blk['stmts']:
                if st['k'] == 'assign' and st['rv']['k'] == 'use':
                    for _ in range(3):
                        v = const_value(st['rv']['op']) if st['rv']['k'] == 'use' else None
                        if v is None:
                            break
                        st['rv'] = v
                if st['k'] == 'assign' and st['rv']['k'] == 'agg':
                    for k, o in enumerate(st['rv']['ops']):
                        for _ in range(3):
                            v = const_value(st['rv']['ops'][k])
                            if v is not None and v['k'] == 'use' and v['op']['k'] == 'const':
                                st['rv']['ops'][k] = v['op']
                            else:
                                break
            t = blk['term']
            if t['k'] == 'call':
                for k, o in enumerate(t['args']):
                    v = const_value(o)
                    if v is not None and v['k'] == 'use' and v['op']['k'] == 'const':
                        t['args'][k] = v['op']

    # 5. type strings
    def walk(x):
        if isinstance(x, dict):
            for k, v in list(x.items()):
                if k in SKIP_KEYS:
                    continue
                if isinstance(v, str):
                    x[k] = retype(v)
                else:
                    walk(v)
        elif isinstance(x, list):
            for i, v in enumerate(x):
                if isinstance(v, str):
                    x[i] = retype(v)
                else:
                    walk(v)
    walk(j['bodies'])
    walk(j.get('promoted', []))
    for a in j['adts']:
        if a['name'] in repl:
            continue
        for v in a['variants']:
            for f in v['fields']:
                f['ty'] = retype(f['ty'])
    for s in j.get('statics', []):
        if isinstance(s.get('ty'), str):
            s['ty'] = retype(s['ty'])
    return j, repl
