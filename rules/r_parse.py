"""Parser / tokenizer roles, token-fact path pruning, and the C05 rules
(WEXPECT, CLOSER, SEP, WPREFIX, STRAY) — DESIGN §4.5."""
import re
from facts import op_local, op_place, op_const_str, Call
from analysis import (defuse, trace_operand, trace_local, single_origin, Origin, TRANSPARENT_CALLS, TRY_BRANCH, FROM_RESIDUAL)
from engine import ok, bad, assumed, floor
import r_errd
from r_panic import edge_dominates, switch_edges, bool_source

AST = 'parser::ExprAST'
THROUGH = set(TRANSPARENT_CALLS) | {'std::clone::Clone::clone'}


class ParseRoles:
    def __init__(self, prog):
        self.prog = prog
        f = prog.f
        # tokenizer ADT: the struct owning a CharIndices
        self.tok_adt = None
        for a in f.adts:
            for v in a['variants']:
                if any(fl['ty'].startswith('std::str::CharIndices<') for fl in v['fields']):
                    self.tok_adt = a
        # the scanning state may be a private struct nested in the tokenizer proper (`struct Tokenizer { cursor: Cursor, .. }`):
        # scan_adt owns input + char iterator, tok_adt is the struct whose `(&mut Self) -> Result<Token>` produces tokens
        self.scan_adt = self.tok_adt
        if self.tok_adt and not any(b.arg_count == 1 and b.locals[1]['ty'].startswith('&mut ' + self.tok_adt['name']) and r_errd.is_crate_result(b.locals[0]['ty'])
                                    for b in prog.bodies if not b.is_closure):
            sn = self.tok_adt['name']
            owners = [a for a in f.adts if a['name'] != sn and len(a['variants']) == 1
                      and any(re.sub(r'<.*$', '', fl['ty']) == sn for fl in a['variants'][0]['fields'])
                      and any(b.arg_count == 1 and b.locals[1]['ty'].startswith('&mut ' + a['name']) and r_errd.is_crate_result(b.locals[0]['ty']) for b in prog.bodies if not b.is_closure)]
            if len(owners) == 1:
                self.tok_adt = owners[0]
        self.tok_name = self.tok_adt['name'] if self.tok_adt else None
        self.scan_names = {a['name'] for a in (self.tok_adt, self.scan_adt) if a}
        self.entry = prog.api('parse_expression')
        self.reach = prog.reach([self.entry.id]) if self.entry else set()
        # TOKEN-NEXT: (&mut Tokenizer) -> Result<Token, Error>
        self.token_next = None
        tn_cands = []
        self.expect = None
        self.token_adt = None
        for b in prog.bodies:
            if not self.tok_name or b.is_closure:
                continue
            tys = [b.locals[i]['ty'] for i in range(1, b.arg_count + 1)]
            ret = b.locals[0]['ty']
            if len(tys) == 1 and tys[0].startswith('&mut ' + self.tok_name) and r_errd.is_crate_result(ret) and b.id in self.reach:
                m = re.match(r'^std::result::Result<([\w:]+)(<.*>)?, error::Error>$', ret)
                if m and f.adt_by_name.get(m.group(1)) and any(c.callee == 'std::iter::Iterator::next' or True for c in b.live_calls):
                    if self._reaches_char_next(b):
                        tn_cands.append(b)
                        self.token_adt = m.group(1)
            if len(tys) == 2 and tys[0].startswith('&mut ' + self.tok_name) and tys[1] in ('&str', "&'a str") and ret == 'std::result::Result<(), error::Error>':
                self.expect = b
        # several bodies may have the shape (`next` = bookkeeping + a private `scan_token`): the role is the outermost
        # one (not called by another candidate), preferring a public one
        if tn_cands:
            ids = {b.id for b in tn_cands}
            roots = [b for b in tn_cands if not (prog.callers.get(b.id, set()) & (ids - {b.id}))]
            roots = roots or tn_cands
            pubs = [b for b in roots if b.is_pub]
            self.token_next = (pubs or roots)[0]
        # families: wrappers that just forward to the role
        self.next_family = self._family(self.token_next, want_args=0)
        self.expect_family = self._family(self.expect, want_args=1)
        # ReachNext: bodies that may advance the real tokenizer (reach TOKEN-NEXT through &mut receivers)
        self.advancers = set()
        if self.token_next:
            adv = {self.token_next.id}
            changed = True
            while changed:
                changed = False
                for b in prog.bodies:
                    if b.id in adv or b.arg_count < 1 or not b.locals[1]['ty'].startswith('&mut '):
                        continue
                    if any(c.ruid in adv and c.term['arg_tys'] and c.term['arg_tys'][0].startswith('&mut ') for c in b.live_calls):
                        adv.add(b.id)
                        changed = True
            self.advancers = adv
        # expression-parse family: bodies in reach returning Result<ExprAST> with a &mut receiver
        self.parse_bodies = [b for b in prog.bodies if b.id in self.reach and b.locals[0]['ty'].startswith('std::result::Result<parser::ExprAST<') and b.arg_count >= 1
                             and b.locals[1]['ty'].startswith('&mut ') and b is not self.entry]

    def views(self, tag):
        """the same roles over *views* of the parse bodies: 'shallow' inlines closures handed to Option / Result
        combinators and private helpers that are not themselves parse bodies or token-stream roles; 'deep' also inlines
        parse bodies that have a single caller into that caller (recursion cut).  A view is the same program, so a rule that is clean on
        a view has proved its obligation"""
        import copy
        cache = self.__dict__.setdefault('_views', {})
        if tag in cache:
            return cache[tag]
        role_ids = set(self.next_family) | set(self.expect_family)
        for r in (self.token_next, self.expect, self.entry):
            if r is not None:
                role_ids.add(r.id)
        pids = {b.id for b in self.parse_bodies}

        def keep(g):
            if g.id in role_ids:
                return True
            # private *higher-order* helpers of the parser (`eat(pred)`, `at(pred)`, `separator_unless(closer)`): what they
            # test / consume depends on the predicate they are handed, so they are read at their call sites
            if not g.is_closure and not g.j.get('reachable', g.is_pub) and any(
                    re.search(r'Fn(Mut|Once)?\(', g.locals[k]['ty']) or 'closure@' in g.locals[k]['ty'] or re.match(r'^(for<[^>]*> )?(unsafe )?fn\(', g.locals[k]['ty'])
                    or re.match(r'^(&(mut )?)?[A-Z]\w{0,3}$', g.locals[k]['ty']) for k in range(1, g.arg_count + 1)):
                return False
            if g.id in pids and (tag == 'shallow' or len(self.prog.callers.get(g.id, ())) != 1):
                # 'deep' opens a parse body only into its single caller (an extracted helper); shared ones stay calls
                return True
            # token predicates / accessors of other types stay calls: only helpers of the parser itself are opened
            if g.arg_count >= 1 and self.tok_name and self.tok_name in g.locals[1]['ty'] and tag == 'shallow':
                return True
            return g.is_pub and g.id not in pids
        v = copy.copy(self)
        v.__dict__['_views'] = {}
        v.parse_bodies = [self.prog.view(b, keep, tag='parse-' + ('deep' if tag == 'deep-merged' else tag)) for b in self.parse_bodies]
        if tag == 'deep-merged':
            # a private parse body that was opened into its single caller is represented there in full: judging it
            # on its own as well would judge it without the caller's guard (`Operator(op) if is_prefix_op(op) => ..`)
            opened = {}
            for vb in v.parse_bodies:
                for nm in (vb.j.get('inlined') or []) if getattr(vb, 'is_view', False) else []:
                    opened.setdefault(nm, set()).add(vb.orig_id)
            kept = []
            for vb, b in zip(v.parse_bodies, self.parse_bodies):
                callers = self.prog.callers.get(b.id, set())
                if not b.is_pub and len(callers) == 1 and opened.get(b.name) and set(callers) <= opened[b.name]:
                    continue
                kept.append(vb)
            v.parse_bodies = kept
        v.view_tag = tag
        cache[tag] = v
        return v

    def is_scanner_ty(self, ty):
        """the type (of a receiver) is the tokenizer or its nested scanning state"""
        return any(n in (ty or '') for n in self.scan_names)

    def token_bodies(self, views=False):
        """the bodies below parse_expression; views=True: each read with the closures it hands to Option / Result
        combinators inlined (those closures are then not listed on their own)"""
        out = [self.prog.by_id[i] for i in sorted(self.reach)]
        if not views:
            return out
        if views == 'ho':
            # also open private *higher-order* helpers (`scan_while(|t, ch| ..)`, `take_run(start, pred)`): what
            # they do depends on the closure / fn they are handed, so they are read at their call sites
            tadt = self.prog.f.adt_by_name.get(self.token_adt) or {'variants': []}
            span_tys = {v['fields'][1]['ty'] for v in tadt['variants'] if len(v['fields']) == 2}

            def keep(g):
                if not g.is_closure and g.arg_count >= 1 and g.locals[0]['ty'] in span_tys and all(g.locals[k]['ty'] == 'usize' for k in range(1, g.arg_count + 1)):
                    return False      # a span constructor over positions (`Span::single(start)` = Span(start, start + 1)): read where it is used
                if g.is_pub:
                    return True
                for k in range(1, g.arg_count + 1):
                    ty = g.locals[k]['ty']
                    if re.match(r'^(for<[^>]*> )?(unsafe )?fn\(', ty) or re.match(r'^(&(mut )?)?[A-Z]\w{0,3}$', ty) or 'closure@' in ty or re.search(r'Fn(Mut|Once)?\(', ty):
                        return False
                # private *value* helpers of the scanner (`span_from(&self, start)`, `text_from(&self, start)`): they
                # cannot advance (shared receiver) and only package positions / slices; the position reads themselves
                # (usize) and look-aheads stay calls, because the rules recognise those by role
                if g.arg_count >= 1 and self.tok_name and any(g.locals[1]['ty'].startswith('&' + n) for n in self.scan_names) and not g.is_closure:
                    ret = g.locals[0]['ty']
                    if ret not in ('usize', 'bool', 'char') and not ret.startswith('std::option::Option<(usize, char)') and 'Result<' not in ret:
                        return False
                return True
            vs = [self.prog.view(b, keep=keep, tag='comb-ho') for b in out]
        else:
            vs = [self.prog.view(b, keep=lambda g: True, tag='comb') for b in out]
        swallowed = set()
        for v in vs:
            swallowed |= set(v.j.get('inlined') or []) if getattr(v, 'is_view', False) else set()
        return [v for v, b in zip(vs, out) if not (b.is_closure and b.name in swallowed)]

    def _reaches_char_next(self, b):
        for bid in self.prog.reach([b.id]):
            for c in self.prog.by_id[bid].live_calls:
                if (c.rdef or '').startswith("<std::str::CharIndices<'a> as std::iter::Iterator>::next"):
                    return True
        return False

    def _family(self, role, want_args):
        fam = set()
        if role is None:
            return fam
        fam.add(role.id)
        changed = True
        while changed:
            changed = False
            for b in self.prog.bodies:
                if b.id in fam or b.locals[0]['ty'] != role.locals[0]['ty'] or b.arg_count != role.arg_count:
                    continue
                tails = [c for c in b.live_calls if c.ruid in fam and c.dest['l'] == 0 and not c.dest['p']]
                others = [c for c in b.live_calls if c.ruid is not None and c not in tails]
                if len(tails) == 1 and not others:
                    okk = True
                    for k in range(1, role.arg_count):
                        o = single_origin(trace_operand(b, tails[0].args[k]))
                        if not (o is not None and o.kind == 'param' and o.data == k + 1 and not o.proj):
                            okk = False
                    if okk:
                        fam.add(b.id)
                        changed = True
            if want_args == 0:
                # `fn bump(&mut self) -> Result<Token> { let tok = self.cur; self.tokenizer.next()?; Ok(tok) }`: steps exactly one
                # token on every success path (it hands back the token it stepped over instead of the new one)
                import r_order
                for b in self.prog.bodies:
                    if b.id in fam or b.is_closure or b.arg_count != role.arg_count or not r_errd.is_crate_result(b.locals[0]['ty']) \
                            or not b.locals[1]['ty'].startswith('&mut ') or b.sccs():
                        continue
                    local = [c for c in b.live_calls if c.ruid is not None]
                    steps = [c for c in local if c.ruid in fam and c.term['arg_tys'] and c.term['arg_tys'][0].startswith('&mut ')]
                    if len(steps) == 1 and len(local) == 1 and not r_order._ok_return_reachable(b, 0, {steps[0].bb}):
                        fam.add(b.id)
                        changed = True
        return fam

    # ---- call classification helpers
    def is_next_call(self, c):
        return c.ruid in self.next_family

    def is_expect_call(self, c):
        return c.ruid in self.expect_family

    def expect_literal(self, c):
        return op_const_str_traced(c.body, c.args[1]) if len(c.args) > 1 else None

    def is_advance(self, c):
        return c.ruid in self.advancers and c.term['arg_tys'] and c.term['arg_tys'][0].startswith('&mut ')

    def pred_literal(self, c, depth=0):
        """for a call to a token predicate `p(token)`: the string literal it compares with, found
        in the callee (p returns q(self, const)), or None"""
        if c.ruid is None or depth > 3:
            return None
        g = self.prog.by_id[c.ruid]
        if g.locals[0]['ty'] != 'bool':
            return None
        for cc in g.live_calls:
            lits = [op_const_str_traced(g, a) for a in cc.args]
            lits = [x for x in lits if x is not None]
            if lits and (cc.dest['l'] == 0 or True):
                return lits[0]
        return None


def _tags(obs):
    """obligation identities without the body name and without ordinals: what is being decided, not where"""
    out = set()
    for o in obs:
        parts = o.key.split('|')
        if 'anchor' in o.key or 'floor' in o.key:
            continue
        t = '|'.join(parts[:1] + parts[2:]) if len(parts) > 2 else parts[0]
        out.add(re.sub(r'(#\d+|bb-ord\d+)', '', t))
    return out


def fallback(rule, roles, *args, **kw):
    """run `rule` on the bodies as written; if that leaves a violation, on the shallow and then the deep view
    (same program, helpers / combinator closures inlined); the first clean reading decides"""
    merged = kw.pop('merged', False)
    first = rule(roles, *args, **kw)
    if not any(o.status == 'violated' for o in first):
        return first
    for tag in ('shallow', 'deep') + (('deep-merged',) if merged else ()):
        vr = roles.views(tag)
        if len(vr.parse_bodies) == len(roles.parse_bodies) and all(a is b for a, b in zip(vr.parse_bodies, roles.parse_bodies)):
            continue
        try:
            res = rule(vr, *args, **kw)
        except Exception:
            continue
        # coverage: the second reading must decide every obligation the first one saw (a view in which a rule no
        # longer recognises a builder would otherwise pass vacuously)
        if not _tags(first) <= _tags(res):
            continue
        if not any(o.status == 'violated' for o in res):
            for o in res:
                o.what = (o.what or '') + ' [read on the %s view: helpers / combinator closures inlined]' % tag
            return res
    return first


def pred_literal_at(roles, c):
    """the literal a token predicate call tests for: fixed inside the predicate (`is_close_paren`), or handed over
    at the call site to a predicate that compares its &str parameter (`check_op(token, ")")`)"""
    lit = roles.pred_literal(c)
    if lit is not None:
        return lit
    if c.ruid is None:
        return None
    g = roles.prog.by_id[c.ruid]
    if g.locals[0]['ty'] != 'bool':
        return None
    for k, a in enumerate(c.args):
        if k == 0 or k + 1 > g.arg_count or 'str' not in g.locals[k + 1]['ty']:
            continue
        lit = op_const_str_traced(c.body, a)
        if lit is None:
            continue
        for cc in g.live_calls:
            if (cc.callee or '') in ('std::cmp::PartialEq::eq', 'std::cmp::PartialEq::ne'):
                for x in cc.args:
                    o = single_origin(trace_operand(g, x, through_calls=THROUGH))
                    if o is not None and o.kind == 'param' and o.data == k + 1:
                        return lit
    return None


def op_const_str_traced(body, op):
    s = op_const_str(op)
    if s is not None:
        return s
    o = single_origin(trace_operand(body, op))
    if o is not None and o.kind == 'const':
        return op_const_str(o.data)
    if o is not None and o.kind == 'callres' and not o.proj and o.data.ruid and 'str' in o.data.term['dest'].get('ty', ''):
        # the spelling comes from a pure local function of constants (`DelimTokenType::CloseParen.as_str()`): run it
        import cinterp
        prog = getattr(body.facts, '_prog', None)
        g = prog.by_id.get(o.data.ruid) if prog is not None else None
        if g is not None and not g.is_closure:
            try:
                it = cinterp.Interp(prog)
                vals = []
                for a in o.data.args:
                    ao = single_origin(trace_operand(body, a))
                    if ao is not None and ao.kind == 'agg' and not ao.proj and ao.data[2].get('agg') == 'adt' and not ao.data[2]['ops']:
                        rv = ao.data[2]       # a field-less enum value (`&DelimTokenType::CloseParen`, promoted)
                        vals.append(('adt', rv.get('adt'), cinterp._variant_index(body.facts, rv.get('adt'), rv['variant']) if rv.get('variant') else 0, ()))
                        continue
                    if ao is None or ao.kind != 'const' or ao.proj:
                        raise cinterp.Unknown('argument is not a constant')
                    vals.append(it.operand(body, {}, ao.data, 0))
                v = it.run(g, vals)
                if isinstance(v, str):
                    return v
            except cinterp.Unknown:
                return None
    return None


# ----------------------------------------------------------------------------- token facts

class TokenFacts:
    """path pruning with must-facts about the *current token*: the outcome of a pure predicate
    call on self's current token stays valid until the tokenizer may advance."""

    def __init__(self, roles, body):
        self.r = roles
        self.body = body
        self.pred_at = {}     # switch bb -> (pred key, {target: truth})
        self.kill = set()     # blocks whose terminator may advance the tokenizer
        self._scan()

    def _pred_key(self, c):
        """key of a pure predicate on the current token, or None"""
        if c.ruid is None:
            return None
        g = self.r.prog.by_id[c.ruid]
        if g.locals[0]['ty'] != 'bool' or c.ruid in self.r.advancers:
            return None
        # receiver must derive from self (param 1) through field reads / &self getters / clones
        if not c.args:
            return None
        o = self._self_view(c.args[0])
        if not o:
            return None
        lits = tuple(x for x in (op_const_str_traced(self.body, a) for a in c.args[1:]) if x is not None)
        return (c.ruid, lits)

    def _self_view(self, op, depth=0):
        if depth > 4:
            return False
        origins = trace_operand(self.body, op, through_calls=THROUGH)
        for o in origins:
            if o.kind == 'param' and o.data == 1:
                continue
            if o.kind == 'callres' and o.data.ruid is not None and o.data.ruid not in self.r.advancers and len(o.data.args) == 1 \
                    and o.data.term['arg_tys'][0].startswith('&') and not o.data.term['arg_tys'][0].startswith('&mut '):
                if self._self_view(o.data.args[0], depth + 1):
                    continue
            return False
        return bool(origins)

    def _scan(self):
        b = self.body
        for bb in sorted(b.live_blocks):
            t = b.blocks[bb]['term']
            if t['k'] == 'call':
                c = Call(b, bb, t)
                if self.r.is_advance(c) or (c.ruid is None and c.term['arg_tys'] and c.term['arg_tys'][0].startswith('&mut ' + (self.r.tok_name or '\0'))):
                    self.kill.add(bb)
            elif t['k'] == 'switch':
                src = bool_source(b, t['discr'])
                if src is None:
                    continue
                tc, parity = src
                k = self._pred_key(tc)
                if k is None:
                    continue
                m = {}
                listed = [v for v, _ in t['targets']]
                for v, tb in t['targets']:
                    m.setdefault(tb, set()).add((1 if v != 0 else 0) ^ parity)
                if listed == [0]:
                    m.setdefault(t['otherwise'], set()).add(1 ^ parity)
                elif listed == [1]:
                    m.setdefault(t['otherwise'], set()).add(0 ^ parity)
                self.pred_at[bb] = (k, {tb: next(iter(s)) for tb, s in m.items() if len(s) == 1}, tc.bb)

    def reach(self, start_bb, avoid=(), state=frozenset(), stop_at=None):
        """blocks reachable from start_bb (entering it with `state`) along feasible paths that
        avoid `avoid`.  Returns set of blocks."""
        avoid = set(avoid)
        seen = set()
        out = set()
        st = [(start_bb, state)]
        while st:
            bb, s = st.pop()
            if (bb, s) in seen or bb in avoid:
                continue
            seen.add((bb, s))
            out.add(bb)
            if stop_at is not None and bb in stop_at and bb != start_bb:
                continue
            if bb in self.kill:
                s2 = frozenset()
            else:
                s2 = s
            if bb in self.pred_at:
                k, m, _ = self.pred_at[bb]
                known = dict(s2).get(k)
                for n in self.body.succ[bb]:
                    if n in m:
                        if known is not None and known != m[n]:
                            continue    # infeasible: contradicts what is known about the current token
                        d2 = dict(s2)
                        d2[k] = m[n]
                        st.append((n, frozenset(d2.items())))
                    else:
                        st.append((n, s2))
            else:
                for n in self.body.succ[bb]:
                    st.append((n, s2))
        return out


# ----------------------------------------------------------------------------- rules

def rule_wexpect(roles):
    e = roles.expect
    if e is None:
        return [bad('WEXPECT', 'WEXPECT|anchor', 'anchor lost: no body with signature (&mut Tokenizer, &str) -> Result<()> (the expected-token check)')]
    first = _rule_wexpect(roles, e)
    if not any(o.status == 'violated' for o in first):
        return first
    # second reading: the comparison may sit in a token helper (`token.is_symbol(expected)`)
    def keep(g):
        # open only predicates on the token itself (`token.is_symbol(expected)`); payload renderers stay calls
        pred = g.arg_count >= 1 and (roles.token_adt or '\0') in g.locals[1]['ty'] and g.locals[0]['ty'] == 'bool'
        # ... and guard helpers that turn a bool into a Result (`ensure(matched, || err)?`)
        guard = (not g.is_pub and g.arg_count >= 1 and g.locals[1]['ty'] == 'bool' and 'Result<' in g.locals[0]['ty'])
        return not (pred or guard)
    v = roles.prog.view(e, keep=keep, tag='wexpect')
    if v is not e:
        second = _rule_wexpect(roles, v)
        from engine import covers
        if covers([o for o in first if 'never-ok' not in o.key and '|tail|' not in o.key and '|kind|' not in o.key], second) and not any(o.status == 'violated' for o in second):
            for o in second:
                o.what += ' [read with helpers inlined]'
            return second
    return first


def _option_text_cmp(roles, e, tc, sides):
    """`token.text() == Some(expected)`: an Option<&str> comparison between the result of a text accessor of the token
    (every `Some` it returns is the text field of the token's own variant) and `Some(<the &str parameter>)`.  The kinds it
    can be true for are the variants the dominating switch on the token's discriminant lets through."""
    prog = roles.prog
    if 'std::option::Option<' not in (tc.rdef or '') and 'std::option::Option<' not in ((tc.fn or {}).get('path') or ''):
        return None
    so = [single_origin(x) for x in sides]
    if any(o is None for o in so):
        return None
    some = [k for k, o in enumerate(so) if o.kind == 'agg' and not o.proj and o.data[2].get('variant') == 'Some' and len(o.data[2]['ops']) == 1]
    if len(some) != 1:
        return None
    inner = trace_operand(e, so[some[0]].data[2]['ops'][0], through_calls=THROUGH)
    if not any(o.kind == 'param' and o.data == 2 for o in inner):
        return None
    acc = so[1 - some[0]]
    if acc.kind != 'callres' or acc.proj or acc.data.ruid is None or len(acc.data.args) != 1:
        return None
    g = prog.by_id.get(acc.data.ruid)
    if g is None or not g.locals[0]['ty'].startswith('std::option::Option<&') or 'str' not in g.locals[0]['ty'] or not roles.token_adt or roles.token_adt not in g.locals[1]['ty']:
        return None
    # the accessor returns the token's own text
    for o in trace_local(g, 0, (('dc', 'Some'), ('f', 0)), through_calls=set()):
        if not (o.kind == 'param' and o.data == 1 and len(o.proj) >= 2 and o.proj[-2][0] == 'dc' and o.proj[-1] == ('f', 0)):
            return (False, ['accessor %s returns something other than the token text' % g.name.split('::')[-1]])
    tok = {(o.kind, o.key()[1], o.proj) for o in trace_operand(e, acc.data.args[0], through_calls=THROUGH)}
    adt = prog.f.adt_by_name.get(roles.token_adt)
    names = [v['name'] for v in adt['variants']] if adt else []
    kinds = None
    du = defuse(e)
    for sb in sorted(e.live_blocks):
        t = e.blocks[sb]['term']
        if t['k'] != 'switch':
            continue
        dl = op_local(t['discr'])
        defs = du.defs.get(dl, []) if dl is not None else []
        if len(defs) != 1 or defs[0][2] != 'assign' or defs[0][3]['k'] != 'discr' or defs[0][3]['pl']['p']:
            continue
        if {(o.kind, o.key()[1], o.proj) for o in trace_local(e, defs[0][3]['pl']['l'], (), through_calls=THROUGH)} != tok:
            continue
        for v, tb in t['targets']:
            if edge_dominates(e, sb, tb, acc.data.bb):
                vs = {names[x] for x, y in t['targets'] if y == tb and x < len(names)}
                kinds = vs if kinds is None else (kinds & vs)
    if kinds is None:
        return (False, ['no variant discrimination'])
    allowed = {'Operator', 'Delim', 'Comma', 'Semicolon'}
    return (bool(kinds) and kinds <= allowed, sorted(kinds))


def _rule_wexpect(roles, e):
    obs = []
    # comparisons between the inspected token's payload and the &str parameter
    cmp_true_edges = []
    kind_problems = []
    def qualifies(tc):
        """None = not a comparison with the expected text; (ok, kinds)"""
        if tc.callee not in ('std::cmp::PartialEq::eq', 'std::cmp::PartialEq::ne'):
            return None
        sides = [trace_operand(e, a, through_calls=THROUGH | {'std::string::ToString::to_string'}) for a in tc.args[:2]]
        is_param = [any(o.kind == 'param' and o.data == 2 for o in s) for s in sides]
        if not any(is_param):
            oq = _option_text_cmp(roles, e, tc, sides)
            if oq is not None:
                return oq
            return None
        # the token side must be the payload of a punctuation-kind variant (extracted under a
        # downcast), possibly rendered by a local helper of that payload
        tok_side = sides[0] if is_param[1] else sides[1]
        kinds = set()
        for o in tok_side:
            kinds |= _variant_of(e, o)
        allowed = {'Operator', 'Delim', 'Comma', 'Semicolon'}
        return (bool(kinds) and kinds <= allowed, sorted(kinds))

    for bb in sorted(e.live_blocks):
        t = e.blocks[bb]['term']
        if t['k'] != 'switch':
            continue
        src = bool_source(e, t['discr'])
        tc = None
        parity = 0
        if src is not None:
            tc, parity = src
            q = qualifies(tc)
            if q is None:
                continue
            if not q[0]:
                kind_problems.append((tc, q[1]))
                continue
        else:
            # a bool local fed by several comparison results and constant false (match producing a bool)
            bv = _bool_value_defs(e, t['discr'])
            if bv is None:
                continue
            root, parity, defs = bv
            calls = [d for d in defs if d[0] == 'call']
            if not calls or any(d[0] == 'other' for d in defs) or any(d[0] == 'const' and d[1] for d in defs):
                continue
            qs = [qualifies(d[1]) for d in calls]
            if any(q is None for q in qs):
                continue
            badq = [(d[1], q[1]) for d, q in zip(calls, qs) if not q[0]]
            if badq:
                kind_problems.extend(badq)
                continue
            if any(d[1].callee.endswith('::ne') for d in calls):
                continue
            tc = calls[0][1]
        truth_for_eq = 1 ^ parity ^ (1 if tc.callee.endswith('::ne') else 0)
        listed = [v for v, _ in t['targets']]
        for v, tb in switch_edges(e, bb):
            if v == 'otherwise':
                tv = 1 if listed == [0] else (0 if listed == [1] else None)
            else:
                tv = 1 if v != 0 else 0
            if tv is not None and tv == truth_for_eq:
                cmp_true_edges.append((bb, tb))
    n = 0
    for bb, i, pl, rv in e.assigns():
        if pl['l'] == 0 and not pl['p'] and rv['k'] == 'agg' and rv.get('variant') == 'Ok':
            key = 'WEXPECT|ok|#%d' % n
            n += 1
            if any(edge_dominates(e, s, t, bb) for s, t in cmp_true_edges):
                obs.append(ok('WEXPECT', key, 'Ok(()) in bb%d is dominated by the "token text == expected" edge' % bb, e.where(bb)))
            else:
                obs.append(bad('WEXPECT', key, 'the expected-token check returns Ok(()) (bb%d) on a path where the token was not compared equal to the expected text: a wrong token is accepted as the expected one' % bb, e.where(bb), body=e.name, bb=bb))
    for c in e.live_calls:
        if c.dest['l'] == 0 and c.callee != FROM_RESIDUAL:
            obs.append(bad('WEXPECT', 'WEXPECT|tail|%s' % (c.rdef or c.callee), 'the expected-token check returns the result of %s' % (c.rdef or c.callee), c.where(), body=e.name))
    for k, (tc, kinds) in enumerate(kind_problems):
        obs.append(bad('WEXPECT', 'WEXPECT|kind|#%d' % k, 'the expected-token check compares the expected text with the text of a token of any kind (%s) instead of a punctuation token\'s payload: a string / name token spelled like the separator is accepted as the separator' % (kinds or 'no variant discrimination'), tc.where(), body=e.name, bb=tc.bb))
    obs.append(floor('WEXPECT', 'comparisons', len(cmp_true_edges), 1, 'the token must be compared with the expected text'))
    if n == 0:
        obs.append(bad('WEXPECT', 'WEXPECT|never-ok', 'the expected-token check has no success path', e.where(), body=e.name))
    # the check consumes the inspected token: a TOKEN-NEXT call on every Ok path is the companion
    return obs


def _bool_value_defs(body, op):
    """switch discriminant that is a bool local with several definitions: (root local, parity,
    [('call', Call) | ('const', 0/1) | ('other',)])"""
    from facts import op_const_int
    du = defuse(body)
    l = op_local(op)
    parity = 0
    for _ in range(10):
        if l is None:
            return None
        defs = du.defs.get(l, [])
        if len(defs) == 1 and defs[0][2] == 'assign':
            rv = defs[0][3]
            if rv['k'] == 'use' and op_local(rv['op']) is not None:
                l = op_local(rv['op']); continue
            if rv['k'] == 'unop' and rv['op'] == 'Not':
                parity ^= 1; l = op_local(rv['a']); continue
        break
    if l is None or body.locals[l]['ty'] != 'bool':
        return None
    out = []
    for (b, i, kind, payload, dproj) in du.defs.get(l, []):
        if kind == 'call':
            out.append(('call', payload))
        elif kind == 'assign' and payload['k'] == 'use' and payload['op']['k'] == 'const':
            out.append(('const', op_const_int(payload['op'])))
        else:
            out.append(('other',))
    return (l, parity, out) if len(out) > 1 else None


def _variant_of(body, o, depth=0):
    """token variants under which the compared text was extracted: downcasts on the origin's
    projection, looking through local single-argument helpers"""
    out = {p[1] for p in o.proj if p[0] == 'dc' and p[1] not in ('Some', 'Ok', 'Continue')}
    if out:
        return out
    if o.kind == 'callres' and depth < 3 and o.data.ruid is not None and len(o.data.args) == 1:
        res = set()
        for oo in trace_operand(body, o.data.args[0], through_calls=THROUGH):
            res |= _variant_of(body, oo, depth + 1)
        return res
    return set()


CLOSERS = {'List': ']', 'Map': '}', 'Function': ')'}


def _ok_agg_blocks(b, variant):
    """blocks where `_0 = Ok(x)` with x = aggregate ExprAST::variant"""
    out = []
    for bb, i, pl, rv in b.assigns():
        if pl['l'] == 0 and not pl['p'] and rv['k'] == 'agg' and rv.get('variant') == 'Ok':
            o = single_origin(trace_operand(b, rv['ops'][0], through_calls=set()))
            if o is not None and o.kind == 'agg' and o.data[2].get('adt') == AST and o.data[2].get('variant') == variant:
                out.append(bb)
    return out


def _closer_edges(roles, b, lit):
    """edges after which the current token was checked to be `lit`: Continue edge of `?` on
    EXPECT(lit), or true edge of a predicate whose literal is lit"""
    import r_order
    edges = []
    for c in b.live_calls:
        if roles.is_expect_call(c) and roles.expect_literal(c) == lit:
            tc = r_order.try_of(b, c)
            if tc is not None:
                ee = r_order.err_edge_of_try(b, tc)
                if ee:
                    t = b.blocks[ee[0]]['term']
                    for v, tb in t['targets']:
                        if v == 0:
                            edges.append((ee[0], tb, 'expect("%s")?' % lit))
    tf = TokenFacts(roles, b)
    for sb, (k, m, cb) in tf.pred_at.items():
        c = b.call_at(cb)
        if c is not None and pred_literal_at(roles, c) == lit:
            for tb, truth in m.items():
                if truth == 1:
                    edges.append((sb, tb, '%s is true' % roles.prog.by_id[c.ruid].name.split('::')[-1]))
    return edges


def _edges_cut(b, edges, target):
    """every *feasible* path from the entry to `target` uses one of the CFG edges (s, t) in `edges`.  Feasibility: a
    local that was just assigned the residual of a failed `?` (`X = from_residual(..)`) is a failure; `Try::branch(X)`
    of it is `Break`, so the `Continue` edge of the switch on that branch result is not taken (a helper's failing exit,
    copied in by a view, does not continue on the caller's success path)"""
    import r_order
    cut = {(e[0], e[1]) for e in edges}
    seen = set()
    st = [(0, frozenset(), frozenset())]          # (block, locals known to hold a failure, branch results known to be Break)
    while st:
        x, errs, brk = st.pop()
        if (x, errs, brk) in seen or len(seen) > 20000:
            continue
        seen.add((x, errs, brk))
        if x == target:
            return False
        blk = b.blocks[x]
        e2, k2 = set(errs), set(brk)
        for st_ in blk['stmts']:
            if st_['k'] == 'assign' and not st_['pl']['p']:
                l = st_['pl']['l']
                rv = st_['rv']
                src = op_local(rv['op']) if rv['k'] == 'use' and rv['op']['k'] in ('move', 'copy') and not rv['op']['pl']['p'] else None
                e2.discard(l); k2.discard(l)
                if src is not None and src in errs:
                    e2.add(l)
        t = blk['term']
        succ = list(b.succ[x])
        if t['k'] == 'call' and not t['dest']['p']:
            c = b.call_at(x)
            d = t['dest']['l']
            e2.discard(d); k2.discard(d)
            if c is not None and c.callee == FROM_RESIDUAL:
                e2.add(d)
            elif c is not None and c.callee == TRY_BRANCH and c.args and op_local(c.args[0]) in e2 and not (op_place(c.args[0]) or {}).get('p'):
                k2.add(d)
            succ = [t['target']] if t.get('target') is not None else []
        elif t['k'] == 'switch':
            o = None
            dl = op_local(t['discr'])
            if dl is not None:
                for st_ in reversed(blk['stmts']):
                    if st_['k'] == 'assign' and st_['pl']['l'] == dl and not st_['pl']['p'] and st_['rv']['k'] == 'discr' and not st_['rv']['pl']['p']:
                        o = st_['rv']['pl']['l']
                        break
            if o is not None and o in k2:
                succ = [tb for v, tb in t['targets'] if v == 1] or [t['otherwise']]
        e2, k2 = frozenset(e2), frozenset(k2)
        for y in succ:
            if (x, y) not in cut and not b.blocks[y].get('cleanup'):
                st.append((y, e2, k2))
    return True


def paren_bodies(roles):
    """PAREN role: a TOKEN-NEXT-family call dominates a sub-parse whose Ok payload is returned
    unchanged"""
    out = []
    pids = {p.id for p in roles.parse_bodies}
    for b in roles.parse_bodies:
        for bb, i, pl, rv in b.assigns():
            if pl['l'] == 0 and not pl['p'] and rv['k'] == 'agg' and rv.get('variant') == 'Ok':
                o = single_origin(trace_operand(b, rv['ops'][0], through_calls=set()))
                if o is not None and o.kind == 'callres' and o.data.ruid in pids and o.proj == (('dc', 'Ok'), ('f', 0)):
                    sub = o.data
                    if any(roles.is_next_call(c) and b.dominates(c.bb, sub.bb) and c.bb != sub.bb for c in b.live_calls):
                        out.append((b, bb, sub))
    return out


def rule_closer(roles):
    obs = []
    found = set()
    for b in roles.parse_bodies:
        for variant, lit in CLOSERS.items():
            for bb in _ok_agg_blocks(b, variant):
                found.add(variant)
                key = 'CLOSER|%s|%s|bb-ord%d' % (b.name, variant, len([o for o in obs if o.key.startswith('CLOSER|%s|%s' % (b.name, variant))]))
                edges = _closer_edges(roles, b, lit)
                hit = [e for e in edges if edge_dominates(b, e[0], e[1], bb)]
                if not hit and edges and _edges_cut(b, edges, bb):
                    # no single check dominates, but every path passes one of them (`if !at_closer { loop { .. if at_closer { break } .. } }`)
                    hit = [(edges[0][0], edges[0][1], 'one of %d checks on every path: %s' % (len(edges), ', '.join(sorted({e[2] for e in edges}))))]
                if hit:
                    obs.append(ok('CLOSER', key, 'the %s node is returned only after the closing "%s" was checked (%s)' % (variant, lit, hit[0][2]), b.where(bb)))
                else:
                    obs.append(bad('CLOSER', key, 'a %s node can be returned without the closing "%s" having been checked: an unbalanced / mismatched delimiter is accepted' % (variant, lit), b.where(bb), body=b.name, bb=bb))
    for (b, bb, sub) in paren_bodies(roles):
        found.add('Paren')
        key = 'CLOSER|%s|paren' % b.name
        edges = _closer_edges(roles, b, ')')
        hit = [e for e in edges if edge_dominates(b, e[0], e[1], bb)]
        if hit:
            obs.append(ok('CLOSER', key, 'the parenthesised expression is returned only after ")" was checked (%s)' % hit[0][2], b.where(bb)))
        else:
            obs.append(bad('CLOSER', key, 'a parenthesised expression can be returned without ")" having been checked', b.where(bb), body=b.name, bb=bb))
    for v in list(CLOSERS) + ['Paren']:
        if v not in found:
            obs.append(bad('CLOSER', 'CLOSER|anchor|%s' % v, 'anchor lost: no parser body builds / returns the %s form' % v))
    return obs


def rule_sep(roles):
    """separators: between two element parses of a list / map / call a "," must be consumed; a
    map value and a conditional's else-branch are parsed only after ":" """
    obs = []
    pids = {p.id for p in roles.parse_bodies}
    for b in roles.parse_bodies:
        variants = [v for v in CLOSERS if _ok_agg_blocks(b, v)]
        tern = bool(_ok_agg_blocks(b, 'Ternary'))
        if not variants and not tern:
            continue
        tf = TokenFacts(roles, b)
        subs = [c for c in b.live_calls if c.ruid in pids]
        commas = {c.bb for c in b.live_calls if roles.is_expect_call(c) and roles.expect_literal(c) == ','}
        colons = [c for c in b.live_calls if roles.is_expect_call(c) and roles.expect_literal(c) == ':']
        for v in variants:
            elems = [c for c in subs if c.bb in {x for s in b.sccs() for x in s}]
            key = 'SEP|%s|%s|comma' % (b.name, v)
            if not elems:
                obs.append(bad('SEP', key, 'no element parse inside a loop in the %s builder' % v, b.where(), body=b.name))
                continue
            problems = []
            for e in elems:
                # feasible paths from after e back to any element parse without consuming ","
                r = set()
                for s in b.succ[e.bb]:
                    r |= tf.reach(s, avoid=commas)
                again = [x for x in elems if x.bb in r]
                if v == 'Map':
                    # key -> value of the same entry is separated by ":" instead
                    again = [x for x in again if not _separated_by(b, tf, e, x, {c.bb for c in colons})]
                if again:
                    problems.append('after the element parsed at bb%d another element (bb%d) can be parsed without a "," in between' % (e.bb, again[0].bb))
            if problems:
                obs.append(bad('SEP', key, '%s: %s' % (v, '; '.join(problems)), b.where(), body=b.name))
            else:
                obs.append(ok('SEP', key, '%s builder: every feasible path from one element to the next consumes "," (token-fact pruning: a predicate on the current token keeps its value until the tokenizer advances)' % v, b.where()))
        if 'Map' in variants or tern:
            what = 'Map' if 'Map' in variants else 'Ternary'
            key = 'SEP|%s|%s|colon' % (b.name, what)
            if not colons:
                obs.append(bad('SEP', key, 'no ":" is required in the %s builder' % what, b.where(), body=b.name))
            else:
                # some sub-parse must be dominated by the Continue edge of expect(":")
                import r_order
                good = False
                for c in colons:
                    tc = r_order.try_of(b, c)
                    ee = r_order.err_edge_of_try(b, tc) if tc else None
                    if ee:
                        t = b.blocks[ee[0]]['term']
                        cont = [tb for vv, tb in t['targets'] if vv == 0]
                        if cont and any(edge_dominates(b, ee[0], cont[0], s.bb) for s in subs):
                            good = True
                if good:
                    obs.append(ok('SEP', key, 'the part after ":" is parsed only after expect(":") succeeded', colons[0].where()))
                else:
                    obs.append(bad('SEP', key, 'the part after ":" can be parsed without ":" having been consumed', colons[0].where(), body=b.name))
    return obs


def _separated_by(b, tf, e, x, sep_blocks):
    r = set()
    for s in b.succ[e.bb]:
        r |= tf.reach(s, avoid=sep_blocks)
    return x.bb not in r


def rule_wprefix(roles, lm):
    """a Unary node with a non-constant operator is built only for a registered prefix operator"""
    obs = []
    prog = roles.prog
    n = 0
    for b in roles.parse_bodies:
        for bb, i, pl, rv in b.assigns():
            if rv['k'] == 'agg' and rv.get('adt') == AST and rv.get('variant') == 'Unary':
                o = single_origin(trace_operand(b, rv['ops'][0]))
                if o is not None and o.kind == 'const':
                    continue   # fixed operator (e.g. the `not` rewrite)
                n += 1
                key = 'WPREFIX|%s' % b.name
                tf = TokenFacts(roles, b)
                good = False
                # a dominating true edge of a bool call that reaches the prefix registry and takes the same operator text
                for sb in sorted(b.live_blocks):
                    t = b.blocks[sb]['term']
                    if t['k'] != 'switch':
                        continue
                    src = bool_source(b, t['discr'])
                    if src is None:
                        continue
                    tc, parity = src
                    if tc.ruid is None or not _reaches_prefix_registry(prog, lm, tc.ruid):
                        continue
                    same = any(single_origin(trace_operand(b, a)) == o for a in tc.args) if o is not None else False
                    listed = [v for v, _ in t['targets']]
                    for v, tb in switch_edges(b, sb):
                        tv = (1 if listed == [0] else 0 if listed == [1] else None) if v == 'otherwise' else (1 if v != 0 else 0)
                        if tv is not None and (tv ^ parity) == 1 and same and edge_dominates(b, sb, tb, bb):
                            good = True
                if good:
                    obs.append(ok('WPREFIX', key, 'the Unary node is built only on the "is a registered prefix operator" edge for the same operator text', b.where(bb)))
                else:
                    obs.append(bad('WPREFIX', key, 'a Unary node is built for any operator token in prefix position: an infix / ternary operator whose left operand is missing is accepted', b.where(bb), body=b.name, bb=bb))
    obs.append(floor('WPREFIX', 'prefix-builders', n, 1, 'prefix operators must be parsed somewhere'))
    return obs


def _statics_reached(prog, uid):
    """uids of statics referenced from the bodies reachable from uid"""
    out = set()
    for bid in prog.reach([uid]):
        b = prog.by_id[bid]
        for bb, i, pl, rv in b.assigns():
            ops = [rv.get('op')] if rv['k'] in ('use', 'cast') else (rv.get('ops', []) if rv['k'] == 'agg' else [])
            for o in ops:
                if isinstance(o, dict) and o.get('k') == 'const' and 'static' in o:
                    out.add(o['static'])
        for c in b.live_calls:
            for a in c.args:
                if a.get('k') == 'const' and 'static' in a:
                    out.add(a['static'])
    return out


def _reaches_prefix_registry(prog, lm, uid):
    """the body (transitively) consults a unary-operator registry: a static whose map values are
    handlers of one Value (prefix and postfix registries have the same type)"""
    sid = {s['id']: s for s in prog.f.statics}
    for su in _statics_reached(prog, uid):
        s = sid.get(su)
        if s is not None and re.search(r'dyn std::ops::Fn\(value::Value\) ->', s['ty']):
            return True
    return False


def rule_stray(roles):
    """primary dispatch: a token that cannot start an expression (comma, semicolon, closing
    delimiter, end of input) reaches only failure returns"""
    obs = []
    prog = roles.prog
    f = prog.f
    tadt = f.adt_by_name.get(roles.token_adt) if roles.token_adt else None
    if not tadt:
        return [bad('STRAY', 'STRAY|anchor', 'anchor lost: token type not found')]
    names = [v['name'] for v in tadt['variants']]
    # the primary body: switches on the discriminant of a Token and builds ExprAST::Literal
    prim = []
    for b in roles.parse_bodies:
        if any(rv['k'] == 'agg' and rv.get('adt') == AST and rv.get('variant') == 'Literal' for bb, i, pl, rv in b.assigns()):
            prim.append(b)
    if not prim:
        return [bad('STRAY', 'STRAY|anchor', 'anchor lost: no parser body builds Literal nodes from tokens')]
    for b in prim:
        du = defuse(b)
        sw = None
        for bb in sorted(b.live_blocks):
            t = b.blocks[bb]['term']
            if t['k'] != 'switch':
                continue
            l = op_local(t['discr'])
            defs = du.defs.get(l, []) if l is not None else []
            if len(defs) == 1 and defs[0][2] == 'assign' and defs[0][3]['k'] == 'discr' and roles.token_adt in defs[0][3]['pl']['ty']:
                sw = (bb, t)
                break
        if sw is None:
            obs.append(bad('STRAY', 'STRAY|%s' % b.name, 'the primary-expression body does not dispatch on the token kind', b.where(), body=b.name))
            continue
        bb, t = sw
        tmap = {v: tb for v, tb in t['targets']}
        for vi, vn in enumerate(names):
            tb = tmap.get(vi, t['otherwise'])
            payload_tys = [fl['ty'] for fl in tadt['variants'][vi]['fields']]
            starts_expr = vn in ('Number', 'Bool', 'String', 'Reference', 'Function', 'Operator', 'Delim')
            if starts_expr:
                continue
            key = 'STRAY|%s|%s' % (b.name, vn)
            okk, why = r_errd.returns_failure_only(b, tb)
            if not okk and vn not in ('Comma', 'Semicolon', 'EOF') and tb != t['otherwise']:
                # a token kind the pinned language does not have (`null`): a new *literal* kind if its own arm builds
                # nothing but a Literal node from it
                others = set()
                for v2, tb2 in list(tmap.items()) + [('otherwise', t['otherwise'])]:
                    if tb2 != tb:
                        others |= b.reachable_from(tb2)
                mine = b.reachable_from(tb) - others
                oks = [(bb2, rv) for bb2, i, pl, rv in b.assigns() if bb2 in mine and pl['l'] == 0 and not pl['p'] and rv['k'] == 'agg' and rv.get('variant') == 'Ok']
                lit = [bb2 for bb2 in _ok_agg_blocks(b, 'Literal') if bb2 in mine]
                if oks and len(lit) == len(oks):
                    obs.append(ok('STRAY', key, 'a %s token in primary position is a literal of its own: its arm builds only a Literal node' % vn, b.where(tb)))
                    continue
            if okk:
                obs.append(ok('STRAY', key, 'a %s token in primary position reaches only failure returns' % vn, b.where(tb)))
            else:
                obs.append(bad('STRAY', key, 'a %s token in primary position is accepted (%s): a stray token is dropped or treated as another' % (vn, why), b.where(tb), body=b.name, bb=tb))
    # closing / unknown delimiters in the delimiter dispatch
    dadt = None
    for a in f.adts:
        vs = [v['name'] for v in a['variants']]
        if 'OpenParen' in vs and 'CloseParen' in vs:
            dadt = a
    if dadt:
        dn = [v['name'] for v in dadt['variants']]
        for b in roles.parse_bodies:
            du = defuse(b)
            for bb in sorted(b.live_blocks):
                t = b.blocks[bb]['term']
                if t['k'] != 'switch':
                    continue
                l = op_local(t['discr'])
                defs = du.defs.get(l, []) if l is not None else []
                if len(defs) == 1 and defs[0][2] == 'assign' and defs[0][3]['k'] == 'discr' and defs[0][3]['pl']['ty'].endswith(dadt['name']):
                    tmap = {v: tb for v, tb in t['targets']}
                    for vi, vn in enumerate(dn):
                        if vn.startswith('Open'):
                            continue
                        tb = tmap.get(vi, t['otherwise'])
                        key = 'STRAY|%s|Delim::%s' % (b.name, vn)
                        okk, why = r_errd.returns_failure_only(b, tb)
                        if okk:
                            obs.append(ok('STRAY', key, 'a %s delimiter in primary position reaches only failure returns' % vn, b.where(tb)))
                        else:
                            obs.append(bad('STRAY', key, 'a %s delimiter in primary position is accepted (%s)' % (vn, why), b.where(tb), body=b.name, bb=tb))
    return obs


def rule_floors(roles):
    return [
        floor('PARSE', 'parse_expression', 1 if roles.entry else 0, 1, 'public parse_expression'),
        floor('PARSE', 'token-next', 1 if roles.token_next else 0, 1, 'body (&mut Tokenizer) -> Result<Token> reaching CharIndices::next'),
        floor('PARSE', 'expect', 1 if roles.expect else 0, 1, 'body (&mut Tokenizer, &str) -> Result<()>'),
        floor('PARSE', 'parse-bodies', len(roles.parse_bodies), 8, 'primary, prefix, infix loop, paren, list, map, call, statements'),
    ]


# ----------------------------------------------------------------------------- flags + string termination

def flag_source(body, op):
    """a switch discriminant that is (the negation of) a bool local assigned only constants:
    returns (local, parity, true_def_blocks, false_def_blocks) or None"""
    from facts import op_const_int
    du = defuse(body)
    l = op_local(op)
    parity = 0
    for _ in range(10):
        if l is None:
            return None
        defs = du.defs.get(l, [])
        if len(defs) == 1 and defs[0][2] == 'assign':
            rv = defs[0][3]
            if rv['k'] == 'use' and op_local(rv['op']) is not None:
                l = op_local(rv['op']); continue
            if rv['k'] == 'unop' and rv['op'] == 'Not':
                parity ^= 1; l = op_local(rv['a']); continue
        break
    if l is None or body.locals[l]['ty'] != 'bool':
        return None
    defs = du.defs.get(l, [])
    if not defs:
        return None
    tb, fb = [], []
    for (b, i, kind, payload, dproj) in defs:
        if kind != 'assign' or payload['k'] != 'use' or payload['op']['k'] != 'const':
            return None
        v = op_const_int(payload['op'])
        (tb if v else fb).append(b)
    return l, parity, tb, fb


def passes_edge(body, target_bb, witness_edges, depth=0):
    """every path entry -> target_bb passes one of witness_edges, directly or through a constant
    bool flag that is set true only behind such an edge and is tested true before target_bb"""
    if any(edge_dominates(body, s, t, target_bb) for s, t in witness_edges):
        return True
    if depth > 2:
        return False
    for sb in sorted(body.live_blocks):
        t = body.blocks[sb]['term']
        if t['k'] != 'switch':
            continue
        fs = flag_source(body, t['discr'])
        if fs is None:
            continue
        l, parity, tdefs, fdefs = fs
        listed = [v for v, _ in t['targets']]
        for v, tb in switch_edges(body, sb):
            tv = (1 if listed == [0] else 0 if listed == [1] else None) if v == 'otherwise' else (1 if v != 0 else 0)
            if tv is None or (tv ^ parity) != 1:
                continue
            if edge_dominates(body, sb, tb, target_bb) and tdefs and all(passes_edge(body, d, witness_edges, depth + 1) for d in tdefs):
                return True
    return False


def rule_strterm(roles):
    first = _rule_strterm(roles, roles.token_bodies())
    if not any(o.status == 'violated' for o in first):
        return first
    second = _rule_strterm(roles, roles.token_bodies(views='ho'))
    from engine import covers
    if covers(first, second) and not any(o.status == 'violated' for o in second):
        for o in second:
            o.what += ' [read with guard helpers opened]'
        return second
    return first


def _rule_strterm(roles, bodies):
    """a String token is produced only after a character equal to the opening quote was consumed"""
    obs = []
    prog = roles.prog
    tname = roles.token_adt
    n = 0
    for b in bodies:
        for bb, i, pl, rv in b.assigns():
            if rv['k'] == 'agg' and rv.get('adt') == tname and rv.get('variant') == 'String':
                n += 1
                key = 'STRTERM|%s' % b.name
                # witness edges: true edges of char == char comparisons
                W = []
                du = defuse(b)
                for sb in sorted(b.live_blocks):
                    t = b.blocks[sb]['term']
                    if t['k'] != 'switch':
                        continue
                    l = op_local(t['discr'])
                    defs = du.defs.get(l, []) if l is not None else []
                    if len(defs) == 1 and defs[0][2] == 'assign' and defs[0][3]['k'] == 'binop' and defs[0][3]['op'] == 'Eq' and defs[0][3].get('aty') == 'char':
                        listed = [v for v, _ in t['targets']]
                        for v, tb in switch_edges(b, sb):
                            tv = (1 if listed == [0] else 0 if listed == [1] else None) if v == 'otherwise' else (1 if v != 0 else 0)
                            if tv == 1:
                                W.append((sb, tb))
                # ... or the Some edge of a search for the closing quote (find / position / memchr-like)
                for sb in sorted(b.live_blocks):
                    t = b.blocks[sb]['term']
                    if t['k'] != 'switch':
                        continue
                    l = op_local(t['discr'])
                    defs = du.defs.get(l, []) if l is not None else []
                    if len(defs) == 1 and defs[0][2] == 'assign' and defs[0][3]['k'] == 'discr':
                        so = single_origin(trace_local(b, defs[0][3]['pl']['l'], ()))
                        if so is not None and so.kind == 'callres' and re.search(r'(::find|::position|::rfind|::find_map|::char_indices|::split_once|memchr)$', so.data.callee or ''):
                            for v, tb in switch_edges(b, sb):
                                if v == 1:
                                    W.append((sb, tb))
                if W and passes_edge(b, bb, W):
                    obs.append(ok('STRTERM', key, 'the String token is built only after a consumed character compared equal to the opening quote (directly or through a constant flag set behind that edge)', b.where(bb)))
                else:
                    obs.append(bad('STRTERM', key, 'a String token can be produced without a closing quote having been seen: an unterminated string is accepted', b.where(bb), body=b.name, bb=bb))
    obs.append(floor('STRTERM', 'string-token-sites', n, 1, 'string literals must be tokenized somewhere'))
    return obs
