"""ERRD: error discipline.  How is the result of a fallible call consumed?

classes (per call site):
  tail        the result is the function's return value
  try         consumed by `?` (Try::branch; the Break edge returns from_residual)
  match       discriminant switch whose failure arm reaches only failure returns (or a panic-free
              Err construction)
  combinator  passed to a failure-preserving combinator whose own result is consumed acceptably
  guarded     tested with is_ok/is_err/is_some/is_none and unwrapped on the right edge (D-guard)
  unwrap      unwrapped without a guard (a PANIC matter, not ERRD)
forbidden:
  dropped     never used
  defaulted   unwrap_or / unwrap_or_default / unwrap_or_else / ok() / .. : failure replaced by a value
  tested-only only is_ok()/is_err() looks at it
"""
import re
from facts import op_local, op_place, Call
from analysis import defuse, trace_operand, single_origin, TRY_BRANCH, FROM_RESIDUAL
from engine import ok, bad, assumed

CRATE_RESULT_RE = re.compile(r'^std::result::Result<.*, error::Error>$')

PRESERVING = {
    'map', 'map_err', 'and_then', 'ok_or', 'ok_or_else', 'or_else', 'map_or', 'map_or_else', 'transpose', 'copied', 'cloned',
    'as_ref', 'as_mut', 'inspect', 'inspect_err', 'ok', 'err', 'flatten', 'zip', 'filter', 'and',
}
DEFAULTING = {
    'unwrap_or', 'unwrap_or_default', 'unwrap_or_else', 'unwrap_unchecked', 'or', 'is_ok_and', 'is_some_and', 'unwrap_or_unchecked',
}
TESTS = {'is_ok', 'is_err', 'is_some', 'is_none'}
UNWRAPS = {'unwrap', 'expect'}


def _method(c):
    n = c.callee or ''
    m = re.match(r'^std::(option::Option::<T>|result::Result::<T, E>)::(\w+)$', n)
    return m.group(2) if m else None


def is_crate_result(ty):
    return bool(CRATE_RESULT_RE.match(ty))


def uses_of_local(body, l):
    """[(bb, where, how)] how in: ('arg', Call, k) ('move', dest local) ('ref', dest local)
    ('discr', dest local) ('ret',) ('field', ...) ('drop',) ('other', ..)"""
    out = []
    for b in sorted(body.live_blocks):
        blk = body.blocks[b]
        for i, st in enumerate(blk['stmts']):
            if st['k'] != 'assign':
                continue
            rv = st['rv']
            pl = st['pl']
            if rv['k'] == 'use':
                opl = op_place(rv['op'])
                if opl is not None and opl['l'] == l:
                    if not opl['p'] and not pl['p']:
                        out.append((b, i, ('move', pl['l'])))
                    elif opl['p']:
                        out.append((b, i, ('field', pl['l'], opl['p'])))
                    else:
                        out.append((b, i, ('store', pl['l'])))
            elif rv['k'] == 'ref' and rv['pl']['l'] == l:
                out.append((b, i, ('ref', pl['l'], rv['pl']['p'])))
            elif rv['k'] == 'discr' and rv['pl']['l'] == l:
                out.append((b, i, ('discr', pl['l'])))
            elif rv['k'] == 'agg' and any(op_local(o) == l for o in rv['ops']):
                out.append((b, i, ('agg', pl['l'], rv)))
            elif rv['k'] in ('cast', 'binop', 'unop', 'copy_for_deref'):
                ops = [rv.get('op') if rv['k'] == 'cast' else None, rv.get('a'), rv.get('b')]
                if any(o is not None and op_place(o) is not None and op_place(o)['l'] == l for o in ops):
                    out.append((b, i, ('other', rv['k'])))
                if rv['k'] == 'copy_for_deref' and rv['pl']['l'] == l:
                    out.append((b, i, ('ref', pl['l'], rv['pl']['p'])))
        t = blk['term']
        if t['k'] == 'call':
            for k, a in enumerate(t['args']):
                apl = op_place(a)
                if apl is not None and apl['l'] == l:
                    out.append((b, 'term', ('arg', Call(body, b, t), k, apl['p'])))
        elif t['k'] == 'switch':
            if op_local(t['discr']) == l:
                out.append((b, 'term', ('switch',)))
        elif t['k'] == 'drop':
            if t['pl']['l'] == l:
                out.append((b, 'term', ('drop',)))
    return out


def returns_failure_only(body, from_bb, avoid=()):
    """every return reachable from from_bb carries a failure in _0: _0 last assigned (on that
    path) by from_residual, an Err(..)/None aggregate, or a call whose result is returned as is."""
    # collect blocks reachable
    reach = body.reachable_from(from_bb, avoid=avoid)
    rets = [b for b in reach if body.blocks[b]['term']['k'] == 'return']
    if not rets:
        return True, 'no return reachable (diverges)'
    # find assignments to _0 within reach; require that on every path from from_bb to a return
    # the last assignment to _0 is a failure assignment.  Approximation (sound for the shapes
    # MIR produces): every assignment to _0 inside `reach` is a failure assignment, and _0 is
    # assigned on every path (no assignment-free path from from_bb to return).
    assigns = []
    for b in reach:
        blk = body.blocks[b]
        for st in blk['stmts']:
            if st['k'] == 'assign' and st['pl']['l'] == 0 and not st['pl']['p']:
                assigns.append((b, st['rv']))
        t = blk['term']
        if t['k'] == 'call' and t['dest']['l'] == 0 and not t['dest']['p']:
            assigns.append((b, Call(body, b, t)))
    for b, a in assigns:
        if isinstance(a, Call):
            if a.callee == FROM_RESIDUAL:
                continue
            return False, 'bb%d assigns the return value from %s' % (b, a.rdef or a.callee)
        rv = a
        if rv['k'] == 'agg' and rv['agg'] == 'adt' and rv.get('variant') in ('Err', 'None'):
            continue
        if rv['k'] == 'use' and _local_holds_failure(body, rv['op'], from_bb, reach, b):
            continue
        return False, 'bb%d assigns a non-failure return value' % b
    # an assignment-free path?
    ab = {b for b, _ in assigns}
    free = body.reachable_from(from_bb, avoid=set(avoid) | ab)
    if any(body.blocks[b]['term']['k'] == 'return' for b in free):
        return False, 'a path from bb%d reaches return without assigning a failure' % from_bb
    return True, 'all %d returns reachable carry a failure' % len(rets)


def _local_holds_failure(body, op, from_bb, reach, at_bb, depth=0):
    """`_0 = move L`: on every path from from_bb to at_bb the last definition of L is a failure
    (Err / None aggregate, from_residual result, or a move of such a local)"""
    l = op_local(op)
    if l is None or depth > 4:
        return False
    defs = [d for d in defuse(body).whole_defs(l)]
    inreg = [d for d in defs if d[0] in reach]
    if not inreg:
        return False
    # a path from from_bb to at_bb that avoids every in-region definition => value from outside
    avoid = {d[0] for d in inreg} - {from_bb}
    if from_bb not in {d[0] for d in inreg} and at_bb in body.reachable_from(from_bb, avoid=avoid):
        return False
    for (b, i, kind, payload, dproj) in inreg:
        # only definitions that can reach at_bb matter
        if at_bb not in body.reachable_from(b) :
            continue
        if kind == 'call':
            if payload.callee == FROM_RESIDUAL:
                continue
            return False
        rv = payload
        if rv['k'] == 'agg' and rv['agg'] == 'adt' and rv.get('variant') in ('Err', 'None'):
            continue
        if rv['k'] == 'use' and _local_holds_failure(body, rv['op'], from_bb, reach, b, depth + 1):
            continue
        return False
    return True


def _decided_by_earlier_switch(body, l, sb):
    """block sb is reachable only through one value-edge of an earlier switch on the discriminant of
    the same local l (re-test inserted by drop elaboration)"""
    from r_panic import edge_dominates
    du = defuse(body)
    for s2 in sorted(body.live_blocks):
        if s2 == sb:
            continue
        t2 = body.blocks[s2]['term']
        if t2['k'] != 'switch':
            continue
        dl = op_local(t2['discr'])
        defs = du.defs.get(dl, []) if dl is not None else []
        if len(defs) == 1 and defs[0][2] == 'assign' and defs[0][3]['k'] == 'discr' and defs[0][3]['pl']['l'] == l and not defs[0][3]['pl']['p']:
            for tb in [x for _, x in t2['targets']] + [t2['otherwise']]:
                if edge_dominates(body, s2, tb, sb):
                    return True
    return False


def _cleanup_tail(body, sb):
    """everything reachable from block sb is drops / gotos / flag bookkeeping up to the return: the
    switch is a drop-elaboration artefact, not program logic"""
    for b in body.reachable_from(sb):
        blk = body.blocks[b]
        for st in blk['stmts']:
            if st['k'] == 'assign':
                if st['rv']['k'] == 'discr':
                    continue
                if body.locals[st['pl']['l']]['ty'] == 'bool' and st['rv']['k'] == 'use' and st['rv']['op']['k'] == 'const' and not st['pl']['p']:
                    continue
                return False
        if blk['term']['k'] not in ('drop', 'goto', 'return', 'switch', 'unreachable'):
            return False
    return True


def _sentinel_arm(body, from_bb):
    """the enclosing function returns plain integers (cannot carry an error) and every return value
    assigned on the failure arm consists of negative integer constants only: "not found" sentinel"""
    from facts import op_const_int
    rty = body.locals[0]['ty']
    if not re.match(r'^\(?((i8|i16|i32|i64|isize)(, )?)+\)?$', rty):
        return False
    # region private to the failure arm: blocks reachable from it that the arm entry dominates
    reach = {b for b in body.reachable_from(from_bb) if body.dominates(from_bb, b)}
    found = False
    for b in reach:
        for st in body.blocks[b]['stmts']:
            if st['k'] == 'assign' and st['pl']['l'] == 0:
                rv = st['rv']
                ops = rv['ops'] if rv['k'] == 'agg' else ([rv['op']] if rv['k'] == 'use' else None)
                if ops is None:
                    return False
                for o in ops:
                    v = op_const_int(o)
                    if v is None or v >= 0:
                        return False
                found = True
        t = body.blocks[b]['term']
        if t['k'] == 'call' and t['dest']['l'] == 0:
            return False
    return found


def consume(body, c, depth=0):
    """classify how the result of call c is consumed: (class, detail)"""
    d = c.dest
    if d['p']:
        return ('stored', 'result stored into a field')
    if d['l'] == 0:
        return ('tail', 'returned as the function result')
    return consume_local(body, d['l'], c.term['dest']['ty'], depth)


def consume_local(body, l, ty, depth=0):
    if depth > 12:
        return ('unknown', 'too deep')
    uses = uses_of_local(body, l)
    classes = []
    tested = False
    for (b, i, how) in uses:
        k = how[0]
        if k == 'move':
            if how[1] == 0:
                classes.append(('tail', 'moved into the return place'))
            else:
                classes.append(consume_local(body, how[1], ty, depth + 1))
        elif k == 'arg':
            cc, argk, proj = how[1], how[2], how[3]
            m = _method(cc)
            if cc.callee == TRY_BRANCH:
                classes.append(('try', '? at %s' % cc.where()))
            elif m in ('or_else', 'or') and argk == 0 and (cc.callee or '').startswith('std::result::Result::'):
                # error recovery: the failure is handed to a fallback and may come back as a success
                classes.append(('defaulted', 'Result::%s replaces the failure by a fallback at %s' % (m, cc.where())))
            elif m in PRESERVING and argk == 0:
                if m in ('map_or', 'map_or_else'):
                    # default must itself be a failure
                    dflt = cc.args[1]
                    o = single_origin(trace_operand(body, dflt))
                    if m == 'map_or' and o is not None and o.kind == 'agg' and o.data[2].get('variant') in ('Err', 'None'):
                        classes.append(_after_comb(body, cc, m, depth))
                    else:
                        classes.append(('defaulted', '%s with a non-failure default at %s' % (m, cc.where())))
                else:
                    classes.append(_after_comb(body, cc, m, depth))
            elif m in DEFAULTING and argk == 0:
                classes.append(('defaulted', '%s at %s' % (m, cc.where())))
            elif m in UNWRAPS and argk == 0:
                classes.append(('unwrap', '%s at %s' % (m, cc.where())))
            elif cc.callee == 'std::mem::drop' or (cc.callee or '').endswith('::forget'):
                classes.append(('dropped', 'explicitly dropped at %s' % cc.where()))
            else:
                # handed to a helper of this crate: judged by what the helper does with that parameter
                prog = getattr(body.facts, '_prog', None)
                g = prog.by_id.get(cc.ruid) if prog is not None and cc.ruid else None
                if g is not None and not proj and argk < g.arg_count and depth < 8 and g.id != body.id:
                    sub = consume_local(g, argk + 1, ty, depth + 4)
                    if sub[0] == 'tail':
                        sub = consume(body, cc, depth + 4)
                    classes.append((sub[0], 'in helper %s: %s' % (g.name, sub[1])))
                else:
                    classes.append(('passed', 'passed to %s' % (cc.rdef or cc.callee)))
        elif k == 'ref':
            if len(how) > 2 and any(isinstance(e, dict) and 'dc' in e for e in (how[2] or [])):
                # `Ok(idx) if idx < len => ..`: the *payload* is borrowed for a match guard, after the variant test
                # (covered by the 'discr' use); the failure itself is not handed anywhere
                continue
            # &L passed to a test?
            rl = how[1]
            sub = uses_of_local(body, rl)
            for (b2, i2, h2) in sub:
                if h2[0] == 'arg' and _method(h2[1]) in TESTS:
                    tested = True
                elif h2[0] == 'arg':
                    m2 = _method(h2[1])
                    if m2 in PRESERVING:
                        classes.append(_after_comb(body, h2[1], m2, depth))
                    else:
                        classes.append(('passed', 'reference passed to %s' % (h2[1].rdef or h2[1].callee)))
                elif h2[0] in ('move', 'ref', 'discr', 'field'):
                    classes.append(('passed', 'borrowed'))
        elif k == 'discr':
            mc = _match_class(body, l, how[1], ty)
            if mc is not None:
                classes.append(mc)
        elif k == 'field':
            # payload moved out after a discriminant test: covered by the 'discr' use
            pass
        elif k == 'drop':
            pass
        elif k == 'agg':
            rv = how[2]
            if (rv['agg'] == 'tuple' or (rv['agg'] == 'adt' and rv.get('variant') in ('Some', 'Ok'))) and not body.blocks[b]['stmts'][i]['pl']['p']:
                idx = [n for n, o in enumerate(rv['ops']) if op_local(o) == l]
                sub = _consume_tuple_field(body, how[1], idx[0], ty, depth + 1) if idx else None
                classes.append(sub or ('stored', 'put into a tuple / wrapper that is not consumed field-wise'))
            else:
                classes.append(('stored', 'put into an aggregate'))
        else:
            classes.append(('other', str(k)))
    real = [c for c in classes if c[0] not in ()]
    if not real:
        if tested:
            return ('tested-only', 'only is_ok()/is_err()/is_some()/is_none() inspect the result')
        return ('dropped', 'the result is never used')
    # a guarded unwrap = tested + unwrap
    order = ['defaulted', 'dropped', 'tested-only', 'match-swallow', 'unknown', 'other', 'stored', 'passed', 'unwrap', 'match', 'combinator', 'try', 'tail']
    real.sort(key=lambda x: order.index(x[0]) if x[0] in order else 0)
    worst = real[0]
    if worst[0] == 'unwrap' and tested:
        return ('guarded', worst[1])
    return worst


def _is_field_k(proj, k):
    ps = [e for e in proj if e != 'deref']
    if len(ps) == 1 and isinstance(ps[0], dict) and ps[0].get('f') == k:
        return True
    if len(ps) == 2 and isinstance(ps[0], dict) and 'dc' in ps[0] and isinstance(ps[1], dict) and ps[1].get('f') == k:
        return True
    return False


def _consume_tuple_field(body, tl, k, ty, depth):
    """(a, b) = (f()?, ...) written as a tuple first: follow the moves of field k of the tuple local"""
    if depth > 12:
        return None
    classes = []
    for b in sorted(body.live_blocks):
        for st in body.blocks[b]['stmts']:
            if st['k'] == 'assign' and st['rv']['k'] == 'use':
                opl = op_place(st['rv']['op'])
                if opl is not None and opl['l'] == tl and _is_field_k(opl['p'], k) and not st['pl']['p']:
                    classes.append(consume_local(body, st['pl']['l'], ty, depth + 1))
        t = body.blocks[b]['term']
        if t['k'] == 'call':
            for a in t['args']:
                apl = op_place(a)
                if apl is not None and apl['l'] == tl and _is_field_k(apl['p'], k):
                    cc = Call(body, b, t)
                    if cc.callee == TRY_BRANCH:
                        classes.append(('try', '? at %s' % cc.where()))
                    else:
                        classes.append(('passed', 'passed to %s' % (cc.rdef or cc.callee)))
    if not classes:
        # the whole tuple may be moved on (e.g. into a pattern local) : follow one hop
        for b, i, pl, rv in body.assigns():
            if rv['k'] == 'use' and op_local(rv['op']) == tl and not pl['p']:
                return _consume_tuple_field(body, pl['l'], k, ty, depth + 1)
        return None
    order = ['defaulted', 'dropped', 'tested-only', 'match-swallow', 'unknown', 'other', 'stored', 'passed', 'unwrap', 'match', 'combinator', 'try', 'tail']
    classes.sort(key=lambda x: order.index(x[0]) if x[0] in order else 0)
    return classes[0]


def _after_comb(body, cc, m, depth):
    sub = consume(body, cc, depth + 1)
    if sub[0] in ('tail', 'try', 'match', 'combinator', 'guarded'):
        return ('combinator', '%s then %s' % (m, sub[0]))
    return (sub[0], '%s then %s' % (m, sub[1]))


def _match_class(body, l, discr_local, ty):
    """the discriminant of the result is switched on: the failure arm must reach only failure returns"""
    for b in sorted(body.live_blocks):
        t = body.blocks[b]['term']
        if t['k'] == 'switch' and op_local(t['discr']) == discr_local:
            if _cleanup_tail(body, b):
                return None     # drop-elaboration switch in the function's cleanup tail: not a use
            if _decided_by_earlier_switch(body, l, b):
                return None     # the variant was already fixed by a dominating switch on the same value
            is_opt = ty.startswith('std::option::Option<')
            fail_val = 0 if is_opt else 1
            tgt = None
            for v, tb in t['targets']:
                if v == fail_val:
                    tgt = tb
            if tgt is None:
                tgt = t['otherwise']
                if body.blocks[tgt]['term']['k'] == 'unreachable':
                    return ('match', 'failure arm unreachable')
            okk, why = returns_failure_only(body, tgt)
            if okk:
                return ('match', 'failure arm bb%d: %s' % (tgt, why))
            if _sentinel_arm(body, tgt):
                return ('match', 'failure arm bb%d returns a negative sentinel in a function that cannot return an error' % tgt)
            return ('match-swallow', 'failure arm bb%d continues to a success return: %s' % (tgt, why))
    return None    # a discriminant read that feeds no switch (drop elaboration artefact): not a use


ACCEPT = {'tail', 'try', 'match', 'combinator', 'guarded', 'unwrap'}


def fallible_calls(body, extra_callee_pred=None):
    out = []
    for c in body.live_calls:
        ty = c.term['dest']['ty']
        if is_crate_result(ty):
            out.append(c)
        elif extra_callee_pred and extra_callee_pred(c):
            out.append(c)
    return out


def rule_errd(bodies, rule='ERRD', exceptions=None, extra_callee_pred=None, only=None, lookup_miss=None):
    """one obligation per fallible call site in `bodies`.
    lookup_miss(call) -> True for a call whose failure means "no such entry" (a registry lookup): a body that itself
    cannot fail (its result type is not a Result / Option) may answer such a miss with a sentinel — the forms
    `if r.is_err() { return S }`, `match r { Err(_) => S, .. }`, `r.map_or(S, ..)`, `let Ok(x) = r else { return S }` are
    the same program"""
    exceptions = exceptions or {}
    obs = []
    for body in bodies:
        cnt = {}
        for c in fallible_calls(body, extra_callee_pred):
            if only and not only(c):
                continue
            if c.callee in (TRY_BRANCH, FROM_RESIDUAL):
                continue
            m = _method(c)
            if m is not None:
                continue   # combinators are judged from the producing call
            ck = c.rdef or c.callee or 'virtual'
            if c.is_virtual:
                ck = 'dyn ' + (c.callee or '')
            n = cnt.get(ck, 0)
            cnt[ck] = n + 1
            key = '%s|%s|%s|#%d' % (rule, body.name, ck, n)
            cls, detail = consume(body, c)
            exk = (body.name, ck)
            from r_panic import TOTAL_CTORS
            if cls in ('defaulted', 'dropped', 'tested-only') and ck in TOTAL_CTORS:
                obs.append(ok(rule, key, 'result of %s is %s, but the constructor is total: %s' % (ck, cls, TOTAL_CTORS[ck]), c.where(), cls='total'))
            elif cls in ACCEPT:
                obs.append(ok(rule, key, 'result of %s is %s (%s)' % (ck, cls, detail), c.where(), cls=cls))
            elif cls in ('match-swallow', 'defaulted') and lookup_miss is not None and lookup_miss(c) \
                    and not body.locals[0]['ty'].startswith(('std::result::Result<', 'std::option::Option<')):
                obs.append(ok(rule, key, 'a miss of the lookup %s is answered with a sentinel by a body that cannot fail itself (%s)' % (ck, cls), c.where(), cls='lookup-miss'))
            elif exk in exceptions and exceptions[exk][0] == cls:
                obs.append(assumed(rule, key, 'result of %s is %s — confirmed exception: %s' % (ck, cls, exceptions[exk][1]), c.where(), cls=cls))
            else:
                obs.append(bad(rule, key, 'failure of %s is not propagated: %s (%s)' % (ck, cls, detail), c.where(), body=body.name, bb=c.bb, cls=cls))
    return obs
