#!/usr/bin/env python3
"""debug helper: pretty-print bodies of a fact file.  usage: mirpp.py facts.json <substring>"""
import sys
from facts import Facts
f = Facts(sys.argv[1])
pat = sys.argv[2] if len(sys.argv) > 2 else ''
for b in f.bodies:
    if pat in b.name or pat in b.id:
        print(b.pretty())
        print()
