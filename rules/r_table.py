"""Built-in registration table (TPREC) read off the fillers' MIR by a small value-set analysis:
constants, tuple / array aggregates, vec! literals and forward iteration over them are
transparent containers; tuple correlation is kept (rows of one literal element stay together)."""
import re, os
from facts import op_local, op_place, op_const_int, op_const_str, Call
from analysis import (defuse, trace_operand, trace_local, single_origin, Origin, TRANSPARENT_CALLS)
from engine import ok, bad, assumed, floor, VERIF

VEC_MAKERS = ('std::boxed::box_assume_init_into_vec_unsafe', 'std::slice::<impl [T]>::into_vec', 'alloc::slice::<impl [T]>::into_vec',
              'std::vec::from_elem', 'std::convert::From::from', 'std::slice::<impl [T]>::to_vec')
THROUGH = set(TRANSPARENT_CALLS) | {'std::clone::Clone::clone'}


FN_CONSTS = {}      # 'fn:<uid>' / 'enum:<adt>::<variant>' -> the constant operand (to specialise a handler on what it captured)


class EnumVal(str):
    """the name of a field-less enum variant used as a constant (compares equal to the plain name); .adt / .vi / .key"""
    adt = None
    vi = None
    key = None


def _const_val(body, op):
    """python value of a constant operand (str / int / enum unit variant name) or None"""
    o = single_origin(trace_operand(body, op, through_calls=THROUGH))
    if o is None:
        return None
    if o.kind == 'const' and not o.proj:
        s = op_const_str(o.data)
        if s is not None:
            return s
        if 'int' in o.data:
            return o.data['int']
        if o.data.get('fn'):
            FN_CONSTS['fn:' + o.data['fn']['uid']] = o.data
            return 'fn:' + o.data['fn']['uid']      # a fn item (possibly coerced to a fn pointer)
        return None
    if o.kind == 'agg' and not o.proj and o.data[2]['agg'] == 'adt' and not o.data[2]['ops']:
        rv = o.data[2]
        ev = EnumVal(rv['variant'])
        ev.adt, ev.vi = rv.get('adt'), rv.get('vi')
        ev.key = 'enum:%s::%s' % (ev.adt, rv['variant'])
        FN_CONSTS[ev.key] = {'k': 'const', 'ty': ev.adt or '', 's': '%s::%s' % (ev.adt, rv['variant']), 'enum': {'adt': ev.adt, 'variant': rv['variant'], 'vi': ev.vi}}
        return ev
    if o.kind == 'agg' and not o.proj and o.data[2]['agg'] == 'closure' and not o.data[2]['ops']:
        # a non-capturing closure used as a fn pointer (`bool_handler(|a, b| a || b)`)
        key = 'fn:' + o.data[2]['closure']
        FN_CONSTS[key] = {'k': 'const', 'ty': 'fn', 's': 'closure ' + o.data[2]['closure'], 'closure': o.data[2]['closure']}
        return key
    return None


def vec_literal(body, vec_op):
    """operands of the array literal a Vec was built from (vec![..]), or None"""
    o = single_origin(trace_operand(body, vec_op, through_calls=THROUGH))
    for _ in range(3):
        if o is not None and o.kind == 'callres' and o.data.callee == 'std::iter::IntoIterator::into_iter':
            o = single_origin(trace_operand(body, o.data.args[0], through_calls=THROUGH))
        else:
            break
    if o is None:
        return None
    if o.kind == 'agg' and o.data[2]['agg'] == 'array':
        return o.data[2]['ops']
    if o.kind == 'const' and not o.proj and isinstance(o.data, dict) and o.data.get('uneval_uid'):
        # a `const TABLE: [..; N] = [..]` item: its own body builds the array
        prog = getattr(body.facts, '_prog', None)
        cb = prog.by_id.get(o.data['uneval_uid']) if prog else None
        if cb is not None:
            ro = single_origin(trace_local(cb, 0, (), through_calls=THROUGH))
            if ro is not None and ro.kind == 'agg' and ro.data[2]['agg'] == 'array' and not ro.proj:
                return [('@', cb, x) for x in ro.data[2]['ops']]
        return None
    if o.kind != 'callres' or o.proj:
        return None
    c = o.data
    if c.callee not in VEC_MAKERS and not (c.callee or '').endswith('into_vec'):
        return None
    bo = single_origin(trace_operand(body, c.args[0], through_calls=THROUGH))
    if bo is None:
        return None
    if bo.kind == 'agg' and bo.data[2]['agg'] == 'array':
        return bo.data[2]['ops']
    if bo.kind == 'callres':
        bc = bo.data
        if (bc.callee or '').endswith('Box::<T>::new') and bc.args:
            ao = single_origin(trace_operand(body, bc.args[0], through_calls=THROUGH))
            if ao is not None and ao.kind == 'agg' and ao.data[2]['agg'] == 'array':
                return ao.data[2]['ops']
        if (bc.callee or '').endswith('new_uninit'):
            # the array is stored through a raw pointer derived from the box
            for b, i, pl, rv in body.assigns():
                if rv['k'] == 'agg' and rv['agg'] == 'array' and pl['p']:
                    po = single_origin(trace_local(body, pl['l'], (), through_calls=THROUGH))
                    if po is not None and po.kind == 'callres' and po.data.bb == bc.bb:
                        return rv['ops']
    return None


def elem_value(body, op):
    """value of one literal element: const or tuple of consts"""
    if isinstance(op, tuple) and op and op[0] == '@':
        body, op = op[1], op[2]       # element of a const item: evaluated in the const's own body
    v = _const_val(body, op)
    if v is not None:
        return v
    o = single_origin(trace_operand(body, op, through_calls=THROUGH))
    if o is not None and o.kind == 'agg' and o.data[2]['agg'] == 'tuple' and not o.proj:
        vals = tuple(_comp_val(body, x) for x in o.data[2]['ops'])
        if all(v is not None for v in vals):
            return vals
    return None


def _comp_val(body, x):
    """one component of a table row: a constant, or a handler built on the spot (`Arc::new(closure)`,
    `factory(fn item)`): ('handler', closure uid, {upvar: constant})"""
    v = _const_val(body, x)
    if v is not None:
        return v
    prog = getattr(body.facts, '_prog', None)
    if prog is None:
        return None
    clo = handler_closure(prog, body, x)
    if clo:
        return ('handler', clo, ())
    hf = handler_factory(prog, body, x)
    if hf is not None:
        bd = {i: _const_val(body, a) for i, a in hf[1].items()}
        if all(v is not None for v in bd.values()):
            return ('handler', hf[0], tuple(sorted(bd.items())))
    return None


def arg_values(body, op):
    """('const', v)  |  ('elem', next-call bb, index path, [values per element])  |  None"""
    v = _const_val(body, op)
    if v is not None:
        return ('const', v)
    o = single_origin(trace_operand(body, op, through_calls=THROUGH))
    if o is not None and o.kind == 'callres' and (o.data.rdef or '').endswith('as std::iter::Iterator>::next') and o.proj[:2] == (('dc', 'Some'), ('f', 0)):
        nxt = o.data
        it = single_origin(trace_operand(body, nxt.args[0], through_calls=THROUGH))
        if it is None or it.kind != 'callres':
            return None
        elems = vec_literal(body, it.data.args[0]) if it.data.callee == 'std::iter::IntoIterator::into_iter' else None
        if elems is None:
            return None
        path = [p[1] for p in o.proj[2:] if p[0] == 'f']
        vals = []
        for e in elems:
            ev = elem_value(body, e)
            if ev is None:
                return None
            for k in path:
                if not isinstance(ev, tuple) or k >= len(ev):
                    return None
                ev = ev[k]
            vals.append(ev)
        return ('elem', nxt.bb, tuple(path), vals)
    return None


def handler_closure(prog, body, op):
    """uid of the closure / fn item wrapped into the handler argument"""
    o = single_origin(trace_operand(body, op, through_calls=THROUGH))
    if o is not None and o.kind == 'callres' and (o.data.callee or '').endswith('::new') and o.data.args:
        a = single_origin(trace_operand(body, o.data.args[0], through_calls=THROUGH))
        if a is not None and a.kind == 'agg' and a.data[2]['agg'] == 'closure':
            return a.data[2]['closure']
        if a is not None and a.kind == 'const' and 'fn' in a.data:
            return a.data['fn']['uid']
    return None


def closure_enum_binds(prog, body, op):
    """{captured-variable index: descriptor} for the captured values of the handler closure that are field-less enum
    constants (`Arc::new(move |l, r| .. match kind ..)` with `kind` drawn from the table row)"""
    o = single_origin(trace_operand(body, op, through_calls=THROUGH))
    if o is None or o.kind != 'callres' or not (o.data.callee or '').endswith('::new') or not o.data.args:
        return {}
    a = single_origin(trace_operand(body, o.data.args[0], through_calls=THROUGH))
    if a is None or a.kind != 'agg' or a.data[2]['agg'] != 'closure':
        return {}
    out = {}
    for i, x in enumerate(a.data[2]['ops']):
        av = arg_values(body, x)
        if av is None:
            continue
        vals = [av[1]] if av[0] == 'const' else av[3]
        if vals and (all(isinstance(v, EnumVal) for v in vals) or all(isinstance(v, str) and v.startswith('fn:') for v in vals)):
            out[i] = av
    return out


def handler_elem(prog, body, op):
    """handler = Arc::new(f) where f is the fn-pointer component of the table element being registered:
    the 'elem' descriptor whose values are 'fn:<uid>'"""
    o = single_origin(trace_operand(body, op, through_calls=THROUGH))
    if o is not None and o.kind == 'callres' and (o.data.callee or '').endswith('::new') and o.data.args:
        av = arg_values(body, o.data.args[0])
        if av is not None and av[0] == 'elem' and all(isinstance(v, str) and v.startswith('fn:') for v in av[3]):
            return av
    return None


def handler_factory(prog, body, op):
    """handler built by a local factory `H(x, ..)` that returns Arc::new(closure capturing its parameters):
    (closure uid, {upvar index: operand of the factory call}) or None"""
    o = single_origin(trace_operand(body, op, through_calls=THROUGH))
    if o is None or o.kind != 'callres' or o.proj or o.data.ruid is None or o.data.ruid not in prog.by_id:
        return None
    c = o.data
    H = prog.by_id[c.ruid]
    ro = single_origin(trace_local(H, 0, (), through_calls=THROUGH))
    if ro is None or ro.kind != 'callres' or not (ro.data.callee or '').endswith('::new') or not ro.data.args:
        return None
    a = single_origin(trace_operand(H, ro.data.args[0], through_calls=THROUGH))
    if a is None or a.kind != 'agg' or a.data[2]['agg'] != 'closure':
        return None
    bind = {}
    for i, x in enumerate(a.data[2]['ops']):
        xo = single_origin(trace_operand(H, x, through_calls=THROUGH))
        if xo is None or xo.kind != 'param' or xo.proj or xo.data - 1 >= len(c.args):
            return None
        bind[i] = c.args[xo.data - 1]
    return a.data[2]['closure'], bind


def _desc_of(W, op, descs, depth=0):
    """descriptor of an operand inside family member W, given descriptors of W's parameters 2..n"""
    if depth > 4:
        return ('?',)
    v = _const_val(W, op)
    if v is not None:
        return ('const', v)
    o = single_origin(trace_operand(W, op, through_calls=THROUGH | {'std::string::ToString::to_string'}))
    if o is None:
        return ('?',)
    if o.kind == 'param':
        if o.data == 1:
            return ('self',)
        if not o.proj and o.data - 2 < len(descs):
            return descs[o.data - 2]
        return ('?',)
    if o.kind == 'agg' and o.data[2]['agg'] in ('adt', 'tuple') and not o.proj:
        return ('tuple', [_desc_of(W, x, descs, depth + 1) for x in o.data[2]['ops']])
    return ('?',)


def descend(prog, rm, W, descs, depth=0):
    """follow a registration through the writer family down to the HashMap::insert:
    (key descriptor, value descriptor)"""
    if depth > 5:
        return None
    if W.id in rm.leaf:
        ins = [x for x in rm.leaf[W.id] if (x.callee or '').endswith('::insert')]
        if not ins:
            return None
        c = ins[0]
        if len(c.args) < 3:
            return None
        return _desc_of(W, c.args[1], descs), _desc_of(W, c.args[2], descs)
    c = rm.forward_call.get(W.id)
    if c is None:
        return None
    inner = [_desc_of(W, a, descs) for a in c.args[1:]]
    return descend(prog, rm, prog.by_id[c.ruid], inner, depth + 1)


def builtin_rows(prog, rm):
    """rows registered by the built-in fillers: dicts {writer, name, args: [...], closure}; each
    registration is followed through wrapper / generic helpers down to the map insert"""
    rows = []
    problems = []
    fbs = []
    for fid in rm.fillers:
        fb = prog.by_id[fid]
        if fb.is_closure and fb.j.get('parent') in prog.by_id:
            # registrations made inside a closure handed to an iterator adaptor (`[..].into_iter().for_each(|op| self.register(op, ..))`):
            # read in the enclosing body with the pipeline written out as a loop
            pv = prog.view(prog.by_id[fb.j['parent']], keep=lambda g: True, tag='comb')
            if getattr(pv, 'is_view', False) and fb.name in (pv.j.get('inlined') or []):
                fb = pv
        if fb not in fbs and not any(getattr(x, 'orig_id', x.id) == getattr(fb, 'orig_id', fb.id) and getattr(x, 'is_view', False) for x in fbs):
            fbs.append(fb)
    # a filler that is itself read through a view of it must not be read twice
    vids = {getattr(x, 'orig_id', None) for x in fbs if getattr(x, 'is_view', False)}
    fbs = [x for x in fbs if getattr(x, 'is_view', False) or x.id not in vids]
    for fb in fbs:
        for c in fb.live_calls:
            if c.ruid not in rm.family:
                continue
            w = prog.by_id[c.ruid]
            descs = []
            for a in c.args[1:]:
                av = arg_values(fb, a)
                if av is not None and av[0] == 'elem' and all(isinstance(v, tuple) and v and v[0] == 'handler' for v in av[3]):
                    descs.append(('handler-rows', av))      # the handler is a component of the table row
                    continue
                if av is not None:
                    descs.append(av)
                    continue
                clo = handler_closure(prog, fb, a)
                if clo:
                    descs.append(('handler', clo, closure_enum_binds(prog, fb, a)))
                    continue
                he = handler_elem(prog, fb, a)
                if he is not None:
                    descs.append(('handler-elem', he))
                    continue
                hf = handler_factory(prog, fb, a)
                if hf is not None:
                    bd = {i: arg_values(fb, x) for i, x in hf[1].items()}
                    if all(v is not None for v in bd.values()):
                        descs.append(('handler', hf[0], bd))
                        continue
                descs.append(('?',))
            res = descend(prog, rm, w, descs)
            if res is None:
                problems.append((fb, c, 'cannot follow the registration at %s down to the map insert' % c.where()))
                continue
            key, val = res
            fields = val[1] if val[0] == 'tuple' else [val]
            flat = [key] + fields
            if any(f[0] == '?' for f in flat):
                problems.append((fb, c, 'cannot evaluate the registration arguments at %s' % c.where()))
                continue
            n = None
            for f in flat:
                if f[0] == 'elem':
                    n = len(f[3]) if n is None else n
            clo = None
            bind = {}
            clo_elem = None
            clo_rows = None
            for f in fields:
                if f[0] == 'handler-rows':
                    clo_rows = f[1]
                    n = len(clo_rows[3]) if n is None else n
                if f[0] == 'handler-elem':
                    clo_elem = f[1]
                    n = len(clo_elem[3]) if n is None else n
                if f[0] == 'handler':
                    clo = f[1]
                    bind = f[2] if len(f) > 2 else {}
                    for bv in bind.values():
                        if bv[0] == 'elem':
                            n = len(bv[3]) if n is None else n
            def val_of(f, k):
                if f[0] == 'const':
                    return f[1]
                if f[0] == 'elem':
                    return f[3][k]
                return None
            leafw = w
            for k in range(n or 1):
                if clo_rows is not None:
                    rows.append({'writer': w.name, 'filler': fb.name, 'name': val_of(key, k),
                                 'args': [val_of(f, k) for f in fields if f[0] not in ('handler', 'handler-elem', 'handler-rows')],
                                 'closure': clo_rows[3][k][1], 'bind': dict(clo_rows[3][k][2]), 'where': c.where(), 'arity': len(c.args)})
                    continue
                rows.append({'writer': w.name, 'filler': fb.name, 'name': val_of(key, k),
                             'args': [val_of(f, k) for f in fields if f[0] not in ('handler', 'handler-elem')],
                             'closure': (clo_elem[3][k][3:] if clo_elem is not None else clo), 'bind': {i: val_of(bv, k) for i, bv in bind.items()}, 'where': c.where(), 'arity': len(c.args)})
    return rows, problems


def readme_table(root):
    """rows of the README BinaryExpression table: {operator: precedence}"""
    p = os.path.join(root, 'README.md')
    out = {}
    if not os.path.exists(p):
        return None
    txt = open(p).read()
    m = re.search(r'\|\s*Operator\s*\|\s*Precedence\s*\|.*?\n((?:\|.*\n)+)', txt)
    if not m:
        return None
    for line in m.group(1).splitlines():
        if re.match(r'^\|\s*-{3,}\s*\|', line):
            continue
        cells = re.split(r'(?<!\\)\|', line)
        cells = [c.strip().replace('\\|', '|') for c in cells[1:-1]]
        if len(cells) >= 2 and re.match(r'^\d+$', cells[1]):
            out[cells[0]] = int(cells[1])
    return out


def rule_tprec(ctx, rm):
    prog = ctx.prog
    obs = []
    rows, problems = builtin_rows(prog, rm)
    for fb, c, w in problems:
        obs.append(bad('TPREC', 'TPREC|eval|%s|bb%d' % (fb.name, 0), w, c.where(), body=fb.name))
    infix = [r for r in rows if len(r['args']) == 3]
    obs.append(floor('TPREC', 'infix-rows', len(infix), 25, 'the documented infix operators'))
    doc = readme_table(ctx.root)
    if doc is None:
        obs.append(bad('TPREC', 'TPREC|readme', 'anchor lost: README.md has no "| Operator | Precedence |" table'))
        doc = {}
    seen = {}
    for r in infix:
        name, (prec, ty, assoc) = r['name'], r['args']
        key = 'TPREC|row|%s' % name
        problems = []
        if name in seen and seen[name] != (prec, ty, assoc):
            problems.append('registered twice with different rows: %s and %s' % (seen[name], (prec, ty, assoc)))
        seen[name] = (prec, ty, assoc)
        if name in doc and doc[name] != prec:
            problems.append('precedence %s, documented %s' % (prec, doc[name]))
        if name not in doc and name != 'in':
            problems.append('not in the documented table')
        if ty == 'SETTER' and assoc != 'RIGHT':
            problems.append('assignment operator registered %s-associative (must be RIGHT)' % assoc)
        if ty == 'CALC' and assoc != 'LEFT':
            problems.append('calculation operator registered %s-associative (must be LEFT)' % assoc)
        if ty not in ('SETTER', 'CALC'):
            problems.append('unknown operator type %s' % ty)
        if isinstance(name, str) and name.endswith('=') and name not in ('==', '!=', '<=', '>=') and ty != 'SETTER':
            problems.append('compound assignment registered as %s' % ty)
        if problems:
            obs.append(bad('TPREC', key, 'built-in infix operator `%s`: %s' % (name, '; '.join(problems)), r['where']))
        else:
            obs.append(ok('TPREC', key, '`%s`: precedence %s %s %s = documented table' % (name, prec, ty, assoc), r['where']))
    for name, p in sorted(doc.items()):
        if name not in seen:
            obs.append(bad('TPREC', 'TPREC|missing|%s' % name, 'documented operator `%s` (precedence %d) is not registered by the built-in filler' % (name, p)))
    if 'in' in seen and 'beginWith' in seen:
        if seen['in'][0] != seen['beginWith'][0]:
            obs.append(bad('TPREC', 'TPREC|in-level', '`in` is registered at %s, not at the beginWith / endWith level %s' % (seen['in'][0], seen['beginWith'][0])))
        else:
            obs.append(ok('TPREC', 'TPREC|in-level', '`in` sits at the beginWith / endWith level (%s)' % seen['in'][0]))
    return obs, rows
