"""TOP (operator literal <-> operation) and AGGR (aggregates consume every argument) — C03/C06 ext."""
import re, os
from facts import op_local, op_place, op_const_int, op_const_str, Call
from analysis import (defuse, trace_operand, trace_local, single_origin, Origin, TRANSPARENT_CALLS, trace_operand_at)
from engine import ok, bad, assumed, floor, VERIF
from r_panic import bool_source, switch_edges
import r_order, r_value

THROUGH = set(TRANSPARENT_CALLS) | {'std::clone::Clone::clone'}
SIDE_THROUGH = THROUGH | {'std::convert::TryFrom::try_from', 'std::convert::TryInto::try_into', 'std::result::Result::<T, E>::map_err',
                          'std::convert::Into::into', 'std::convert::From::from', 'std::result::Result::<T, E>::ok', 'std::option::Option::<T>::ok_or'}


def load_spec():
    spec = {}
    with open(os.path.join(VERIF, 'spec', 'op_semantics.tsv')) as f:
        for line in f:
            if line.startswith('#') or not line.strip():
                continue
            lit, cls, tok, comm, note = line.rstrip('\n').split('\t')
            spec[lit] = (cls, tok, comm == 'yes')
    return spec


CALL_TOKENS = [
    (re.compile(r'::checked_add$|std::ops::Add(Assign)?::add(_assign)?$'), ('arith', 'add')),
    (re.compile(r'::checked_sub$|std::ops::Sub(Assign)?::sub(_assign)?$'), ('arith', 'sub')),
    (re.compile(r'::checked_mul$|std::ops::Mul(Assign)?::mul(_assign)?$'), ('arith', 'mul')),
    (re.compile(r'::checked_div$|std::ops::Div(Assign)?::div(_assign)?$'), ('arith', 'div')),
    (re.compile(r'::checked_rem$|std::ops::Rem(Assign)?::rem(_assign)?$'), ('arith', 'rem')),
    (re.compile(r'std::cmp::PartialOrd::lt$'), ('cmp', 'lt')),
    (re.compile(r'std::cmp::PartialOrd::le$'), ('cmp', 'le')),
    (re.compile(r'std::cmp::PartialOrd::gt$'), ('cmp', 'gt')),
    (re.compile(r'std::cmp::PartialOrd::ge$'), ('cmp', 'ge')),
    (re.compile(r'std::cmp::PartialEq::eq$'), ('cmp', 'eq')),
    (re.compile(r'std::cmp::PartialEq::ne$'), ('cmp', 'ne')),
    (re.compile(r'::checked_shl$|::wrapping_shl$|::overflowing_shl$|::unbounded_shl$'), ('shift', 'shl')),
    (re.compile(r'::checked_shr$|::wrapping_shr$|::overflowing_shr$|::unbounded_shr$'), ('shift', 'shr')),
    (re.compile(r'std::ops::Neg::neg$'), ('unary', 'neg')),
    (re.compile(r'std::ops::Not::not$'), ('unary', 'not')),
    (re.compile(r'<impl str>::starts_with$'), ('str', 'starts_with')),
    (re.compile(r'<impl str>::ends_with$'), ('str', 'ends_with')),
    (re.compile(r'<impl str>::contains$'), ('str', 'contains')),
]
BINOP_TOKENS = {'BitOr': ('bit', 'bitor'), 'BitXor': ('bit', 'bitxor'), 'BitAnd': ('bit', 'bitand'), 'Shl': ('shift', 'shl'), 'Shr': ('shift', 'shr'),
                'Add': ('arith', 'add'), 'Sub': ('arith', 'sub'), 'Mul': ('arith', 'mul'), 'Div': ('arith', 'div'), 'Rem': ('arith', 'rem'),
                'AddWithOverflow': ('arith', 'add'), 'SubWithOverflow': ('arith', 'sub'), 'MulWithOverflow': ('arith', 'mul'),
                'Lt': ('cmp', 'lt'), 'Le': ('cmp', 'le'), 'Gt': ('cmp', 'gt'), 'Ge': ('cmp', 'ge'), 'Eq': ('cmp', 'eq'), 'Ne': ('cmp', 'ne')}
FLIP = {'lt': 'gt', 'gt': 'lt', 'le': 'ge', 'ge': 'le', 'eq': 'eq', 'ne': 'ne'}


def _only_wrappers(proj):
    return all(p in (('dc', 'Ok'), ('dc', 'Some'), ('f', 0)) for p in proj)


class Arms:
    """string-literal arms of a body that matches on a &str value"""

    def __init__(self, body):
        self.body = body
        self.lits = {}       # literal -> true-edge target block
        self.scrutinee = None
        for sb in sorted(body.live_blocks):
            t = body.blocks[sb]['term']
            if t['k'] != 'switch':
                continue
            src = bool_source(body, t['discr'])
            if src is None:
                continue
            tc, parity = src
            if (tc.rdef or '') != 'core::str::traits::<impl std::cmp::PartialEq for str>::eq' and tc.callee != 'std::cmp::PartialEq::eq':
                continue
            lit = None
            other = None
            for a in tc.args[:2]:
                s = op_const_str(a)
                if s is None:
                    o = single_origin(trace_operand(body, a, through_calls=THROUGH))
                    if o is not None and o.kind == 'const':
                        s = op_const_str(o.data)
                if s is not None:
                    lit = s
                else:
                    other = a
            if lit is None or other is None:
                continue
            listed = [v for v, _ in t['targets']]
            for v, tb in switch_edges(body, sb):
                tv = (1 if listed == [0] else 0 if listed == [1] else None) if v == 'otherwise' else (1 if v != 0 else 0)
                if tv is not None and (tv ^ parity) == 1:
                    self.lits[lit] = tb
                    self.scrutinee = other

    def regions(self):
        """literal -> blocks reachable from its arm before the point where all arms merge"""
        b = self.body
        reach = {l: b.reachable_from(t) for l, t in self.lits.items()}
        if not reach:
            return {}
        targets = set(self.lits.values())
        common = None
        # merge = blocks reachable from every distinct arm target
        for t in targets:
            r = b.reachable_from(t)
            common = r if common is None else (common & r)
        if len(targets) == 1:
            common = set()
        return {l: reach[l] - (common or set()) for l in reach}


def _tokens_in(prog, body, blocks, side_fn, depth=0):
    """[(class, token, (sideA, sideB))] of operations performed in `blocks`"""
    out = []
    for bb in sorted(blocks):
        blk = body.blocks[bb]
        for st in blk['stmts']:
            if st['k'] == 'assign' and st['rv']['k'] == 'binop' and st['rv']['op'] in BINOP_TOKENS:
                rv = st['rv']
                if rv.get('aty') in ('bool',):
                    continue
                if rv['a']['k'] == 'const' and rv['b']['k'] == 'const':
                    continue
                cls, tok = BINOP_TOKENS[rv['op']]
                # usize arithmetic etc. is not an operator implementation
                if not re.match(r'^(i64|i128|i32|u64|rust_decimal::Decimal|value::Value)$', rv.get('aty', '')):
                    continue
                out.append((cls, tok, (side_fn(body, rv['a'], bb), side_fn(body, rv['b'], bb)), '%s:%d' % (blk['span']['file'], st.get('span', blk['span'])['line'])))
        for st in blk['stmts']:
            if st['k'] == 'assign' and st['rv']['k'] == 'unop' and st['rv']['op'] in ('Not', 'Neg') and st['rv'].get('aty') in ('bool', 'i64', 'i128'):
                out.append(('unary', st['rv']['op'].lower(), (side_fn(body, st['rv']['a'], bb), None), '%s:%d' % (blk['span']['file'], blk['span']['line'])))
        tsw = blk['term']
        if tsw['k'] == 'switch' and tsw.get('dty') == 'bool':
            sc = _short_circuit(body, bb, side_fn)
            if sc:
                out.append(('bool', sc[0], sc[1], '%s:%d' % (blk['span']['file'], blk['span']['line'])))
        c = body.call_at(bb)
        if c is None:
            continue
        nme = c.callee or ''
        hit = None
        for rx, ct in CALL_TOKENS:
            if rx.search(nme) or rx.search(c.rdef or ''):
                hit = ct
        if hit:
            # ignore comparisons of the operator *name* itself
            if hit[0] == 'cmp' and c.fn and all(a in ('str', '&str') for a in c.fn.get('args', [])[:1]):
                continue
            a0 = side_fn(body, c.args[0], bb) if c.args else None
            a1 = side_fn(body, c.args[1], bb) if len(c.args) > 1 else None
            out.append((hit[0], hit[1], (a0, a1), c.where()))
        elif c.ruid is not None and depth < 2 and c.ruid in prog.by_id:
            # a local helper selected by a constant flag (e.g. shift(left: bool, a, n)): evaluate its
            # constant-flag switch and collect the tokens on that side
            g = prog.by_id[c.ruid]
            consts = {k + 1: op_const_int(a) for k, a in enumerate(c.args) if op_const_int(a) is not None}
            blocks_g = _blocks_under_consts(g, consts)
            def side_g(gb, op, at=None, c=c, outer=side_fn, body=body):
                o = single_origin(trace_operand_at(gb, op, at, through_calls=SIDE_THROUGH) if at is not None else trace_operand(gb, op, through_calls=SIDE_THROUGH))
                if o is not None and o.kind == 'param' and _only_wrappers(o.proj) and o.data - 1 < len(c.args):
                    return outer(body, c.args[o.data - 1], c.bb)
                return None
            out += _tokens_in(prog, g, blocks_g, side_g, depth + 1)
    return out


def _short_circuit(body, sb, side_fn):
    """`a || b` / `a && b` compile to a switch on a with one arm yielding a constant and the other b"""
    t = body.blocks[sb]['term']
    a_side = side_fn(body, t['discr'], sb)
    listed = [v for v, _ in t['targets']]
    tgt = {}
    for v, tb in switch_edges(body, sb):
        tv = (1 if listed == [0] else 0 if listed == [1] else None) if v == 'otherwise' else (1 if v != 0 else 0)
        if tv is not None:
            tgt[tv] = tb
    if set(tgt) != {0, 1}:
        return None
    vals = {}
    for tv, tb in tgt.items():
        asg = [st for st in body.blocks[tb]['stmts'] if st['k'] == 'assign' and body.locals[st['pl']['l']]['ty'] == 'bool' and not st['pl']['p']]
        if len(asg) != 1 or asg[0]['rv']['k'] != 'use':
            return None
        op = asg[0]['rv']['op']
        if op['k'] == 'const':
            vals[tv] = ('const', op_const_int(op))
        else:
            vals[tv] = ('side', side_fn(body, op, tb))
    if vals[1] == ('const', 1) and vals[0][0] == 'side':
        return ('or', (a_side, vals[0][1]))
    if vals[0] == ('const', 0) and vals[1][0] == 'side':
        return ('and', (a_side, vals[1][1]))
    return None


def _blocks_under_consts(g, consts):
    """blocks of g reachable when the parameters in `consts` have the given constant values"""
    seen = set()
    st = [0]
    while st:
        bb = st.pop()
        if bb in seen:
            continue
        seen.add(bb)
        t = g.blocks[bb]['term']
        if t['k'] == 'switch':
            o = single_origin(trace_operand(g, t['discr'], through_calls=set()))
            if o is not None and o.kind == 'param' and not o.proj and o.data in consts:
                v = consts[o.data]
                nxt = t['otherwise']
                for vv, tb in t['targets']:
                    if vv == v:
                        nxt = tb
                st.append(nxt)
                continue
        st.extend(g.succ[bb])
    return seen


def _closure_side(prog, acc_ids):
    """side function for a handler closure: 'L' / 'R' for values derived from the 1st / 2nd Value
    parameter (through a typed accessor and ?)"""
    handler_ids = {h.id for h in prog.builtin_handlers()}
    def side(body, op, at=None, depth=0):
        if depth > 4:
            return None
        origins = trace_operand_at(body, op, at, through_calls=SIDE_THROUGH) if at is not None else trace_operand(body, op, through_calls=SIDE_THROUGH)
        o = single_origin(origins)
        if o is None:
            return None
        if o.kind == 'param' and (body.is_closure or body.id in handler_ids):
            base = 2 if body.is_closure else 1     # a closure's first parameter is its environment
            if o.data == base:
                return 'L'
            if o.data == base + 1:
                return 'R'
            return None
        if o.kind == 'callres' and o.data.ruid in acc_ids and o.data.args:
            return side(body, o.data.args[0], o.data.bb, depth + 1)
        if o.kind == 'param' and not body.is_closure:
            # helper parameter: map through its call sites in handler closures
            res = set()
            for caller_id in prog.callers.get(body.id, ()):
                for c in prog.edge_sites.get((caller_id, body.id), []):
                    if o.data - 1 < len(c.args):
                        res.add(side(c.body, c.args[o.data - 1], c.bb, depth + 1))
            return res.pop() if len(res) == 1 else None
        return None
    return side


def rule_top(prog, rows):
    """per built-in closure registered under several literals: the arm literals cover the
    registered names, and each arm performs the operation the language assigns to its literal"""
    spec = load_spec()
    acc_ids = {b.id for b in r_value.accessors(prog)}
    side = _closure_side(prog, acc_ids)
    obs = []
    by_closure = _groups(rows)      # infix registrations only
    n_arms = 0
    for (cu, bk), names in sorted(by_closure.items()):
        clo = _group_body(prog, cu, bk)
        if clo is None:
            continue
        spec_names = [n for n in names if n in spec]
        if not spec_names:
            continue
        # where is the literal match: in the closure, or in a helper that receives the captured name
        bodies = [clo] + ([] if getattr(clo, 'is_view', False) else [prog.by_id[x] for x in prog.reach([clo.id]) if x != clo.id and not prog.by_id[x].impl_trait])
        arms_by_body = [(b, Arms(b)) for b in bodies]
        arms_by_body = [(b, a) for b, a in arms_by_body if a.lits]
        covered = set()
        for b, a in arms_by_body:
            covered |= set(a.lits)
        key0 = 'TOP|cover|%s' % '/'.join(sorted(names))
        if len(names) > 1 or arms_by_body:
            missing = [n for n in names if n not in covered]
            if missing and arms_by_body:
                obs.append(bad('TOP', key0, 'registered operator(s) %s have no arm in the handler registered for %s: they fall into the default arm and silently return an operand' % (missing, names), clo.where(), body=clo.name))
            elif arms_by_body:
                obs.append(ok('TOP', key0, 'every registered literal %s has its own arm' % names, clo.where()))
        if not arms_by_body and (len(names) == 1 or bk):
            # single-operator closure (or one closure specialised on the fn it captured, registered under the
            # plain and the compound literal): the whole body is the arm
            if getattr(prog, '_handler_views', False) and len(names) == 1:
                # (second reading: a helper that matches on the operator name was opened with the one literal this handler
                # passes, and the match folded away — the cover question of the first reading is answered by the arm check)
                obs.append(ok('TOP', key0, 'the handler is specialised to the single literal %s it is registered under' % names, clo.where()))
            toks = _tokens_in(prog, clo, clo.live_blocks, side)
            for nm in spec_names:
                obs += _judge(spec, nm, toks, clo, 'TOP|arm|%s' % nm)
                n_arms += 1
            continue
        for b, a in arms_by_body:
            regs = a.regions()
            for lit in sorted(regs):
                if lit not in spec or lit not in names:
                    continue
                n_arms += 1
                toks = _tokens_in(prog, b, regs[lit], side if b is clo else _helper_side(prog, b, clo, side))
                obs += _judge(spec, lit, toks, b, 'TOP|arm|%s' % lit)
    obs.append(floor('TOP', 'literal-arms', n_arms, 20, 'arithmetic, comparison, bit and shift operators with their compound forms'))
    return obs


def _helper_side(prog, helper, clo, side):
    """side function inside a helper the handler `clo` calls: a helper parameter is mapped through the call sites *in that
    handler* (and in what it calls) only — other handlers may call the same helper with other operands
    (`checked_decimal_op("+", a, Decimal::ONE)` in `++`), which says nothing about this one"""
    mine = set(prog.reach([getattr(clo, 'orig_id', clo.id)])) | {getattr(clo, 'orig_id', clo.id)}

    def f(body, op, at=None, depth=0):
        if depth > 4:
            return None
        origins = trace_operand_at(body, op, at, through_calls=SIDE_THROUGH) if at is not None else trace_operand(body, op, through_calls=SIDE_THROUGH)
        o = single_origin(origins)
        if o is not None and o.kind == 'param' and not body.is_closure and getattr(body, 'orig_id', body.id) != getattr(clo, 'orig_id', clo.id):
            res = set()
            for caller_id in prog.callers.get(getattr(body, 'orig_id', body.id), ()):
                if caller_id not in mine:
                    continue
                for c in prog.edge_sites.get((caller_id, getattr(body, 'orig_id', body.id)), []):
                    if o.data - 1 < len(c.args):
                        cb = c.body
                        res.add(f(cb, c.args[o.data - 1], c.bb, depth + 1) if not (cb.is_closure or cb is clo) else side(cb, c.args[o.data - 1], c.bb))
            if res:
                return res.pop() if len(res) == 1 else None
        return side(body, op, at)
    return f


def _judge(spec, lit, toks, body, key):
    cls, want, comm = spec[lit]
    same = [(t, s, w) for (c, t, s, w) in toks if c == cls]
    if not same:
        return [bad('TOP', key, 'the arm for `%s` performs no %s operation (expected %s)' % (lit, cls, want), body.where(), body=body.name)]
    problems = []
    good = False
    for tok, sides, where in same:
        t2 = tok
        if sides == ('R', 'L'):
            if tok in FLIP:
                t2 = FLIP[tok]
            elif not comm:
                problems.append('%s with operands swapped (right %s left) at %s' % (tok, tok, where))
                continue
        elif sides != ('L', 'R') and not comm:
            if None in sides:
                problems.append('%s at %s: cannot tell which operand is left / right' % (tok, where))
                continue
        if t2 == want:
            good = True
        else:
            problems.append('%s at %s' % (tok if t2 == tok else '%s (operands swapped: %s)' % (tok, t2), where))
    if good and not problems:
        return [ok('TOP', key, '`%s` performs %s on (left, right)' % (lit, want), body.where())]
    if good and problems:
        return [bad('TOP', key, 'the arm for `%s` also performs a conflicting %s operation: %s' % (lit, cls, '; '.join(problems)), body.where(), body=body.name)]
    return [bad('TOP', key, 'the arm for `%s` performs %s instead of %s' % (lit, '; '.join(problems), want), body.where(), body=body.name)]


MUST_CONSUME_ALL = {'min', 'max', 'sum', 'mul'}


def rule_aggr(prog, rows):
    """aggregates that the language defines over *all* arguments (min max sum mul) leave their
    argument loop towards an Ok result only when the iterator is exhausted: no argument escapes the
    type gate by an early exit (AND / OR / in short-circuit by definition and are exempt)"""
    obs = []
    for r in rows:
        if r['name'] not in MUST_CONSUME_ALL or not r['closure'] or r['closure'] not in prog.by_id:
            continue
        clo = _hbody(prog, r['closure'])
        key = 'AGGR|%s' % r['name']
        nxts = [c for c in clo.live_calls if r_order.FORWARD_NEXT_RE.match(c.rdef or '')]
        if not nxts:
            obs.append(bad('AGGR', key, '%s() does not iterate over its arguments with a forward iterator' % r['name'], clo.where(), body=clo.name))
            continue
        # the draw that drives the loop (a first item may be drawn before it to seed the running value:
        # `let mut min = match rest.next() { Some(first) => first.decimal()?, None => return Err(..) }; for p in rest { .. }`)
        in_loop = [c for c in nxts if any(c.bb in s_ for s_ in clo.sccs())]
        drive = (in_loop or nxts)[0]
        okk, why = r_order._loop_exits_only_on_none(clo, drive)
        # the iterator must be over the parameter vector itself
        it = single_origin(trace_operand(clo, drive.args[0], through_calls=THROUGH))
        src_ok = False
        for _ in range(3):
            if it is not None and it.kind == 'callres' and it.data.callee in r_order.FORWARD_ITER_MAKERS:
                nx = single_origin(trace_operand(clo, it.data.args[0], through_calls=THROUGH))
                if nx is not None and nx.kind == 'param' and nx.data == (2 if clo.is_closure else 1) and not nx.proj:
                    src_ok = True
                    break
                it = nx
        if okk and src_ok:
            obs.append(ok('AGGR', key, '%s() visits every argument: the loop over the parameter vector is left towards Ok only on the iterator\'s None edge' % r['name'], clo.where()))
        elif not src_ok:
            obs.append(bad('AGGR', key, '%s() does not iterate directly over all of its arguments' % r['name'], clo.where(), body=clo.name))
        else:
            obs.append(bad('AGGR', key, '%s() can return Ok without looking at every argument (%s): later arguments of the wrong type are accepted' % (r['name'], why), clo.where(), body=clo.name))
    return obs


EMPTY_VALUE = {'AND': 1, 'OR': 0}


def rule_aggr_empty(prog, rows):
    """`AND[]` is true and `OR[]` is false: on the path where the loop over the items is left without having drawn one, the
    boolean that is returned is the neutral element (the constant returned after the loop, or the initial value of the
    loop-carried flag)"""
    from analysis import defuse
    from facts import op_local, op_const_int
    obs = []
    for r in rows:
        if r['name'] not in EMPTY_VALUE or not r.get('closure') or r['closure'] not in prog.by_id:
            continue
        clo = _hbody(prog, r['closure'])
        key = 'AGGR|empty|%s' % r['name']
        want = EMPTY_VALUE[r['name']]
        nxts = [c for c in clo.live_calls if r_order.FORWARD_NEXT_RE.match(c.rdef or '')]
        in_loop = [c for c in nxts if any(c.bb in s_ for s_ in clo.sccs())]
        if not in_loop and not getattr(clo, 'is_view', False):
            # the loop sits in a helper (`fold_flags(items, stop_on)`): read the handler with its helpers opened
            clo = prog.view(prog.by_id[r['closure']], keep=lambda g: prog._publicly_reachable(g) or g.impl_trait, tag='handler', max_depth=6)
            nxts = [c for c in clo.live_calls if r_order.FORWARD_NEXT_RE.match(c.rdef or '')]
            in_loop = [c for c in nxts if any(c.bb in s_ for s_ in clo.sccs())]
        if not in_loop:
            obs.append(assumed('AGGR', key, '%s: no loop over the items found in this shape: the value for an empty list is not decided' % r['name'], clo.where()))
            continue
        drive = in_loop[0]
        scc = next(s_ for s_ in clo.sccs() if drive.bb in s_)
        du = defuse(clo)
        tb = None
        for sb in sorted(clo.live_blocks):
            t = clo.blocks[sb]['term']
            if t['k'] != 'switch':
                continue
            dl = op_local(t['discr'])
            defs = du.defs.get(dl, []) if dl is not None else []
            if len(defs) == 1 and defs[0][2] == 'assign' and defs[0][3]['k'] == 'discr' and defs[0][3]['pl']['l'] == drive.dest['l'] and not defs[0][3]['pl']['p']:
                listed = [v for v, _ in t['targets']]
                hit = [x for v, x in t['targets'] if v == 0]
                tb = hit[0] if hit else (t['otherwise'] if listed == [1] else None)
        if tb is None:
            obs.append(assumed('AGGR', key, '%s: cannot find the exhausted-iterator edge: not decided' % r['name'], clo.where()))
            continue
        region = clo.reachable_from(tb, avoid=set(scc))
        vals = set()
        unknown = False
        for bb, i, pl, rv in clo.assigns():
            if bb not in region or not (rv['k'] == 'agg' and rv.get('variant') == 'Ok' and pl['l'] in r_order._flows_to_return(clo)):
                continue
            op = rv['ops'][0]
            # Value::from(flag) / Value::Bool(flag) / flag.into()
            for _ in range(4):
                o = single_origin(trace_operand(clo, op, through_calls=set()))
                if o is not None and o.kind == 'callres' and o.data.args and ((o.data.callee or '') in ('std::convert::From::from', 'std::convert::Into::into') or (o.data.rdef or '').endswith('From<bool>>::from')):
                    op = o.data.args[0]
                    continue
                if o is not None and o.kind == 'agg' and o.data[2].get('variant') == 'Bool' and o.data[2]['ops']:
                    op = o.data[2]['ops'][0]
                    continue
                break
            c = op_const_int(op)
            if c is not None:
                vals.add(c)
                continue
            l = op_local(op)
            # follow whole moves back to the flag local
            for _ in range(6):
                ds = du.defs.get(l, []) if l is not None else []
                if len(ds) == 1 and ds[0][2] == 'assign' and ds[0][3]['k'] == 'use' and ds[0][3]['op']['k'] in ('copy', 'move') and not ds[0][3]['op']['pl']['p']:
                    l = ds[0][3]['op']['pl']['l']
                else:
                    break
            ds = du.defs.get(l, []) if l is not None else []
            pre = [d for d in ds if d[0] not in scc and d[2] == 'assign' and clo.dominates(d[0], drive.bb)]
            cs = [op_const_int(d[3]['op']) if d[3]['k'] == 'use' else None for d in pre]
            if len(pre) == 1 and cs[0] is not None:
                vals.add(cs[0])
            else:
                unknown = True
        if unknown or not vals:
            obs.append(assumed('AGGR', key, '%s: the value returned for an empty list is not a readable constant here: not decided' % r['name'], clo.where()))
        elif vals == {want}:
            obs.append(ok('AGGR', key, '%s over an empty list yields %s (the neutral element)' % (r['name'], 'true' if want else 'false'), clo.where()))
        else:
            obs.append(bad('AGGR', key, '%s over an empty list yields %s instead of %s: the fold starts from the wrong neutral element' % (r['name'], sorted('true' if v else 'false' for v in vals), 'true' if want else 'false'), clo.where(), body=clo.name))
    return obs


def rule_compound(prog, rows):
    """x op= e binds what x op e yields: the arm of every compound-assignment literal `op=` performs
    the same operation, on the same operand sides, as the arm of the plain literal `op` (sibling
    agreement across the SETTER and the CALC handler; the operation itself is judged under C03)"""
    acc_ids = {b.id for b in r_value.accessors(prog)}
    side = _closure_side(prog, acc_ids)
    sig = {}
    where = {}
    by_closure = _groups(rows)
    for (cu, bk), names in sorted(by_closure.items()):
        clo = _group_body(prog, cu, bk)
        if clo is None:
            continue
        bodies = [clo] + ([] if getattr(clo, 'is_view', False) else [prog.by_id[x] for x in prog.reach([clo.id]) if x != clo.id and not prog.by_id[x].impl_trait])
        got = False
        for b in bodies:
            a = Arms(b)
            if not a.lits:
                continue
            regs = a.regions()
            for lit in regs:
                if lit in names:
                    toks = _tokens_in(prog, b, regs[lit], side)
                    sig[lit] = sorted((c, t_, s) for (c, t_, s, w) in toks)
                    where[lit] = b
                    got = True
        if not got and (len(names) == 1 or bk):
            toks = _tokens_in(prog, clo, clo.live_blocks, side)
            for nm in names:
                sig[nm] = sorted((c, t_, s) for (c, t_, s, w) in toks)
                where[nm] = clo
    obs = []
    n = 0
    for lit in sorted(sig):
        if lit.endswith('=') and lit not in ('==', '!=', '<=', '>=', '=') and lit[:-1] in sig:
            n += 1
            key = 'COMPOUND|%s' % lit
            if sig[lit] == sig[lit[:-1]] and sig[lit]:
                obs.append(ok('COMPOUND', key, '`%s` and `%s` perform the same operation on the same operand sides (%s)' % (lit, lit[:-1], ', '.join('%s%s' % (t_, list(s)) for c, t_, s in sig[lit])), where[lit].where()))
            elif not sig[lit] and not sig[lit[:-1]]:
                obs.append(bad('COMPOUND', key, 'neither `%s` nor `%s` performs a recognisable operation' % (lit, lit[:-1]), where[lit].where(), body=where[lit].name))
            else:
                obs.append(bad('COMPOUND', key, '`%s` does not perform what `%s` performs: %s vs %s' % (lit, lit[:-1], sig[lit], sig[lit[:-1]]), where[lit].where(), body=where[lit].name))
    obs.append(floor('COMPOUND', 'compound-operators', n, 8, 'the documented compound assignments'))
    return obs


def rule_compound_gate(prog, rows):
    """`x op= e` fails when `x op e` fails: in the handler registered under a compound-assignment literal an operand
    that is type-checked at all is type-checked on every path to an Ok result (HGATE, read for C06: a short cut such
    as `b == 0 => return Ok(left)` binds / keeps a target that the plain operator would have rejected)"""
    import r_value
    hs = []
    for (cu, bk), names in sorted(_groups(rows).items()):
        if any(n.endswith('=') and n not in ('==', '!=', '<=', '>=', '=') for n in names):
            h = prog.by_id.get(cu)
            if h is not None and h not in hs:
                hs.append(h)
    obs = r_value.rule_hgate(prog, hs)
    obs.append(floor('HGATE', 'compound-handlers', len(hs), 1, 'handler closures registered under compound-assignment operators'))
    return obs


UNARY_SPEC = {'-': ('unary', 'neg'), '!': ('unary', 'not'), 'not': ('unary', 'not'), '++': ('arith', 'add'), '--': ('arith', 'sub'), '+': None}


def _consts_of(body):
    out = set()
    def see(op):
        if isinstance(op, dict) and op.get('k') == 'const':
            out.add(op.get('uneval') or op.get('s'))
    for bb, i, pl, rv in body.assigns():
        for k in ('op', 'a', 'b'):
            if isinstance(rv.get(k), dict):
                see(rv[k])
        for o in rv.get('ops', []) or []:
            see(o)
    for c in body.live_calls:
        for a in c.args:
            see(a)
    return out


def rule_unary(prog, rows):
    """built-in prefix / postfix operators: `-` negates, `!` / `not` complement a bool, `+` is the
    identity, `++` / `--` add / subtract exactly one"""
    obs = []
    def side(body, op, at=None):
        o = single_origin(trace_operand_at(body, op, at, through_calls=SIDE_THROUGH) if at is not None else trace_operand(body, op, through_calls=SIDE_THROUGH))
        return 'L' if o is not None and o.kind == 'param' and o.data == (2 if body.is_closure else 1) else None
    n = 0
    for r in rows:
        if r['args'] or r['name'] not in UNARY_SPEC or not r['closure'] or r['closure'] not in prog.by_id:
            continue
        clo = _hbody(prog, r['closure'])
        pb = 2 if clo.is_closure else 1
        if clo.arg_count < pb or clo.locals[pb]['ty'] != 'value::Value':
            continue
        n += 1
        name = r['name']
        key = 'TOP|unary|%s|%s' % (name, 'postfix' if name in ('++', '--') else 'prefix')
        toks = [(c, t_) for (c, t_, s, w) in _tokens_in(prog, clo, clo.live_blocks, side) if c in ('unary', 'arith')]
        want = UNARY_SPEC[name]
        consts = _consts_of(clo)
        problems = []
        if want is None:
            if toks:
                problems.append('unary `+` must return its operand unchanged, but performs %s' % toks)
        else:
            if want not in toks:
                problems.append('expected %s, found %s' % (want[1], [t_ for c, t_ in toks] or 'nothing'))
            if [x for x in toks if x != want]:
                problems.append('also performs %s' % [t_ for c, t_ in toks if (c, t_) != want])
            if name in ('++', '--') and not any(str(c).endswith('::ONE') or str(c) in ('1', '1_i32', '1_i64') for c in consts):
                problems.append('the step is not the constant one (%s)' % sorted(str(c) for c in consts if 'Decimal' in str(c)))
        if problems:
            obs.append(bad('TOP', key, 'built-in `%s`: %s' % (name, '; '.join(problems)), clo.where(), body=clo.name))
        else:
            obs.append(ok('TOP', key, 'built-in `%s` performs %s' % (name, want[1] if want else 'the identity'), clo.where()))
    obs.append(floor('TOP', 'unary-operators', n, 6, '- + ! not ++ --'))
    return obs


def _groups(rows):
    """{(handler closure, what it captured): [operator names registered with it]} for the infix registrations"""
    out = {}
    for r in rows:
        if r['closure'] and len(r['args']) == 3:
            bk = tuple(sorted((r.get('bind') or {}).items()))
            out.setdefault((r['closure'], bk), []).append(r['name'])
    return out


def _group_body(prog, cu, bk):
    """the handler body; for a handler produced by a factory (one closure, a different captured fn per operator)
    the closure specialised on the captured fn, with that fn and the private helpers inlined"""
    import r_table
    clo = prog.by_id.get(cu)
    if clo is not None and not bk and getattr(prog, '_handler_views', False):
        return _hbody(prog, cu)       # second reading: private helpers (`strings_of(left, right)?`) opened
    if clo is None or not bk:
        return clo
    consts = {i: r_table.FN_CONSTS[getattr(v, 'key', None) or v] for i, v in bk if isinstance(v, str) and (getattr(v, 'key', None) or v) in r_table.FN_CONSTS}
    if len(consts) != len(bk):
        return clo
    return prog.view(clo, keep=lambda g: g.is_pub or bool(g.impl_trait), tag='spec:%r' % (bk,), upvar_consts=consts)


def _loop_carried(body, op, depth=0):
    """does the operand read (through moves / copies / borrows / payload projections) a local that has more than
    one whole definition?"""
    pl = op_place(op) if isinstance(op, dict) and op.get('k') in ('move', 'copy') else None
    du = defuse(body)
    seen = set()
    while pl is not None and pl['l'] not in seen and depth < 12:
        depth += 1
        seen.add(pl['l'])
        if pl['l'] <= body.arg_count:
            return False
        defs = du.whole_defs(pl['l'])
        if len(defs) > 1:
            return True
        if len(defs) != 1 or defs[0][2] != 'assign':
            return False
        rv = defs[0][3]
        if rv['k'] == 'use' and rv['op']['k'] in ('move', 'copy'):
            pl = rv['op']['pl']
        elif rv['k'] == 'ref':
            pl = rv['pl']
        elif rv['k'] == 'agg' and rv.get('agg') == 'closure':
            return False
        else:
            return False
    return False


def _hbody(prog, cid):
    """the handler body as written, or (fallback reading) with its private helpers, combinator closures and
    fn-pointer arguments inlined"""
    b = prog.by_id[cid]
    if getattr(prog, '_handler_views', False):
        # (handlers are small: open up to five levels — `extremum(params, |n, m| n < m)` -> `fold_numbers(.., |best, n| ..)`
        # -> the step closure -> the captured comparison)
        return prog.view(b, keep=lambda g: prog._publicly_reachable(g) or g.impl_trait, tag='handler', max_depth=6)
    return b


def with_views(prog, rule, rows):
    first = rule(prog, rows)
    if not any(o.status == 'violated' for o in first):
        return first
    prog._handler_views = True
    try:
        second = rule(prog, rows)
    except Exception:
        second = None
    finally:
        prog._handler_views = False
    from engine import covers
    if second is not None and covers(first, second) and len([o for o in second if o.status == 'violated']) <= len([o for o in first if o.status == 'violated']):
        # clean, or the more precise report (the view opens helpers the first reading could not look into)
        for o in second:
            o.what = (o.what or '') + ' [read with helpers / combinator closures inlined]'
        return second
    return first


def rule_fold(prog, rows):
    """min / max compare each argument with the running result in the right direction; sum / mul fold
    with + / * from the neutral element 0 / 1"""
    obs = []
    for r in rows:
        if r['name'] not in ('min', 'max', 'sum', 'mul') or not r['closure'] or r['closure'] not in prog.by_id:
            continue
        clo = _hbody(prog, r['closure'])
        name = r['name']
        key = 'TOP|fold|%s' % name
        def side(body, op, at=None):
            if _loop_carried(body, op):
                return 'A'      # the running result: a local with more than one definition (initial value + update)
            origins = trace_operand_at(body, op, at, through_calls=SIDE_THROUGH) if at is not None else trace_operand(body, op, through_calls=SIDE_THROUGH)
            kinds = set()
            for o in origins:
                if o.kind == 'callres' and o.data.ruid is not None and o.data.args:
                    # accessor applied to an iterator item
                    io = single_origin(trace_operand(body, o.data.args[0], through_calls=SIDE_THROUGH))
                    if io is not None and io.kind == 'callres' and r_order.FORWARD_NEXT_RE.match(io.data.rdef or ''):
                        kinds.add('I'); continue
                if o.kind == 'callres' and r_order.FORWARD_NEXT_RE.match(o.data.rdef or '') and o.proj[:2] == (('dc', 'Some'), ('f', 0)):
                    kinds.add('I'); continue      # an item drawn from a vector of already converted numbers (`for num in numbers(params)?`)
                if o.kind == 'callres' and (o.data.callee or '').endswith('::unwrap'):
                    kinds.add('A'); continue
                kinds.add('A')
            return kinds.pop() if len(kinds) == 1 else None
        toks = _tokens_in(prog, clo, clo.live_blocks, side)
        problems = []
        if name in ('min', 'max'):
            cmps = [(t_, s) for (c, t_, s, w) in toks if c == 'cmp' and t_ in ('lt', 'le', 'gt', 'ge')]
            if not cmps:
                problems.append('no ordering comparison')
            for t_, s in cmps:
                if s == ('A', 'I'):
                    t_ = FLIP[t_]
                elif s != ('I', 'A'):
                    problems.append('cannot tell the argument from the running result in %s%s' % (t_, list(s)))
                    continue
                want = ('lt', 'le') if name == 'min' else ('gt', 'ge')
                if t_ not in want:
                    problems.append('keeps the argument when it is %s the running result (that computes the %s)' % ({'lt': 'below', 'le': 'below or equal to', 'gt': 'above', 'ge': 'above or equal to'}[t_], 'minimum' if t_ in ('lt', 'le') else 'maximum'))
        else:
            ar = sorted({t_ for (c, t_, s, w) in toks if c == 'arith'})
            want = 'add' if name == 'sum' else 'mul'
            if ar != [want]:
                problems.append('folds with %s instead of %s' % (ar or 'nothing', want))
            consts = _consts_of(clo)
            neutral = '::ZERO' if name == 'sum' else '::ONE'
            if not any(str(c).endswith(neutral) for c in consts):
                problems.append('does not start from the neutral element %s' % neutral.strip(':'))
        if problems:
            obs.append(bad('TOP', key, '%s(): %s' % (name, '; '.join(sorted(set(problems)))), clo.where(), body=clo.name))
        else:
            obs.append(ok('TOP', key, '%s() %s' % (name, 'keeps the argument that compares %s the running result' % ('below' if name == 'min' else 'above') if name in ('min', 'max') else 'folds with %s from %s' % (want, neutral.strip(':'))), clo.where()))
    return obs
