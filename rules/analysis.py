"""Shared analyses: def-use / provenance, call graph, roles.

Roles are found by *type and effect predicates*, never by private names (DESIGN §3).
"""
import re
from facts import (Facts, Body, Call, op_place, op_local, op_const_int, op_const_str, pl_str,
                   op_str, _sccs)

# ----------------------------------------------------------------------------- def-use

TRANSPARENT_CALLS = {
    'std::ops::Deref::deref', 'std::ops::DerefMut::deref_mut',
    'std::borrow::Borrow::borrow', 'std::borrow::BorrowMut::borrow_mut',
    'std::convert::AsRef::as_ref', 'std::convert::AsMut::as_mut',
    'std::string::String::as_str', 'std::vec::Vec::<T, A>::as_slice',
    'std::string::String::as_mut_str',
}
TRY_BRANCH = 'std::ops::Try::branch'
FROM_RESIDUAL = 'std::ops::FromResidual::from_residual'


def proj_key(p):
    """projection elements, references and derefs dropped (identity modulo reference-ness)"""
    out = []
    for e in p:
        if e == 'deref':
            continue
        if isinstance(e, dict):
            if 'f' in e:
                if e.get('ty', '').startswith(('std::ptr::Unique<', 'std::ptr::NonNull<', '*const ', '*mut ')):
                    continue    # Box<T> deref elaborated into pointer-field projections
                out.append(('f', e['f']))
            elif 'dc' in e:
                out.append(('dc', e['dc']))
            elif 'idx' in e:
                out.append(('idx', e['idx']))
            elif 'cidx' in e:
                out.append(('cidx', e['cidx']))
            else:
                out.append(('?', str(e)))
        else:
            out.append(('?', str(e)))
    return tuple(out)


class DefUse:
    def __init__(self, body):
        self.body = body
        self.defs = {}      # local -> list of (bb, idx or 'term', kind, payload, proj_of_dest)
        self.uses = {}      # local -> list of (bb, idx or 'term')
        live = body.live_blocks
        for b in sorted(live):
            blk = body.blocks[b]
            for i, st in enumerate(blk['stmts']):
                if st['k'] == 'assign':
                    pl = st['pl']
                    self.defs.setdefault(pl['l'], []).append((b, i, 'assign', st['rv'], proj_key(pl['p'])))
                    self._uses_rv(st['rv'], b, i)
                elif st['k'] == 'set_discr':
                    self.defs.setdefault(st['pl']['l'], []).append((b, i, 'set_discr', st, proj_key(st['pl']['p'])))
            t = blk['term']
            if t['k'] == 'call':
                pl = t['dest']
                self.defs.setdefault(pl['l'], []).append((b, 'term', 'call', Call(body, b, t), proj_key(pl['p'])))
                for a in t['args']:
                    self._use_op(a, b, 'term')
                self._use_op(t['func'], b, 'term')
            elif t['k'] == 'switch':
                self._use_op(t['discr'], b, 'term')
            elif t['k'] == 'assert':
                self._use_op(t['cond'], b, 'term')
            elif t['k'] == 'drop':
                self.uses.setdefault(t['pl']['l'], []).append((b, 'term'))

    def _use_op(self, op, b, i):
        pl = op_place(op)
        if pl is not None:
            self.uses.setdefault(pl['l'], []).append((b, i))
            for e in pl['p']:
                if isinstance(e, dict) and 'idx' in e:
                    self.uses.setdefault(e['idx'], []).append((b, i))

    def _uses_rv(self, rv, b, i):
        k = rv['k']
        if k in ('use', 'cast', 'repeat'):
            self._use_op(rv['op'], b, i)
        elif k in ('ref', 'rawptr', 'discr', 'copy_for_deref'):
            self.uses.setdefault(rv['pl']['l'], []).append((b, i))
        elif k == 'binop':
            self._use_op(rv['a'], b, i); self._use_op(rv['b'], b, i)
        elif k == 'unop':
            self._use_op(rv['a'], b, i)
        elif k == 'agg':
            for o in rv['ops']:
                self._use_op(o, b, i)

    def whole_defs(self, l):
        return [d for d in self.defs.get(l, []) if d[4] == ()]


def defuse(body):
    du = body.__dict__.get('_du')
    if du is None:
        du = DefUse(body)
        body.__dict__['_du'] = du
    return du


class Origin:
    """where a value comes from.  kind in: param, callres, const, agg, binop, unop, cast, discr,
    static, multi (several defs, not resolved), unknown.  proj = projection (deref-free) applied
    to the root."""
    __slots__ = ('kind', 'data', 'proj')

    def __init__(self, kind, data, proj=()):
        self.kind = kind
        self.data = data
        self.proj = tuple(proj)

    def key(self):
        d = self.data
        if self.kind == 'callres':
            d = d.bb
        elif self.kind in ('const',):
            d = d.get('s')
        elif self.kind in ('agg', 'binop', 'unop', 'cast', 'discr'):
            d = d[:2]
        return (self.kind, d, self.proj)

    def __eq__(self, o):
        return isinstance(o, Origin) and self.key() == o.key()

    def __hash__(self):
        return hash(str(self.key()))

    def __repr__(self):
        d = self.data
        if self.kind == 'callres':
            d = 'bb%d:%s' % (d.bb, d.rdef or d.path)
        elif self.kind == 'const':
            d = d.get('s')
        elif self.kind in ('agg', 'binop', 'unop', 'cast', 'discr'):
            d = 'bb%s[%s]' % (d[0], d[1])
        return '%s(%s)%s' % (self.kind, d, ''.join('.%s' % (x[1],) for x in self.proj))


def trace_place(body, pl, extra=(), depth=0, seen=None, through_calls=TRANSPARENT_CALLS, try_transparent=True):
    return trace_local(body, pl['l'], proj_key(pl['p']) + tuple(extra), depth, seen, through_calls, try_transparent)


def trace_operand(body, op, extra=(), **kw):
    if op['k'] == 'const':
        if 'static' in op:
            return {Origin('static', op['static'], extra)}
        if 'promoted' in op and 'uneval_uid' in op:
            # a promoted constant (e.g. `&Enum::Variant` used as a comparison operand): look into
            # its own little MIR body and trace what it returns
            pb = body.facts.promoted.get('%s::promoted[%d]' % (op['uneval_uid'], op['promoted']))
            if pb is not None:
                return trace_local(pb, 0, tuple(extra), **{k: v for k, v in kw.items() if k in ('through_calls', 'try_transparent')})
        return {Origin('const', op, extra)}
    if op['k'] in ('copy', 'move'):
        return trace_place(body, op['pl'], extra, **kw)
    return {Origin('unknown', op.get('dbg'), extra)}


def trace_local(body, l, proj=(), depth=0, seen=None, through_calls=TRANSPARENT_CALLS, try_transparent=True):
    """set of Origins of `_l.proj` (refs/derefs transparent)."""
    kw = dict(through_calls=through_calls, try_transparent=try_transparent)
    if seen is None:
        seen = set()
    if (l, proj) in seen or depth > 60:
        return {Origin('unknown', 'cycle', proj)}
    seen = seen | {(l, proj)}
    if 1 <= l <= body.arg_count:
        du = defuse(body)
        if not du.whole_defs(l):
            return {Origin('param', l, proj)}
    du = defuse(body)
    defs = du.defs.get(l, [])
    if not defs:
        return {Origin('unknown', 'nodef:_%d' % l, proj)}
    out = set()
    # partial definitions (fields assigned separately): match the projection prefix
    whole = [d for d in defs if d[4] == ()]
    partial = [d for d in defs if d[4] != () and proj[:len(d[4])] == d[4]]
    cands = partial if (partial and not whole) else whole + partial
    if not cands:
        cands = defs
    for (b, i, kind, payload, dproj) in cands:
        rest = proj[len(dproj):] if proj[:len(dproj)] == dproj else proj
        if kind == 'call':
            c = payload
            cd = c.callee
            if cd in through_calls and c.args:
                out |= trace_operand(body, c.args[0], rest, depth=depth + 1, seen=seen, **kw)
            elif cd == TRY_BRANCH and try_transparent and rest[:2] == (('dc', 'Continue'), ('f', 0)):
                is_opt = bool(c.term['arg_tys']) and c.term['arg_tys'][0].startswith('std::option::Option<')
                out |= trace_operand(body, c.args[0], (('dc', 'Some' if is_opt else 'Ok'), ('f', 0)) + rest[2:], depth=depth + 1, seen=seen, **kw)
            elif cd == TRY_BRANCH and try_transparent and rest[:2] == (('dc', 'Break'), ('f', 0)):
                is_opt = bool(c.term['arg_tys']) and c.term['arg_tys'][0].startswith('std::option::Option<')
                out |= trace_operand(body, c.args[0], (('dc', 'None' if is_opt else 'Err'),) + rest[2:], depth=depth + 1, seen=seen, **kw)
            elif _trivial_getter(body, c) is not None and c.args:
                # `span.start()` with `fn start(&self) -> usize { self.0 }`: a field projection under a name
                out |= trace_operand(body, c.args[0], (('f', _trivial_getter(body, c)),) + rest, depth=depth + 1, seen=seen, **kw)
            elif rest and rest[0][0] == 'f' and _trivial_ctor_param(body, c, rest[0][1]) is not None:
                # `Span::from_to(a, b)` with `fn from_to(a, b) -> Self { Span(a, b) }`: field k of the result is argument p
                out |= trace_operand(body, c.args[_trivial_ctor_param(body, c, rest[0][1]) - 1], rest[1:], depth=depth + 1, seen=seen, **kw)
            elif cd == FROM_RESIDUAL and rest[:1] in ((('dc', 'Ok'),), (('dc', 'Some'),)) and len(cands) > 1:
                # from_residual only ever produces the failure variant: this definition cannot be the one
                # whose Ok / Some payload is read
                continue
            else:
                out.add(Origin('callres', c, rest))
        elif kind == 'assign':
            rv = payload
            k = rv['k']
            if k == 'use':
                out |= trace_operand(body, rv['op'], rest, depth=depth + 1, seen=seen, **kw)
            elif k in ('ref', 'copy_for_deref', 'rawptr'):
                out |= trace_place(body, rv['pl'], rest, depth=depth + 1, seen=seen, **kw)
            elif k == 'agg':
                if rest and rv['agg'] in ('tuple', 'adt', 'array', 'closure'):
                    # project into the aggregate
                    r0 = rest[0]
                    rr = rest
                    if r0[0] == 'dc':
                        if rv['agg'] == 'adt' and rv.get('variant') == r0[1]:
                            rr = rest[1:]
                            r0 = rr[0] if rr else None
                        else:
                            continue  # other variant: this def cannot feed that downcast
                    if r0 is not None and r0[0] == 'f' and r0[1] < len(rv['ops']):
                        out |= trace_operand(body, rv['ops'][r0[1]], rr[1:], depth=depth + 1, seen=seen, **kw)
                    elif r0 is None:
                        out.add(Origin('agg', (b, i, rv), ()))
                    else:
                        out.add(Origin('agg', (b, i, rv), rr))
                else:
                    out.add(Origin('agg', (b, i, rv), rest))
            elif k == 'cast':
                if rv['cast'].startswith('PointerCoercion') or rv['cast'] in ('PtrToPtr', 'Transmute', 'Subtype'):
                    out |= trace_operand(body, rv['op'], rest, depth=depth + 1, seen=seen, **kw)
                else:
                    out.add(Origin('cast', (b, i, rv), rest))
            elif k in ('binop', 'unop', 'discr'):
                out.add(Origin(k, (b, i, rv), rest))
            else:
                out.add(Origin('unknown', rv.get('dbg', k), rest))
        else:
            out.add(Origin('unknown', kind, rest))
    return out


def _local_callee(body, c):
    prog = getattr(body.facts, '_prog', None)
    if prog is None or not c.ruid:
        return None
    g = prog.by_id.get(c.ruid)
    if g is None or g.is_closure or g.n > 3 or g.live_calls:
        return None
    return g


def _trivial_getter(body, c):
    """index k when the callee is `fn name(&self) -> T { self.k }` (one assignment, no call, no branch), else None"""
    g = _local_callee(body, c)
    if g is None or g.arg_count != 1:
        return None
    memo = g.__dict__.setdefault('_tgetter', [False, None])
    if memo[0]:
        return memo[1]
    memo[0] = True
    asg = [(bb, i, pl, rv) for bb, i, pl, rv in g.assigns()]
    ret = [x for x in asg if x[2]['l'] == 0 and not x[2]['p']]
    if len(ret) != 1 or any(g.blocks[bb]['term']['k'] == 'switch' for bb in g.live_blocks):
        return None
    rv = ret[0][3]
    if rv['k'] != 'use' or rv['op']['k'] not in ('copy', 'move'):
        return None
    pl = rv['op']['pl']
    # follow one level of `_2 = copy (*_1).k; _0 = move _2`
    hops = 0
    while pl['l'] != 1 and not pl['p'] and hops < 2:
        d = [x for x in asg if x[2]['l'] == pl['l'] and not x[2]['p']]
        if len(d) != 1 or d[0][3]['k'] != 'use' or d[0][3]['op']['k'] not in ('copy', 'move'):
            return None
        pl = d[0][3]['op']['pl']
        hops += 1
    if pl['l'] != 1:
        return None
    fs = [e for e in pl['p'] if e != 'deref']
    if len(fs) != 1 or not isinstance(fs[0], dict) or 'f' not in fs[0]:
        return None
    memo[1] = fs[0]['f']
    return memo[1]


def _trivial_ctor_param(body, c, k):
    """parameter index p when the callee is `fn new(a, b, ..) -> Self { Self(.., a, ..) }` and field k of the value
    it returns is its parameter p handed on unchanged, else None"""
    g = _local_callee(body, c)
    if g is None or g.arg_count < 1:
        return None
    memo = g.__dict__.setdefault('_tctor', {})
    if k in memo:
        return memo[k]
    memo[k] = None
    if any(g.blocks[bb]['term']['k'] == 'switch' for bb in g.live_blocks):
        return None
    asg = [(bb, i, pl, rv) for bb, i, pl, rv in g.assigns()]
    ret = [x for x in asg if x[2]['l'] == 0 and not x[2]['p']]
    if len(ret) != 1 or ret[0][3]['k'] != 'agg' or ret[0][3].get('agg') not in ('adt', 'tuple') or k >= len(ret[0][3]['ops']):
        return None
    if ret[0][3].get('agg') == 'adt' and ret[0][3].get('is_enum'):
        return None
    op = ret[0][3]['ops'][k]
    hops = 0
    while op['k'] in ('copy', 'move') and not op['pl']['p'] and hops < 3:
        l = op['pl']['l']
        if 1 <= l <= g.arg_count and not [x for x in asg if x[2]['l'] == l]:
            memo[k] = l
            return l
        d = [x for x in asg if x[2]['l'] == l and not x[2]['p']]
        if len(d) != 1 or d[0][3]['k'] != 'use':
            return None
        op = d[0][3]['op']
        hops += 1
    return None


def single_origin(origins):
    if len(origins) == 1:
        return next(iter(origins))
    return None


# ----------------------------------------------------------------------------- type predicates

def is_guard_ty(ty):
    """a value that owns a MutexGuard / RwLock guard (not a reference to one)"""
    t = ty.strip()
    if t.startswith('&'):
        return False
    return ('std::sync::MutexGuard<' in t or 'std::sync::RwLockReadGuard<' in t
            or 'std::sync::RwLockWriteGuard<' in t or 'MutexGuard<' in t)


HANDLER_DYN_RE = re.compile(r'dyn (?:for<[^>]*> )?std::ops::Fn(?:Mut|Once)?\((.*)\) -> (.*?) \+ std::marker::Send \+ std::marker::Sync')

def dyn_fn_class(ty):
    """classify a `dyn Fn…` type string: 'handler' (takes/returns engine Values),
    'descriptor' (String -> String), 'other'; None when not a dyn Fn"""
    if 'dyn ' not in ty or 'std::ops::Fn' not in ty:
        return None
    m = re.search(r'dyn (?:for<[^>]*> )?std::ops::Fn(?:Mut|Once)?\((.*?)\) -> ([^+]*)', ty)
    if not m:
        return 'other'
    args, ret = m.group(1), m.group(2).strip()
    if 'value::Value' in ret and 'Result' in ret:
        return 'handler'
    if ret == 'std::string::String':
        return 'descriptor'
    return 'other'


def guard_class(ty):
    """which engine mutex a guard type belongs to, by the protected map's type"""
    if 'context::ContextValue' in ty:
        return 'CONTEXT'
    if 'descriptor::DescriptorKey' in ty or 'descriptor::Descriptor' in ty:
        return 'DESCRIPTOR'
    m = re.search(r'HashMap<std::string::String, (.*)', ty)
    if m:
        v = m.group(1)
        # an operator / function registry: values are handlers, a configuration record of this crate's
        # operator module, or a bare generic parameter (helper generic over the value type)
        if 'dyn std::ops::Fn' in v or v.startswith('operator::') or v.startswith('function::') or re.match(r'^[A-Z]\w{0,2}[>,]', v) \
                or re.match(r'^<\w+ as (operator|function)::[\w:]+>::\w+[>,]', v):
            # (last form: the entry type of a registry trait, `<Self as operator::Registry>::Entry`, in a default method)
            return 'REGISTRY'
    return 'OTHER'


# ----------------------------------------------------------------------------- program-level

WRAP_CALLS = ('std::sync::Arc::<T>::new', 'std::boxed::Box::<T>::new', 'std::rc::Rc::<T>::new',
              'std::sync::Arc::<T>::from', 'std::boxed::Box::<T>::from')

LOCK_CALLS = {'std::sync::Mutex::<T>::lock', 'std::sync::Mutex::<T>::try_lock',
              'std::sync::RwLock::<T>::read', 'std::sync::RwLock::<T>::write',
              'std::sync::RwLock::<T>::try_read', 'std::sync::RwLock::<T>::try_write'}

ONCE_CALLS = {'once_cell::sync::OnceCell::<T>::get_or_init', 'once_cell::sync::OnceCell::<T>::get_or_try_init',
              'std::sync::Once::call_once', 'std::sync::Once::call_once_force',
              'std::sync::OnceLock::<T>::get_or_init', 'std::sync::LazyLock::<T, F>::new',
              'once_cell::sync::Lazy::<T, F>::new', 'once_cell::sync::Lazy::<T>::new',
              'std::sync::LazyLock::<T>::new'}


class Program:
    def __init__(self, facts):
        self.f = facts
        facts._prog = self
        self.bodies = facts.bodies
        self.by_id = facts.by_id
        self._build_closure_info()
        self._build_callgraph()
        # private acquisition helpers: `fn locked<T>(m: &Mutex<T>) -> MutexGuard<'_, T> { m.lock().unwrap() }` — a call
        # of one is a lock acquisition at the call site (the guard class is read off the call's own result type there)
        self.acq_helpers = set()
        for g in self.bodies:
            if g.is_closure or g.j.get('reachable', g.is_pub) or g.arg_count < 1 or not is_guard_ty(g.locals[0]['ty']):
                continue
            locks = [c for c in g.live_calls if c.callee in LOCK_CALLS]
            others = [c for c in g.live_calls if c.ruid is not None]
            if len(locks) == 1 and not others:
                self.acq_helpers.add(g.id)

    def is_lock_call(self, c):
        return c.callee in LOCK_CALLS or (c.ruid is not None and c.ruid in self.acq_helpers)

    # -- closures / fn items: where are they created, do they escape into a dyn Fn, or are
    #    they passed to a call (then: assumed invoked by that call at that site)
    def _build_closure_info(self):
        self.closure_sites = {}    # closure uid -> list of (body, bb, idx)
        self.closure_passed = {}   # closure uid -> list of Call it is (transitively by move) passed to
        self.closure_escapes = {}  # closure uid -> list of (body, target dyn type) unsize casts
        self.fnitem_escapes = {}   # local fn uid -> list of (body, dyn type)
        for body in self.bodies:
            du = defuse(body)
            for b, i, pl, rv in body.assigns():
                if rv['k'] == 'agg' and rv['agg'] == 'closure':
                    cu = rv['closure']
                    self.closure_sites.setdefault(cu, []).append((body, b, i))
                    self._follow_value(body, pl['l'], ('closure', cu), set())
            # fn items used as values (ReifyFnPointer or passed as ZST constants)
            for b, i, pl, rv in body.assigns():
                ops = []
                if rv['k'] in ('use', 'cast'):
                    ops = [rv['op']]
                elif rv['k'] == 'agg':
                    ops = rv['ops']
                for o in ops:
                    if o['k'] == 'const' and 'fn' in o and o['fn'].get('local'):
                        self._follow_value(body, pl['l'], ('fnitem', o['fn']['uid']), set())
            for c in body.live_calls:
                for a in c.args:
                    if a['k'] == 'const' and 'fn' in a and a['fn'].get('local'):
                        self._value_passed(body, c, ('fnitem', a['fn']['uid']), set())
        self._const_table_handlers()

    def _const_table_handlers(self):
        """fn items stored in a `const` / `static` table (their aggregate is built in the item's own body) escape
        wherever a body reads that item and wraps something into a handler `dyn Fn`: `for (name, f) in TABLE {
        register(name, Arc::new(f)) }`"""
        item_bodies = {b.id: b for b in self.bodies if str(b.kind).startswith(('Const', 'Static', 'const', 'static')) or b.j.get('kind') in ('const', 'static')}
        if not item_bodies:
            return
        users = {}
        for b in self.bodies:
            def see(op):
                if isinstance(op, dict) and op.get('k') == 'const' and op.get('uneval_uid') in item_bodies and b.id != op['uneval_uid']:
                    users.setdefault(op['uneval_uid'], set()).add(b.id)
            for bb, i, pl, rv in b.assigns():
                for k in ('op', 'a', 'b'):
                    if isinstance(rv.get(k), dict):
                        see(rv[k])
                for o in rv.get('ops', []) or []:
                    see(o)
            for c in b.live_calls:
                for a in c.args:
                    see(a)
        for fu, escs in list(self.fnitem_escapes.items()):
            for (cb, to) in list(escs):
                if cb.id in item_bodies and str(to).startswith('aggregate:'):
                    for uid in users.get(cb.id, ()):
                        ub = self.by_id[uid]
                        for bb, i, pl, rv in ub.assigns():
                            if rv['k'] == 'cast' and 'Unsize' in rv['cast'] and dyn_fn_class(rv['to']) == 'handler':
                                self.fnitem_escapes[fu].append((ub, rv['to']))
                                break

    def _value_passed(self, body, c, val, seen):
        kind, uid = val
        if c.callee in WRAP_CALLS or (c.callee or '').endswith('::new') and c.crate in ('alloc', 'std') and c.callee.split('::')[-2].split('<')[0] in ('Arc', 'Box', 'Rc'):
            # wrapped: follow the wrapper's result
            if not c.dest['p']:
                self._follow_value(body, c.dest['l'], val, seen)
            return
        if kind == 'closure':
            self.closure_passed.setdefault(uid, []).append(c)
        else:
            self.closure_passed.setdefault(uid, []).append(c)

    def _follow_value(self, body, l, val, seen):
        if l in seen:
            return
        seen.add(l)
        kind, uid = val
        for b in sorted(body.live_blocks):
            blk = body.blocks[b]
            for st in blk['stmts']:
                if st['k'] != 'assign':
                    continue
                rv = st['rv']
                if rv['k'] == 'use' and op_local(rv['op']) == l and not st['pl']['p']:
                    self._follow_value(body, st['pl']['l'], val, seen)
                elif rv['k'] == 'use' and op_local(rv['op']) == l and st['pl']['p']:
                    # stored into a field of something: treat as escape of unknown kind
                    (self.closure_escapes if kind == 'closure' else self.fnitem_escapes).setdefault(uid, []).append((body, 'field-store'))
                elif rv['k'] == 'cast' and op_local(rv['op']) == l:
                    if 'Unsize' in rv['cast'] and 'dyn ' in rv['to']:
                        (self.closure_escapes if kind == 'closure' else self.fnitem_escapes).setdefault(uid, []).append((body, rv['to']))
                    elif not st['pl']['p']:
                        self._follow_value(body, st['pl']['l'], val, seen)
                elif rv['k'] == 'ref' and rv['pl']['l'] == l and not rv['pl']['p'] and not st['pl']['p']:
                    self._follow_value(body, st['pl']['l'], val, seen)
                elif rv['k'] == 'agg' and any(op_local(o) == l for o in rv['ops']):
                    if rv['agg'] == 'tuple' and not st['pl']['p']:
                        # argument tuple of a Fn call or a plain tuple: follow
                        self._follow_value(body, st['pl']['l'], val, seen)
                    else:
                        (self.closure_escapes if kind == 'closure' else self.fnitem_escapes).setdefault(uid, []).append((body, 'aggregate:' + rv.get('adt', rv['agg'])))
            t = blk['term']
            if t['k'] == 'call':
                c = Call(body, b, t)
                if any(op_local(a) == l for a in c.args):
                    self._value_passed(body, c, val, seen)

    def _build_callgraph(self):
        self.edges = {b.id: set() for b in self.bodies}       # local direct edges
        self.edge_sites = {}                                     # (caller, callee) -> [Call]
        self.ext_calls = {b.id: [] for b in self.bodies}         # calls that leave the crate
        self.callback_sites = []                                 # virtual / indirect calls
        for body in self.bodies:
            for c in body.live_calls:
                ru = c.ruid
                if ru is not None and ru in self.by_id:
                    self.edges[body.id].add(ru)
                    self.edge_sites.setdefault((body.id, ru), []).append(c)
                elif c.is_virtual or c.is_indirect:
                    self.callback_sites.append(c)
                else:
                    self.ext_calls[body.id].append(c)
        self.conv_targets = {}      # (body, bb) of an Into::into / TryInto::try_into call -> the local From / TryFrom impl it runs
        self._generic_edges()
        self._trait_default_edges()
        # closure-argument edges: a closure passed to a call is assumed invoked by the creator
        # at that call site
        self.closure_call_sites = {}   # closure uid -> [Call]  (the external call that runs it)
        for cu, calls in self.closure_passed.items():
            if cu not in self.by_id:
                continue
            for c in calls:
                self.edges[c.body.id].add(cu)
                self.edge_sites.setdefault((c.body.id, cu), []).append(c)
                self.closure_call_sites.setdefault(cu, []).append(c)
        self._resolve_fnptr_params()
        self._closed_dyn_dispatch()
        self._resolve_generic_fn_params()
        self.callers = {b.id: set() for b in self.bodies}
        for a, bs in self.edges.items():
            for b in bs:
                self.callers[b].add(a)

    def _closed_dyn_dispatch(self):
        """`table.init()` on a `&mut dyn Manager` where `Manager` is a trait of this crate that cannot be named from
        outside (the privacy pass says so): the set of impls is closed, the call is not a callback into user code.  Its
        targets are the impls of the types that are coerced to `dyn Manager` somewhere in the crate (rapid type analysis:
        a type that is never turned into the trait object cannot be the receiver); every impl when a coercion starts
        from a type this reading cannot name (a generic parameter)."""
        closed = {}
        for im in self.f.j.get('impls', []):
            tr = im.get('trait')
            if not tr or not im.get('trait_local'):
                continue
            closed.setdefault(tr, []).append(im)
        closed = {tr: ims for tr, ims in closed.items() if not any(im.get('trait_reachable', True) for im in ims)}
        if not closed:
            return
        coerced = {tr: set() for tr in closed}
        unknown = set()
        for b in self.bodies:
            for bb, i, pl, rv in b.assigns():
                if rv['k'] == 'cast' and 'Unsize' in (rv.get('cast') or ''):
                    for tr in closed:
                        if re.search(r'dyn %s\b' % re.escape(tr), rv.get('to') or ''):
                            m = re.match(r"^(?:&(?:'\w+ )?(?:mut )?|std::boxed::Box<|std::rc::Rc<|std::sync::Arc<)(.*?)>?$", rv.get('from') or '')
                            ty = m.group(1) if m else None
                            if ty and any(im['self'] == ty for im in closed[tr]):
                                coerced[tr].add(ty)
                            else:
                                unknown.add(tr)
        by_impl = {}
        for b in self.bodies:
            if b.impl_trait:
                by_impl.setdefault((b.impl_trait.split('<')[0], b.name.split('::')[-1]), []).append(b)
        keep = []
        for c in self.callback_sites:
            tr = (c.fn.get('trait') or '').split('<')[0] if c.fn else ''
            if not c.is_virtual or tr not in closed:
                keep.append(c); continue
            meth = (c.callee or '').split('::')[-1]
            tg = [b for b in by_impl.get((tr, meth), []) if tr in unknown or (b.j.get('impl_self') or '') in coerced[tr]]
            if not tg:
                keep.append(c); continue
            self.resolved_indirect[(c.body.id, c.bb)] = [t.id for t in tg]
            for t in tg:
                self.edges[c.body.id].add(t.id)
                self.edge_sites.setdefault((c.body.id, t.id), []).append(c)
        self.callback_sites = keep

    def _resolve_fnptr_params(self):
        """an indirect call `p(..)` where p is a plain `fn(..)` parameter of a private body and every
        call site passes a fn item / enum constructor of this crate is a direct call in disguise, not a
        callback into user code"""
        keep = []
        self.resolved_indirect = {}
        for c in self.callback_sites:
            body = c.body
            if not c.is_indirect:
                keep.append(c); continue
            fo = single_origin(trace_operand(body, c.term['func'], through_calls=set()))
            owner = body
            if fo is not None and fo.kind == 'param' and fo.data == 1 and body.is_closure and len(fo.proj) == 1 and fo.proj[0][0] == 'f':
                # the pointer was captured by a closure (`.filter(|(_, v)| keep(v))`): it is the enclosing body's parameter
                cs = self.closure_sites.get(body.id, [])
                k = fo.proj[0][1]
                fo = None
                if len(cs) == 1:
                    pb, pbb, pi = cs[0]
                    agg = pb.blocks[pbb]['stmts'][pi]['rv']
                    if k < len(agg['ops']):
                        fo = single_origin(trace_operand(pb, agg['ops'][k], through_calls=set()))
                        owner = pb
            if owner.is_closure or self._publicly_reachable(owner):
                keep.append(c); continue
            if fo is None or fo.kind != 'param' or fo.proj or not re.match(r'^(for<[^>]*> )?(unsafe )?fn\(', owner.locals[fo.data]['ty']):
                keep.append(c); continue
            sites = []
            for b2 in self.bodies:
                for cc in b2.live_calls:
                    if cc.ruid == owner.id:
                        sites.append(cc)
            targets = []
            okk = bool(sites)
            for cc in sites:
                if fo.data - 1 >= len(cc.args):
                    okk = False; break
                ao = single_origin(trace_operand(cc.body, cc.args[fo.data - 1], through_calls=set()))
                if ao is not None and ao.kind == 'const' and 'fn' in ao.data and ao.data['fn'].get('crate') == self.f.crate:
                    targets.append(ao.data['fn']['uid'])
                elif ao is not None and ao.kind == 'agg' and ao.data[2].get('agg') == 'closure' and not ao.data[2].get('ops') and ao.data[2]['closure'] in self.by_id:
                    targets.append(ao.data[2]['closure'])      # a non-capturing closure coerced to a fn pointer
                else:
                    okk = False; break
            if not okk:
                keep.append(c); continue
            self.resolved_indirect[(body.id, c.bb)] = targets
            for tu in targets:
                if tu in self.by_id:
                    self.edges[body.id].add(tu)
                    self.edge_sites.setdefault((body.id, tu), []).append(c)
        self.callback_sites = keep

    def _resolve_generic_fn_params(self):
        """`f(..)` on a generic `F: Fn*` parameter of a local body (MIR: an unresolved Fn::call / FnMut::call_mut /
        FnOnce::call_once): the callee is whatever the body's callers pass.  When every caller is local and passes a
        closure / fn item of this crate, the site calls exactly those (and runs them *here*, under whatever this body
        holds); otherwise it is a callback into code the engine does not own."""
        self.generic_cb_targets = {}
        self.generic_callbacks = set()
        FN_CALLS = ('std::ops::Fn::call', 'std::ops::FnMut::call_mut', 'std::ops::FnOnce::call_once')
        for body in self.bodies:
            for c in body.live_calls:
                if c.callee not in FN_CALLS or c.is_virtual or c.is_indirect or c.ruid is not None or not c.args:
                    continue
                if c.fn and c.fn['resolved'].get('kind') not in ('unresolved', 'error', None):
                    continue
                fo = single_origin(trace_operand(body, c.args[0], through_calls=set()))
                targets = []
                owner = body
                if fo is not None and fo.kind == 'param' and fo.data == 1 and body.is_closure and len(fo.proj) == 1 and fo.proj[0][0] == 'f':
                    # the generic callable was captured by a closure (`iter.map(|(k, v)| f(k, v))`): it is the
                    # enclosing body's parameter
                    cs = self.closure_sites.get(body.id, [])
                    fo = None
                    if len(cs) == 1:
                        pb, pbb, pi = cs[0]
                        agg = pb.blocks[pbb]['stmts'][pi]['rv']
                        k = self_k = None
                        try:
                            k = [e for e in trace_operand(body, c.args[0], through_calls=set())][0].proj[0][1]
                        except Exception:
                            k = None
                        if k is not None and k < len(agg['ops']):
                            fo = single_origin(trace_operand(pb, agg['ops'][k], through_calls=set()))
                            owner = pb
                okk = fo is not None and fo.kind == 'param' and not fo.proj and not owner.is_closure and not (owner.is_pub and self._publicly_reachable(owner))
                sites = []
                if okk:
                    for b2 in self.bodies:
                        for cc in b2.live_calls:
                            if cc.ruid == owner.id:
                                sites.append(cc)
                    okk = bool(sites)
                for cc in sites if okk else []:
                    if fo.data - 1 >= len(cc.args):
                        okk = False; break
                    ao = single_origin(trace_operand(cc.body, cc.args[fo.data - 1], through_calls=set()))
                    if ao is not None and ao.kind == 'agg' and ao.data[2].get('agg') == 'closure' and ao.data[2]['closure'] in self.by_id:
                        targets.append(ao.data[2]['closure'])
                    elif ao is not None and ao.kind == 'const' and isinstance(ao.data, dict) and ao.data.get('fn') and ao.data['fn'].get('crate') == self.f.crate:
                        if ao.data['fn']['uid'] in self.by_id:
                            targets.append(ao.data['fn']['uid'])
                    else:
                        okk = False; break
                if not okk:
                    self.generic_callbacks.add((body.id, c.bb))
                    self.callback_sites.append(c)
                    continue
                # no call-graph edge body -> target: each caller already has the edge "caller -> the closure it passes"
                # (a closure runs at the call site it is handed to), and adding the union here would make every caller
                # of the helper reach every other caller's closure.  Rules that need "what runs *here*" (locks held in
                # this body) read generic_cb_targets.
                self.generic_cb_targets[(body.id, c.bb)] = targets

    def _publicly_reachable(self, body):
        """can code outside the crate name this fn?  The privacy pass's own answer (effective visibility: a pub item
        on a path of pub modules / re-exports); `pub` alone when the fact file does not carry it"""
        return bool(body.j.get('reachable', body.is_pub))

    def _trait_default_edges(self):
        """a local generic body (a trait's default method, a `fn f<T: Trait>`) that calls a method of a local trait
        on its generic type: the call has no single callee; it may enter every local impl of that method"""
        self.trait_targets = {}
        impls = {}
        for b in self.bodies:
            if b.impl_trait:
                impls.setdefault((b.impl_trait.split('<')[0], b.name.split('::')[-1]), []).append(b)
        for body in self.bodies:
            for c in list(self.ext_calls[body.id]):
                if not c.fn or not c.fn.get('local') or c.fn['resolved'].get('kind') not in ('unresolved', 'error', None):
                    continue
                tr = (c.fn.get('trait') or '').split('<')[0]
                if not tr:
                    continue
                meth = (c.callee or '').split('::')[-1]
                tg = impls.get((tr, meth), [])
                if not tg:
                    continue
                self.trait_targets[(body.id, c.bb)] = [t.id for t in tg]
                for t in tg:
                    self.edges[body.id].add(t.id)
                    self.edge_sites.setdefault((body.id, t.id), []).append(c)

    def _generic_edges(self):
        """external generic code that calls back into local trait impls: Vec<T>/Box<T>/Option<T>
        clone / eq / hash / fmt -> <T as Trait>::method;  Into::into -> From::from;
        ToString::to_string and fmt::Argument::new_display -> Display::fmt (new_debug -> Debug::fmt).
        Over-approximate: any local impl of the same trait whose self ADT is named in the call's
        generic arguments."""
        impls = {}
        for b in self.bodies:
            if b.impl_trait and b.impl_self:
                m = re.match(r'^([\w:]+)', b.impl_self)
                adt = m.group(1) if m else b.impl_self
                impls.setdefault((b.impl_trait, b.name.split('::')[-1]), []).append((adt, b))
        MAP = {
            ('std::convert::Into', 'into'): ('std::convert::From', 'from'),
            ('std::convert::TryInto', 'try_into'): ('std::convert::TryFrom', 'try_from'),
            ('std::string::ToString', 'to_string'): ('std::fmt::Display', 'fmt'),
        }
        for body in self.bodies:
            for c in list(self.ext_calls[body.id]):
                if not c.fn:
                    continue
                tr = c.fn.get('trait')
                meth = (c.callee or '').split('::')[-1]
                keys = []
                if tr:
                    keys.append(MAP.get((tr, meth), (tr, meth)))
                if (c.callee or '').endswith('Argument::<\'_>::new_display'):
                    keys.append(('std::fmt::Display', 'fmt'))
                if (c.callee or '').endswith('Argument::<\'_>::new_debug'):
                    keys.append(('std::fmt::Debug', 'fmt'))
                args = ' '.join(c.fn.get('args', [])) + ' ' + ' '.join(c.fn['resolved'].get('args', []))
                fa = c.fn.get('args', [])
                for k in keys:
                    for adt, ib in impls.get(k, []):
                        if k in (('std::convert::From', 'from'), ('std::convert::TryFrom', 'try_from')) and len(fa) >= 2:
                            # Into::into / From::from with [T, U]: only the impl <U as From<T>>
                            tref = ib.j.get('impl_trait_ref', '')
                            T, U = (fa[0], fa[1]) if tr in ('std::convert::Into', 'std::convert::TryInto') else (fa[1] if len(fa) > 1 else '', fa[0])
                            def norm(s):
                                return re.sub(r"'\w+", "'_", s)
                            if norm(tref) != norm('<%s as %s<%s>>' % (U, k[0], T)):
                                continue
                            self.conv_targets[(body.id, c.bb)] = ib.id
                        if re.search(r'(^|[^\w:])%s\b' % re.escape(adt), args):
                            self.edges[body.id].add(ib.id)
                            self.edge_sites.setdefault((body.id, ib.id), []).append(c)

    def conv_target_of(self, c):
        """the local `<U as From<T>>::from` / `<U as TryFrom<T>>::try_from` body an `Into::into` / `TryInto::try_into`
        call runs (std's blanket impls just forward), or None"""
        if not c.fn or c.fn.get('trait') not in ('std::convert::Into', 'std::convert::TryInto'):
            return None
        fa = c.fn.get('args', [])
        if len(fa) < 2:
            return None
        want_tr = 'std::convert::From' if c.fn['trait'] == 'std::convert::Into' else 'std::convert::TryFrom'
        meth = 'from' if want_tr.endswith('From') and not want_tr.endswith('TryFrom') else 'try_from'
        norm = lambda x: re.sub(r"'\w+", "'_", x)
        for b in self.bodies:
            if b.impl_trait == want_tr and b.name.split('::')[-1] == meth:
                if norm(b.j.get('impl_trait_ref', '')) == norm('<%s as %s<%s>>' % (fa[1], want_tr, fa[0])):
                    return b
        return None

    def is_callback(self, c):
        """a call into code the engine does not own (dyn Fn / fn pointer / generic F) — not an indirect
        call that was resolved to crate fn items"""
        if (c.body.id, c.bb) in getattr(self, 'generic_callbacks', ()):
            return True
        return (c.is_virtual or c.is_indirect) and (c.body.id, c.bb) not in self.resolved_indirect

    def reach(self, entry_ids, stop=()):
        seen = set()
        st = list(entry_ids)
        stop = set(stop)
        while st:
            x = st.pop()
            if x in seen or x in stop or x not in self.edges:
                continue
            seen.add(x)
            st.extend(self.edges[x])
        return seen

    def call_sccs(self, within):
        nodes = sorted(within)
        succ = {n: [m for m in self.edges[n] if m in within] for n in nodes}
        return _sccs(nodes, succ)

    # ---- roles
    def api(self, name):
        """public API anchor by pretty def path; fails closed in the caller if missing"""
        bs = self.f.by_name(name)
        return bs[0] if bs else None

    def handler_sites(self, cls=None):
        out = []
        for c in self.callback_sites:
            k = dyn_fn_class(c.term['arg_tys'][0] if c.term['arg_tys'] else c.term['fty']) if (c.is_virtual) else dyn_fn_class(c.term['fty'])
            if c.is_virtual and c.callee in ('std::ops::Fn::call', 'std::ops::FnMut::call_mut', 'std::ops::FnOnce::call_once'):
                pass
            if cls is None or k == cls:
                out.append((c, k))
        return out

    def view(self, body, keep=None, tag='default', upvar_consts=None, max_depth=3):
        """the body with private helpers and combinator closures inlined (see inline.py); cached"""
        import inline
        if not hasattr(self, '_views'):
            self._views = {}
        k = (body.id, tag)
        if k not in self._views:
            kp = keep or (lambda g: g.is_pub)
            v = inline.Inliner(self, kp, max_depth=max_depth).view(body, upvar_consts=upvar_consts)
            self._views[k] = v if v.j.get('inlined') else body
        return self._views[k]

    def builtin_handlers(self):
        """closures (and fn items) of this crate that escape into a handler dyn Fn type"""
        out = []
        for cu, escs in self.closure_escapes.items():
            for (body, to) in escs:
                if dyn_fn_class(to) == 'handler' and cu in self.by_id:
                    out.append(self.by_id[cu])
                    break
        for fu, escs in self.fnitem_escapes.items():
            for (body, to) in escs:
                if dyn_fn_class(to) == 'handler' and fu in self.by_id:
                    out.append(self.by_id[fu])
                    break
        return out


def reaching_defs(body, l, at_bb):
    """whole definitions of local l that can reach the terminator of at_bb without passing another
    whole definition of l"""
    du = defuse(body)
    defs = du.whole_defs(l)
    dblocks = {d[0] for d in defs}
    out = []
    for d in defs:
        if d[0] == at_bb:
            # a def in the same block precedes the terminator
            later = [x for x in defs if x[0] == at_bb and x is not d and x[1] != 'term' and d[1] != 'term' and x[1] > d[1]]
            if d[1] != 'term' and not later:
                out.append(d)
            continue
        others = dblocks - {d[0]}
        if at_bb in body.reachable_after(d[0]) and at_bb in _reach_avoid(body, d[0], others):
            # and no other def later in d's own block
            if not [x for x in defs if x[0] == d[0] and x is not d and x[1] != 'term' and d[1] != 'term' and x[1] > d[1]]:
                out.append(d)
    # a def inside at_bb shadows the others
    inblock = [d for d in out if d[0] == at_bb]
    return inblock[-1:] if inblock else out


def _reach_avoid(body, start, avoid):
    seen = set()
    st = list(body.succ[start])
    while st:
        b = st.pop()
        if b in seen:
            continue
        seen.add(b)
        if b in avoid:
            continue      # reach it, but do not go through it
        st.extend(body.succ[b])
    return seen


def trace_operand_at(body, op, at_bb, **kw):
    """like trace_operand, but a multi-definition local is first narrowed to the definitions that
    reach at_bb (flow-sensitive at the first hop only)"""
    pl = op_place(op)
    if pl is None:
        return trace_operand(body, op, **kw)
    l = pl['l']
    du = defuse(body)
    for _ in range(30):
        defs = du.whole_defs(l)
        if len(defs) == 1 and defs[0][2] == 'assign' and defs[0][3]['k'] == 'use' and op_local(defs[0][3]['op']) is not None and not pl['p']:
            at_bb = defs[0][0]
            l = op_local(defs[0][3]['op'])
            continue
        break
    defs = du.whole_defs(l)
    if len(defs) <= 1 or pl['p']:
        return trace_operand(body, op, **kw)
    rd = reaching_defs(body, l, at_bb)
    if len(rd) != 1:
        return trace_operand(body, op, **kw)
    (b, i, kind, payload, dproj) = rd[0]
    if kind == 'call':
        c = payload
        tc = kw.get('through_calls', TRANSPARENT_CALLS)
        if c.callee in tc and c.args:
            return trace_operand(body, c.args[0], **kw)
        return {Origin('callres', c, ())}
    if kind == 'assign':
        rv = payload
        if rv['k'] == 'use':
            return trace_operand_at(body, rv['op'], b, **kw)
        if rv['k'] in ('ref', 'copy_for_deref'):
            return trace_place(body, rv['pl'], **kw)
    return trace_operand(body, op, **kw)
