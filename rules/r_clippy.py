"""Thorough-tier cross-reference: every clippy hit of the panic-class lints inside the analysed
scope must be a site of the PANIC inventory (otherwise the inventory has a gap)."""
import json, os, subprocess, tempfile, shutil
from engine import ok, bad, assumed
from extract import WORK, ToolError

LINTS = ['clippy::unwrap_used', 'clippy::expect_used', 'clippy::indexing_slicing', 'clippy::string_slice', 'clippy::panic',
         'clippy::unreachable', 'clippy::todo', 'clippy::unimplemented']


def run_clippy(root):
    os.makedirs(WORK, exist_ok=True)
    tdir = tempfile.mkdtemp(prefix='clippy-', dir=WORK)
    try:
        env = dict(os.environ, CARGO_TARGET_DIR=tdir, CARGO_NET_OFFLINE='true')
        cmd = ['cargo', '+nightly', 'clippy', '--offline', '--lib', '--message-format=json', '--'] + sum((['-W', l] for l in LINTS), [])
        p = subprocess.run(cmd, cwd=root, env=env, stdout=subprocess.PIPE, stderr=subprocess.PIPE, text=True)
        hits = []
        for line in p.stdout.splitlines():
            try:
                m = json.loads(line)
            except ValueError:
                continue
            if m.get('reason') != 'compiler-message':
                continue
            msg = m['message']
            code = (msg.get('code') or {}).get('code')
            if code not in LINTS:
                continue
            for sp in msg.get('spans', []):
                if sp.get('is_primary'):
                    hits.append((code, sp['file_name'], sp['line_start']))
        if p.returncode != 0 and not hits:
            return None, p.stderr[-500:]
        return hits, ''
    finally:
        shutil.rmtree(tdir, ignore_errors=True)


def rule_clippy(ctx, bodies, sites, rule='CLIPPY'):
    hits, err = run_clippy(ctx.root)
    if hits is None:
        return [assumed(rule, '%s|unavailable' % rule, 'clippy cross-reference not available here (%s): skipped, inventory stands on its own' % err.strip()[-120:])]
    # line ranges of every body of the crate; a hit belongs to the innermost body containing it
    import r_panic
    scope_ids = {b.id for b in bodies}
    ranges = []
    for b in ctx.facts.bodies:
        lines = [b.blocks[i]['span']['line'] for i in b.live_blocks if not b.blocks[i]['span'].get('exp')]
        lines.append(b.j['span']['line'])
        ranges.append((b.j['span']['file'], min(lines), max(lines), b))
    inv = {}
    for b in ctx.facts.bodies:
        for s in r_panic.sites_of(b):
            sp = s.body.blocks[s.bb]['span']
            inv.setdefault((sp['file'], sp['line']), []).append(s)
    obs = []
    n_in = 0
    for code, f, line in hits:
        owners = [(hi - lo, b) for (bf, lo, hi, b) in ranges if bf == f and lo <= line <= hi]
        if not owners:
            continue
        owners.sort(key=lambda x: x[0])
        owner = owners[0][1]
        if owner.id not in scope_ids:
            continue
        n_in += 1
        if any((f, line + d) in inv for d in (0, -1, 1, -2, 2)):
            continue
        obs.append(bad(rule, '%s|gap|%s|%s' % (rule, owner.name, code), 'inventory gap: clippy reports %s at %s:%d inside %s, but the PANIC inventory has no site there' % (code, f, line, owner.name), '%s:%d' % (f, line), body=owner.name))
    if not obs:
        obs.append(ok(rule, '%s|covered' % rule, 'all %d clippy panic-class hits inside the %d analysed bodies (of %d in the crate) are sites of the PANIC inventory' % (n_in, len(bodies), len(hits))))
    return obs
