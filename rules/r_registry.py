"""WINIT, WINSERT, WDISP, handler-receiver provenance, parameter pass-through (C08, C13)."""
import re
from facts import op_local, op_place, Call
from analysis import (defuse, trace_operand, trace_local, single_origin, TRANSPARENT_CALLS, dyn_fn_class,
                      LOCK_CALLS, ONCE_CALLS, guard_class)
from engine import ok, bad, assumed, floor
import r_misc

API = ['parse_expression', 'execute', 'register_function', 'register_prefix_op', 'register_infix_op', 'register_postfix_op']
REGISTER_API = ['register_function', 'register_prefix_op', 'register_infix_op', 'register_postfix_op']
HM_MUT = {'insert', 'remove', 'clear', 'entry', 'retain', 'extend', 'get_mut', 'drain', 'try_insert', 'remove_entry',
          'iter_mut', 'values_mut', 'get_or_insert_with', 'raw_entry_mut', 'extract_if', 'shrink_to', 'get_many_mut', 'get_disjoint_mut'}
THROUGH = set(TRANSPARENT_CALLS) | {'std::string::ToString::to_string', 'std::clone::Clone::clone', 'std::borrow::ToOwned::to_owned',
                                    'std::convert::Into::into', 'std::convert::From::from'}


def hm_method(c):
    m = re.match(r'^std::collections::HashMap::<K, V, S, A>::(\w+)$', c.callee or '')
    return m.group(1) if m else None


def reg_class_of_call(c):
    """class of the map a HashMap method call works on (by its receiver type)"""
    tys = c.term['arg_tys']
    return guard_class(tys[0]) if tys else 'OTHER'


class RegModel:
    def __init__(self, prog, lm):
        self.prog = prog
        self.lm = lm
        self.once_flag = [s for s in prog.f.statics if r_misc.classify_static(s) == 'ONCE']
        flag_ids = {s['id'] for s in self.once_flag}
        # the once call on the ONCE flag + its closure
        self.init_once = []     # (body, Call, closure body)
        for clo, c in lm.once_closures:
            recv = trace_operand(c.body, c.args[0]) if c.args else set()
            if any(o.kind == 'static' and o.data in flag_ids for o in recv):
                self.init_once.append((c.body, c, clo))
        # MustInit: every path entry->return passes a call to a MustInit body / the once call
        must = {b.id for (b, c, clo) in self.init_once if self._must_pass(b, {c.bb})}
        changed = True
        while changed:
            changed = False
            for b in prog.bodies:
                if b.id in must:
                    continue
                blocks = {c.bb for c in b.live_calls if c.ruid in must}
                if blocks and self._must_pass(b, blocks):
                    must.add(b.id)
                    changed = True
        self.must_init = must
        # leaf registry writers: bodies that apply a &mut HashMap method to a REGISTRY map
        self.leaf = {}
        for b in prog.bodies:
            ms = [c for c in b.live_calls if hm_method(c) in HM_MUT and reg_class_of_call(c) == 'REGISTRY']
            if ms:
                self.leaf[b.id] = ms
        # an *un-registration* API (`unregister_function`): a body whose only effect on a registry is `remove`, and that
        # neither the existing entry points, nor the evaluator / renderers, nor the fillers can reach — an explicit call
        # of the user's, a different operation from the one "the most recent registration wins" speaks about
        self.unreg = {}
        roots = [prog.api(n).id for n in API if prog.api(n)]
        roots += [b.id for b in prog.bodies if b.name.split('::')[-1] in ('exec', 'expr', 'describe') and b.j.get('reachable', b.is_pub)]
        from_roots = prog.reach(roots)
        for bid, ms in list(self.leaf.items()):
            if [hm_method(c) for c in ms] == ['remove'] and bid not in from_roots and not any(
                    bid in prog.reach([h.j.get('parent')]) for h in prog.builtin_handlers() if h.is_closure and h.j.get('parent') in prog.by_id):
                self.unreg[bid] = self.leaf.pop(bid)
        # fillers: bodies that create built-in handler closures
        hs = prog.builtin_handlers()
        fl = {h.j.get('parent') for h in hs if h.is_closure and h.j.get('parent') in prog.by_id}
        # ... or that hand a named fn of this crate over as a handler
        for fu, escs in prog.fnitem_escapes.items():
            for (body, to) in escs:
                if dyn_fn_class(to) == 'handler' and fu in prog.by_id and not body.is_closure:
                    fl.add(body.id)
        self.fillers = sorted(fl)
        # writer family: leaf writers plus forwarders (bodies whose only registry-affecting action is
        # one call into the family whose arguments are their own parameters, constants, or a record
        # built from those)
        api_ids = {prog.api(n).id for n in API if prog.api(n)}
        self.family = set(self.leaf)
        self.forward_call = {}
        changed = True
        while changed:
            changed = False
            for b in prog.bodies:
                if b.id in self.family or b.id in self.fillers or b.id in api_ids or b.is_closure:
                    continue
                calls = [c for c in b.live_calls if c.ruid in self.family]
                if len(calls) != 1:
                    continue
                c = calls[0]
                if all(self._forwardable(b, a) for a in c.args[1:]):
                    self.family.add(b.id)
                    self.forward_call[b.id] = c
                    changed = True
        # ... or that register a handler obtained from a local factory (`manager.register(op, p, CALC, LEFT, integer_handler(op))`
        # where integer_handler is the parent of the handler closure)
        fl0 = set(self.fillers)
        for b in prog.bodies:
            if b.id in fl0 or b.id in self.family or b.id in api_ids or b.is_closure:
                continue
            for c in b.live_calls:
                if c.ruid in self.family and any(
                        (lambda o: o is not None and o.kind == 'callres' and not o.proj and o.data.ruid in fl0)(single_origin(trace_operand(b, a, through_calls=set())))
                        for a in c.args[1:]):
                    fl.add(b.id)
                    break
        self.fillers = sorted(fl)
        self.writers = {bid: self.leaf.get(bid, [self.forward_call.get(bid)]) for bid in self.family}
        self.reach_writer = lm._closure(lambda bid: bid in self.family)
        self.reg_lockers = {b.id for b in prog.bodies
                            if any(prog.is_lock_call(c) and guard_class(c.term['dest']['ty']) == 'REGISTRY' for c in b.live_calls)}
        self.reach_reg_lock = lm._closure(lambda bid: bid in self.reg_lockers)
        # once-only bodies: reachable only through the once-closure of the ONCE flag
        once_ids = {clo.id for (b, c, clo) in self.init_once}
        self.once_only = set(once_ids)
        changed = True
        while changed:
            changed = False
            for b in prog.bodies:
                if b.id in self.once_only:
                    continue
                callers = prog.callers.get(b.id, set())
                if callers and all(x in self.once_only for x in callers):
                    self.once_only.add(b.id)
                    changed = True

    def _forwardable(self, b, op, depth=0):
        if depth > 3:
            return False
        for o in trace_operand(b, op, through_calls=THROUGH):
            if o.kind == 'param':
                continue
            if o.kind == 'const':
                continue
            if o.kind == 'agg' and o.data[2]['agg'] in ('adt', 'tuple'):
                if all(self._forwardable(b, x, depth + 1) for x in o.data[2]['ops']):
                    continue
            return False
        return True

    def _must_pass(self, body, blocks):
        """every path entry -> return passes through one of `blocks`"""
        if 0 in blocks:
            return True
        reach = body.reachable_from(0, avoid=set(blocks))
        return not any(body.blocks[b]['term']['k'] == 'return' for b in reach)


def rule_winit(rm):
    prog = rm.prog
    obs = []
    obs.append(floor('WINIT', 'once-flag-init', len(rm.init_once), 1, 'the built-in tables are filled through a blocking once primitive keyed on the once-flag static'))
    for name in API:
        e = prog.api(name)
        key = 'WINIT|entry|%s' % name
        if e is None:
            obs.append(bad('WINIT', key, 'anchor lost: public API function %s not found' % name))
            continue
        inits = [c.bb for c in e.live_calls if c.ruid in rm.must_init]
        problems = []
        n = 0
        for c in e.live_calls:
            targets = [c.ruid] if c.ruid else []
            for cu, calls in prog.closure_call_sites.items():
                if any(cc.body is e and cc.bb == c.bb for cc in calls):
                    targets.append(cu)
            touches = any(t in rm.reach_reg_lock for t in targets) or prog.is_lock_call(c)
            if not touches or c.ruid in rm.must_init:
                continue
            n += 1
            if not any(e.dominates(i, c.bb) and i != c.bb for i in inits):
                problems.append('the call to %s (bb%d) can touch a registry but is not dominated by a call to the initialiser' % (c.rdef or c.callee, c.bb))
        if e.id in rm.reg_lockers:
            problems.append('locks a registry directly')
        if problems:
            obs.append(bad('WINIT', key, '%s: %s — built-ins may later overwrite a user registration / a lookup may see an unfilled table' % (name, '; '.join(problems)), e.where(), body=e.name))
        elif n == 0 and not inits:
            obs.append(bad('WINIT', key, '%s neither initialises nor touches a registry: anchor shape changed' % name, e.where(), body=e.name))
        else:
            obs.append(ok('WINIT', key, '%s: %d registry-touching call(s), each dominated by the initialiser call' % (name, n), e.where()))
    # fillers only from the once-closure of the ONCE flag
    for fid in rm.fillers:
        fb = prog.by_id[fid]
        callers = prog.callers.get(fid, set())
        key = 'WINIT|filler|%s' % fb.name
        extra = [prog.by_id[c].name for c in callers if c not in rm.once_only]
        if not callers:
            obs.append(bad('WINIT', key, 'built-in filler %s is never called' % fb.name, fb.where(), body=fb.name))
        elif extra:
            obs.append(bad('WINIT', key, 'built-in filler %s is called from %s, outside the blocking once-closure: a concurrent first use can observe a partially filled table, and a later call re-installs built-ins over user registrations' % (fb.name, extra), fb.where(), body=fb.name))
        else:
            obs.append(ok('WINIT', key, 'built-in filler %s is reachable only through the once-closure' % fb.name, fb.where()))
    obs.append(floor('WINIT', 'fillers', len(rm.fillers), 4, 'prefix / infix / postfix / function built-ins'))
    # the once closure must not be bypassed: the body holding the once call has no other path
    for (b, c, clo) in rm.init_once:
        key = 'WINIT|once|%s' % b.name
        if rm._must_pass(b, {c.bb}):
            obs.append(ok('WINIT', key, 'every path through %s runs the once primitive' % b.name, b.where()))
        else:
            obs.append(bad('WINIT', key, '%s has a path that skips the once primitive' % b.name, b.where(), body=b.name))
    return obs


def rule_winsert(rm):
    prog = rm.prog
    obs = []
    # leaf writers: exactly one insert(name, value) built from the parameters
    for bid, calls in sorted(rm.leaf.items()):
        b = prog.by_id[bid]
        ms = [hm_method(c) for c in calls]
        key = 'WINSERT|writer|%s' % b.name
        if ms != ['insert']:
            obs.append(bad('WINSERT', key, 'registry writer %s applies %s to the registry map; only a single `insert` (replace = most recently registered wins) is allowed' % (b.name, ms), b.where(), body=b.name))
            continue
        c = calls[0]
        ko = single_origin(trace_operand(b, c.args[1], through_calls=THROUGH))
        problems = []
        if ko is None or ko.kind != 'param' or ko.proj:
            problems.append('the key is not the (unchanged) name parameter')
        v = single_origin(trace_operand(b, c.args[2], through_calls=THROUGH))
        used = []
        if v is not None and v.kind == 'agg' and v.data[2]['agg'] == 'adt':
            for k, o in enumerate(v.data[2]['ops']):
                fo = single_origin(trace_operand(b, o, through_calls=THROUGH))
                if fo is None or fo.kind != 'param' or fo.proj:
                    problems.append('field %d of the stored value is not a parameter passed through unchanged' % k)
                else:
                    used.append(fo.data)
            if used != sorted(used) or len(set(used)) != len(used):
                problems.append('parameters are stored out of declaration order: %s' % used)
        elif v is not None and v.kind == 'param' and not v.proj:
            used = [v.data]
        else:
            problems.append('the stored value is not built from the parameters')
        if not problems and used and ko.data >= min(used):
            problems.append('the key parameter does not precede the value parameters')
        if not problems:
            rest = sorted([ko.data] + used)
            # every parameter after the receiver(s) reaches the map
            if rest != list(range(rest[0], b.arg_count + 1)) or rest[0] > 2:
                problems.append('not every parameter reaches the map (%s of %d)' % (rest, b.arg_count))
        # the insert is unconditional
        skip = b.reachable_from(0, avoid={c.bb})
        if c.bb != 0 and any(b.blocks[x]['term']['k'] == 'return' for x in skip):
            problems.append('the insert can be skipped on some path')
        if problems:
            obs.append(bad('WINSERT', key, '%s: %s' % (b.name, '; '.join(problems)), c.where(), body=b.name))
        else:
            obs.append(ok('WINSERT', key, '%s: one unconditional insert(name, value) with name = parameter %d and value = parameter(s) %s, unchanged' % (b.name, ko.data, used), c.where()))
    # forwarders: hand their parameters on unchanged and in order (constants may be filled in)
    for bid, c in sorted(rm.forward_call.items()):
        b = prog.by_id[bid]
        key = 'WINSERT|forward|%s' % b.name
        seq = []
        okk = True
        for a in c.args[1:]:
            for o in trace_operand(b, a, through_calls=THROUGH):
                if o.kind == 'param' and not o.proj:
                    seq.append(o.data)
                elif o.kind == 'agg':
                    for x in o.data[2]['ops']:
                        for oo in trace_operand(b, x, through_calls=THROUGH):
                            if oo.kind == 'param' and not oo.proj:
                                seq.append(oo.data)
                            elif oo.kind == 'param':
                                okk = False
                elif o.kind == 'param':
                    # a field of self (e.g. the store handle) is fine as a receiver-like first argument
                    if o.data != 1:
                        okk = False
        skip = b.reachable_from(0, avoid={c.bb})
        uncond = c.bb == 0 or not any(b.blocks[x]['term']['k'] == 'return' for x in skip)
        ps = [x for x in seq if x >= 2]
        if okk and uncond and ps == sorted(ps) and len(set(ps)) == len(ps) and ps == list(range(2, b.arg_count + 1)):
            obs.append(ok('WINSERT', key, '%s forwards all its parameters %s unchanged, in order, unconditionally' % (b.name, ps), c.where()))
        else:
            obs.append(bad('WINSERT', key, '%s does not forward all of its parameters unchanged, in order and unconditionally to the registry writer (forwarded %s of %d%s)' % (b.name, ps, b.arg_count, '' if uncond else '; the call can be skipped'), c.where(), body=b.name))
    # who may call the family: register_*, fillers, other family members
    allowed = set(rm.fillers) | set(rm.family)
    for n in REGISTER_API:
        e = prog.api(n)
        if e:
            allowed.add(e.id)
    for bid in sorted(rm.family):
        b = prog.by_id[bid]
        callers = prog.callers.get(bid, set())
        def home(x, depth=0):
            # a closure belongs to the body that creates it (`with_builtins(|| Manager::new().register(..))`)
            cb = prog.by_id[x]
            while cb.is_closure and cb.j.get('parent') in prog.by_id and depth < 4:
                cb = prog.by_id[cb.j['parent']]
                depth += 1
            return cb.id
        extra = [prog.by_id[x].name for x in callers if x not in allowed and home(x) not in allowed]
        k2 = 'WINSERT|callers|%s' % b.name
        if extra:
            obs.append(bad('WINSERT', k2, 'registry writer %s is called from %s (only register_* and the built-in fillers may write)' % (b.name, extra), b.where(), body=b.name))
        else:
            obs.append(ok('WINSERT', k2, 'registry writer %s is called only from register_*, the built-in fillers and other writers' % b.name, b.where()))
    for bid, calls in sorted(getattr(rm, 'unreg', {}).items()):
        b = prog.by_id[bid]
        obs.append(ok('WINSERT', 'WINSERT|unregister|%s' % b.name, '%s only removes an entry and is reachable from no existing entry point, the evaluator, the renderers or the fillers: an explicit un-registration API' % b.name, b.where()))
    obs.append(floor('WINSERT', 'leaf-writers', len(rm.leaf), 1, 'some body inserts into the registries'))
    # public register_* pass their parameters straight through, in order, to one writer
    for n in REGISTER_API:
        e = prog.api(n)
        if not e:
            continue
        key = 'WINSERT|passthrough|%s' % n
        ws = [c for c in e.live_calls if c.ruid in rm.family]
        if len(ws) != 1:
            # the writer may be called from a closure handed to a private helper (`with_builtins(|| ..register(..))`)
            ev = prog.view(e, keep=lambda g: g.is_pub or g.id in rm.family, tag='api')
            if ev is not e and len([c for c in ev.live_calls if c.ruid in rm.family]) == 1:
                e = ev
                ws = [c for c in e.live_calls if c.ruid in rm.family]
        if len(ws) != 1:
            obs.append(bad('WINSERT', key, '%s calls %d registry writers (expected 1)' % (n, len(ws)), e.where(), body=e.name))
            continue
        c = ws[0]
        params = []
        okk = True
        for a in c.args[1:]:
            o = single_origin(trace_operand(e, a, through_calls=THROUGH))
            if o is None or o.kind != 'param' or o.proj:
                okk = False
                break
            params.append(o.data)
        if okk and params == list(range(1, e.arg_count + 1)):
            obs.append(ok('WINSERT', key, '%s hands its %d parameters to the writer unchanged and in order' % (n, len(params)), c.where()))
        else:
            obs.append(bad('WINSERT', key, '%s does not pass its parameters to the registry writer unchanged and in order (got %s)' % (n, params), c.where(), body=e.name))
    return obs


def rule_wdisp(rm, em):
    """call node: context function first, global registry only when the context has none; the
    context lookup answers for Function entries only"""
    prog = rm.prog
    obs = []
    import r_order
    bodies = []
    for b in em.bodies:
        for c in em.child_sites(b):
            p = em.child_prov(c)
            if p is not None and r_order.prov_root(p) and r_order.prov_root(p)[0] == 'Function':
                bodies.append(b)
                break
    if not bodies:
        return [bad('WDISP', 'WDISP|anchor', 'anchor lost: no body evaluates the arguments of a Function node')]
    for b in bodies:
        key = 'WDISP|%s' % b.name
        # context lookups: local calls whose first argument is the context parameter and whose result is an Option
        lookups = []
        for c in b.live_calls:
            if c.ruid and c.term['arg_tys'] and 'context::Context' in c.term['arg_tys'][0] and c.term['dest']['ty'].startswith('std::option::Option<') \
                    and 'dyn std::ops::Fn' in c.term['dest']['ty']:
                lookups.append(c)
        # in the dispatching body itself only the region handling the Function variant counts
        entry = r_order._arm_entry(em, b, 'Function')
        region = b.reachable_from(entry) if entry else set(b.live_blocks)
        lookups = [c for c in lookups if c.bb in region]
        globals_ = [c for c in b.live_calls if any(t in rm.reach_reg_lock for t in ([c.ruid] if c.ruid else []))
                    and c.ruid not in rm.must_init and c.ruid not in em.eval_ids and c.bb in region]
        if not lookups:
            # the dispatch proper may sit in a private helper shared by several call forms (`call_function(name, params, ctx)`
            # used by `f(x)` and by `x |> f()`): judged there
            def _lookups_in(g):
                return [c for c in g.live_calls if c.ruid and c.term['arg_tys'] and 'context::Context' in c.term['arg_tys'][0]
                        and c.term['dest']['ty'].startswith('std::option::Option<') and 'dyn std::ops::Fn' in c.term['dest']['ty']]
            cands = {}
            for c in b.live_calls:
                g = prog.by_id.get(c.ruid) if c.ruid and c.bb in region and c.ruid not in em.eval_ids else None
                if g is not None and not g.is_closure and not g.j.get('reachable', g.is_pub) and _lookups_in(g):
                    cands[g.id] = g
            if len(cands) == 1:
                b = next(iter(cands.values()))
                region = set(b.live_blocks)
                lookups = _lookups_in(b)
                globals_ = [c for c in b.live_calls if any(t in rm.reach_reg_lock for t in ([c.ruid] if c.ruid else []))
                            and c.ruid not in rm.must_init and c.ruid not in em.eval_ids]
        if len(lookups) != 1:
            obs.append(bad('WDISP', key, 'expected exactly one context-function lookup in %s, found %d' % (b.name, len(lookups)), b.where(), body=b.name))
            continue
        lk = lookups[0]
        # None edge
        none_t = some_t = None
        du = defuse(b)
        for bb in sorted(b.live_blocks):
            t = b.blocks[bb]['term']
            if t['k'] != 'switch':
                continue
            l = op_local(t['discr'])
            defs = du.defs.get(l, []) if l is not None else []
            if len(defs) == 1 and defs[0][2] == 'assign' and defs[0][3]['k'] == 'discr' and defs[0][3]['pl']['l'] == lk.dest['l']:
                for v, tb in t['targets']:
                    if v == 0:
                        none_t = (bb, tb)
                    if v == 1:
                        some_t = (bb, tb)
                # `if let Some(f) = ..` / `let Some(f) = .. else`: only one variant is listed, the other is `otherwise`
                listed = [v for v, _ in t['targets']]
                if listed == [1] and none_t is None:
                    none_t = (bb, t['otherwise'])
                if listed == [0] and some_t is None:
                    some_t = (bb, t['otherwise'])
        from r_panic import edge_dominates
        problems = []
        if none_t is None:
            problems.append('the result of the context lookup is not matched on')
        else:
            for g in globals_:
                if not edge_dominates(b, none_t[0], none_t[1], g.bb):
                    problems.append('the global lookup (%s, bb%d) is not confined to the "context has no such function" edge' % (g.rdef, g.bb))
            if not globals_:
                problems.append('no global-registry fallback')
            # handler call on the Some edge uses the context function
            hs = [h for h in em.handler_sites(b) if h.bb in region]
            ctxh = [h for h in hs if some_t and edge_dominates(b, some_t[0], some_t[1], h.bb)]
            joined = False
            if not ctxh and some_t:
                # `let handler = match ctx.get_func(name) { Some(f) => f, None => registry.get(name)? }; handler(args)`:
                # one call after the join; the callee is the context's function when it came over the Some edge and the
                # registered one when it came over the None edge
                for h in hs:
                    os_ = list(trace_operand(b, h.args[0], through_calls=set(TRANSPARENT_CALLS)))
                    from_ctx = [o for o in os_ if o.kind == 'callres' and o.data.bb == lk.bb]
                    from_reg = [o for o in os_ if o.kind == 'callres' and any(o.data.bb == g.bb for g in globals_)]
                    if os_ and len(from_ctx) + len(from_reg) == len(os_) and from_ctx and from_reg \
                            and all(edge_dominates(b, none_t[0], none_t[1], o.data.bb) for o in from_reg):
                        joined = True
            if not ctxh and not joined:
                problems.append('no handler call on the "context has the function" edge')
            for h in ctxh:
                o = single_origin(trace_operand(b, h.args[0], through_calls=set(TRANSPARENT_CALLS)))
                if o is None or o.kind != 'callres' or o.data.bb != lk.bb:
                    problems.append('the handler invoked on the context edge is not the one the context returned')
            # the lookup dominates every handler call / global lookup
            for x in hs + globals_:
                if not b.dominates(lk.bb, x.bb):
                    problems.append('bb%d is not preceded by the context lookup' % x.bb)
        # the lookup body answers Some only for the Function variant
        g = prog.by_id.get(lk.ruid)
        if g is not None:
            for bb, i, pl, rv in g.assigns():
                if pl['l'] == 0 and not pl['p'] and rv['k'] == 'agg' and rv.get('variant') == 'Some':
                    o = trace_operand(g, rv['ops'][0], through_calls=THROUGH)
                    so = single_origin(o)
                    if so is None or ('dc', 'Function') not in so.proj:
                        problems.append('%s returns Some for something other than a Function entry' % g.name)
        if problems:
            obs.append(bad('WDISP', key, '; '.join(sorted(set(problems))), lk.where(), body=b.name))
        else:
            obs.append(ok('WDISP', key, 'context function first (Function entries only), global registry only on the None edge, lookup precedes both', lk.where()))
    return obs


def rule_handler_must(rm, em):
    """an operator / call node is evaluated *by its registered handler*: in the evaluator region for Unary, Binary,
    Postfix and Function nodes no success return avoids the handler invocation (a fast path that answers from a built-in
    truth table, `false && x`, bypasses whatever was registered under that name last)"""
    import r_order, r_errd
    prog = rm.prog
    obs = []
    # bodies (below the evaluator) that run a handler and hand its Result back
    carriers = set()
    for i in em.reach:
        g = prog.by_id.get(i)
        if g is not None and i not in em.eval_ids and not g.is_closure and r_errd.is_crate_result(g.locals[0]['ty']) and (em.handler_sites(g) or any(em.handler_sites(cl) for cl in prog.f.closures_of(g))):
            carriers.add(i)
    n = 0
    for b in em.bodies:
        sites = em.child_sites(b)
        kinds = set()
        for c in sites:
            p = em.child_prov(c)
            r = r_order.prov_root(p) if p else None
            if r and r[0] in ('Unary', 'Binary', 'Postfix', 'Function'):
                kinds.add(r[0])
        if getattr(b, 'orig_id', b.id) == em.root.id:
            kinds |= {'Function'}          # a call without arguments has no child site
        hb = {h.bb for h in em.handler_sites(b)} | {c.bb for c in b.live_calls if c.ruid in carriers}
        for kind in sorted(kinds):
            entry = r_order._arm_entry(em, b, kind)
            if entry == 0 and getattr(b, 'orig_id', b.id) == em.root.id:
                continue
            if getattr(b, 'orig_id', b.id) != em.root.id and len(kinds) > 1:
                continue          # a helper shared by several node kinds: read per kind only in the dispatching body
            region = b.reachable_from(entry)
            hbr = hb & region
            key = 'HMUST|%s|%s' % (b.name, kind)
            n += 1
            if not hbr:
                # the arm only forwards to another evaluator body (the dispatching `exec`): decided there
                if any(c.ruid in em.eval_ids and c.bb in region for c in b.live_calls):
                    obs.append(ok('HMUST', key, '%s nodes are forwarded to another evaluator body' % kind, b.where(entry)))
                else:
                    obs.append(bad('HMUST', key, '%s nodes are evaluated without invoking any registered handler' % kind, b.where(entry), body=b.name, bb=entry))
                continue
            fwd = {c.bb for c in b.live_calls if c.ruid in em.eval_ids and c.dest['l'] == 0 and not c.dest['p'] and c.bb in region}
            if r_order._ok_return_reachable(b, entry, hbr | fwd):
                obs.append(bad('HMUST', key, 'a %s node can be evaluated successfully without invoking the handler registered for its name: a built-in answer bypasses a re-registered operator / function' % kind, b.where(entry), body=b.name, bb=entry))
            else:
                obs.append(ok('HMUST', key, 'every success return of the %s evaluation passes the invocation of the looked-up handler' % kind, b.where(entry)))
    obs.append(floor('HMUST', 'handler-regions', n, 3, 'unary, binary, postfix operators and calls are evaluated somewhere'))
    return obs


def rule_receivers(rm, em):
    """no cached handler: every handler invoked by the evaluator comes from a lookup made in this
    evaluation (result of a local call that reaches a lock), never from a static or an AST field"""
    prog = rm.prog
    obs = []
    k = 0
    for b0 in em.bodies:
        for h0 in em.handler_sites(b0):
            b, h = b0, h0
            origins = trace_operand(b, h.args[0], through_calls=set(TRANSPARENT_CALLS) | {'std::clone::Clone::clone'})
            if b.is_closure and not getattr(b, 'is_view', False) and any(o.kind == 'param' and o.data >= 2 for o in origins):
                # the handler is a parameter of a closure (`registry.get(name).and_then(|func| func(params))`): read the
                # enclosing body with the std combinator that runs the closure opened
                parent = prog.by_id.get(b.j.get('parent'))
                pv = prog.view(parent, keep=lambda g: True, tag='comb') if parent is not None and not parent.is_closure else None
                if pv is not None and pv is not parent and b.name in (pv.j.get('inlined') or []):
                    bo = pv.j.get('block_origin') or {}
                    sites = [int(nb) for nb, org in bo.items() if tuple(org) == (b.id, h.bb) and pv.blocks[int(nb)]['term']['k'] == 'call']
                    if len(sites) == 1 and pv.call_at(sites[0]) is not None:
                        b, h = pv, pv.call_at(sites[0])
                        origins = trace_operand(b, h.args[0], through_calls=set(TRANSPARENT_CALLS) | {'std::clone::Clone::clone'})
            key = 'RECV|%s|#%d' % (b0.name, k)
            k += 1
            bad_o = []
            for o in origins:
                if o.kind == 'callres' and o.data.ruid and (o.data.ruid in rm.lm.can_lock):
                    w = _own_name_lookup(rm, em, b, o.data)
                    if w:
                        bad_o.append(w)
                    continue
                if o.kind == 'callres' and hm_method(o.data) in ('get', 'get_key_value') and reg_class_of_call(o.data) in ('REGISTRY', 'CONTEXT'):
                    continue
                if o.kind == 'param' and b.id not in em.eval_ids and _param_from_lookup(rm, em, b, o):
                    continue
                bad_o.append(repr(o))
            if bad_o:
                obs.append(bad('RECV', key, 'handler receiver does not come from a registry / context lookup made during this evaluation: %s' % bad_o, h.where(), body=b.name, bb=h.bb))
            else:
                obs.append(ok('RECV', key, 'handler receiver is the result of a lookup call in this evaluation', h.where()))
    return obs


def _own_name_lookup(rm, em, b, c):
    """the registry lookup a handler comes from is made under the node's own operator / function name: the callee is a
    keyed reader (hands its &str key unchanged to the locking body; every other registry read it makes uses that key
    too) and the key argument is the name field of the evaluated node.  Returns a complaint or None."""
    prog = rm.prog
    g = prog.by_id.get(c.ruid)
    if g is None or g.id not in rm.reach_reg_lock and g.id not in rm.reg_lockers:
        return None              # a context lookup: WDISP's subject
    keyed = keyed_readers(rm)
    strs = [k for k in range(1, g.arg_count + 1) if _is_str_ty(g.locals[k]['ty'])]
    if not strs:
        return None              # no name handed in: nothing to compare (a getter on a record already read)
    if g.id not in keyed:
        return 'the handler comes from %s, which does not look its name parameter up unchanged (the registry is read under a derived name: the handler registered for the name in the expression is not the one invoked)' % g.name
    # every registry read below g uses the key
    for c2 in g.live_calls:
        if c2.ruid in keyed and keyed[c2.ruid] - 1 < len(c2.args):
            o = single_origin(trace_operand(g, c2.args[keyed[c2.ruid] - 1], through_calls=THROUGH))
            if not (o is not None and o.kind == 'param' and not o.proj and o.data == keyed[g.id]):
                return '%s also reads the registry under another name than the one it was given' % g.name
    k = keyed[g.id] - 1
    if k >= len(c.args):
        return None
    p = em.prov_of_operand(b, c.args[k])
    import r_order
    root = r_order.prov_root(p) if p is not None else None
    if root is None:
        if getattr(b, 'orig_id', b.id) not in em.eval_ids:
            return None          # a helper below the evaluator: the name is what its caller handed it
        return 'the registry is not read under the name stored in the node (%s)' % r_order.prov_str(p)
    return None


def _param_from_lookup(rm, em, b, o):
    for caller_id in rm.prog.callers.get(b.id, ()):
        for c in rm.prog.edge_sites.get((caller_id, b.id), []):
            k = o.data - 1
            if k >= len(c.args):
                return False
            oo = trace_operand(c.body, c.args[k], through_calls=set(TRANSPARENT_CALLS) | {'std::clone::Clone::clone'})
            for x in oo:
                if not (x.kind == 'callres' and x.data.ruid in rm.lm.can_lock):
                    return False
    return True


def rule_reg_snapshot(rm):
    """registry contents are read where they are used, never copied into a longer-lived engine structure: no struct /
    enum of this crate is built from a value returned by a body that holds a registry lock (or by a forwarder of one) (a per-parser / per-context copy
    goes stale when a registration happens in between, and mixes with live reads made elsewhere)"""
    prog = rm.prog
    obs = []
    n = 0
    # readers: bodies that hold a registry guard themselves, and bodies that return such a body's result unchanged
    readers = set(rm.reg_lockers)
    changed = True
    while changed:
        changed = False
        for g in prog.bodies:
            if g.id in readers or g.derived:
                continue
            os_ = trace_local(g, 0, (), through_calls=THROUGH)
            if os_ and all(o.kind == 'callres' and o.data.ruid in readers for o in os_):
                readers.add(g.id)
                changed = True
    for b in prog.bodies:
        if b.derived:
            continue
        for bb, i, pl, rv in b.assigns():
            if rv['k'] != 'agg' or rv.get('agg') != 'adt':
                continue
            adt = rv.get('adt') or ''
            if adt.startswith(('std::', 'core::', 'alloc::')) or adt not in prog.f.adt_by_name:
                continue
            for k, x in enumerate(rv['ops']):
                for o in trace_operand(b, x, through_calls=THROUGH):
                    if o.kind != 'callres' or o.data.ruid is None or o.data.ruid not in readers:
                        continue
                    g = prog.by_id[o.data.ruid]
                    ty = o.data.term['dest']['ty']
                    if ty in ('bool', '()') or ty.startswith('std::result::Result<(),'):
                        continue
                    if o.data.ruid in rm.must_init and ty in ('()',):
                        continue
                    n += 1
                    obs.append(bad('REG-SNAPSHOT', 'REG-SNAPSHOT|%s|%s.%d' % (b.name, adt, k),
                                   '%s stores a value read from a registry (%s) in field %d of %s: the copy does not see later registrations, so one parse / evaluation can combine a stale and a live view of the operator table' % (b.name, g.name, k, adt),
                                   b.where(bb), body=b.name, bb=bb))
    if n == 0:
        obs.append(ok('REG-SNAPSHOT', 'REG-SNAPSHOT|none', 'no struct of the crate is built from a registry read: every use of the operator / function tables reads them live'))
    return obs


def _derives(b, op, bbs, depth=0):
    """does the operand (through moves, `?`, aggregates, arithmetic, discriminant reads) derive from the result of a
    call made in one of the blocks `bbs`"""
    if depth > 6:
        return False
    for o in trace_operand(b, op, through_calls=THROUGH):
        if o.kind == 'callres':
            if o.data.bb in bbs:
                return True
            if (o.data.callee or '') in THROUGH or (o.data.callee or '').startswith(('std::ops::Try::', 'std::ops::FromResidual::')):
                if any(_derives(b, a, bbs, depth + 1) for a in o.data.args):
                    return True
        elif o.kind == 'agg':
            if any(_derives(b, x, bbs, depth + 1) for x in o.data[2]['ops']):
                return True
        elif o.kind == 'binop':
            if _derives(b, o.data[2]['a'], bbs, depth + 1) or _derives(b, o.data[2]['b'], bbs, depth + 1):
                return True
        elif o.kind in ('unop', 'cast'):
            x = o.data[2].get('a') or o.data[2].get('op')
            if x is not None and _derives(b, x, bbs, depth + 1):
                return True
        elif o.kind == 'discr':
            if _derives(b, {'k': 'copy', 'pl': o.data[2]['pl']}, bbs, depth + 1):
                return True
    return False


def _same_decision(b, c1, c2):
    """the two reads belong to one decision: what one returned selects whether / how the other's result is used
    (control dependence), or both results end up in one value (the return value, one call's arguments)"""
    from r_panic import edge_dominates, switch_edges
    for x, y in ((c1, c2), (c2, c1)):
        for sb in sorted(b.live_blocks):
            t = b.blocks[sb]['term']
            if t['k'] != 'switch' or not _derives(b, t['discr'], {x.bb}):
                continue
            if any(edge_dominates(b, sb, tb, y.bb) for v, tb in switch_edges(b, sb)):
                return True
            # ... or the use of y's result sits under that switch
            for v, tb in switch_edges(b, sb):
                region = b.reachable_from(tb)
                for c in b.live_calls:
                    if c.bb in region and edge_dominates(b, sb, tb, c.bb) and (c.is_indirect or c.is_virtual) and \
                            (_derives(b, c.term['func'], {y.bb}) if c.is_indirect else any(_derives(b, a, {y.bb}) for a in c.args[:1])):
                        return True
    ret = {'k': 'copy', 'pl': {'l': 0, 'p': [], 'ty': b.locals[0]['ty']}}
    if _derives(b, ret, {c1.bb}) and _derives(b, ret, {c2.bb}):
        return True
    for c in b.live_calls:
        if c.bb in (c1.bb, c2.bb):
            continue
        if any(_derives(b, a, {c1.bb}) for a in c.args) and any(_derives(b, a, {c2.bb}) for a in c.args):
            return True
    return False


def _is_str_ty(ty):
    return bool(re.match(r"^&('\w+ )?(str|std::string::String)$", ty))


def keyed_readers(rm):
    """keyed readers: bodies that take a &str key and (transitively) hand it, unchanged, to a body that locks a
    registry.  body id -> parameter index of the key"""
    if getattr(rm, '_keyed', None) is not None:
        return rm._keyed
    prog = rm.prog
    keyed = {}
    for g in prog.bodies:
        if g.id in rm.reg_lockers and not g.is_closure:
            ks = [k for k in range(1, g.arg_count + 1) if _is_str_ty(g.locals[k]['ty'])]
            if len(ks) == 1:
                keyed[g.id] = ks[0]
    changed = True
    while changed:
        changed = False
        for g in prog.bodies:
            if g.id in keyed or g.derived or g.is_closure or g.id in rm.family or g.id in rm.fillers:
                continue
            for c in g.live_calls:
                if c.ruid in keyed and keyed[c.ruid] - 1 < len(c.args):
                    o = single_origin(trace_operand(g, c.args[keyed[c.ruid] - 1], through_calls=THROUGH))
                    if o is not None and o.kind == 'param' and not o.proj and _is_str_ty(g.locals[o.data]['ty']):
                        keyed[g.id] = o.data
                        changed = True
                        break
    rm._keyed = keyed
    return keyed


def rule_reg_record(rm):
    """one decision, one lookup: a body that needs several fields of the record registered under one name (an infix
    operator's type *and* its handler, its precedence *and* its associativity) reads them in ONE lock acquisition.
    Two keyed reads of the same registry with the same key in one body can straddle a re-registration: the body then
    acts on a record that was never registered (type of the old registration, handler of the new one)."""
    import r_parse, r_misc
    prog = rm.prog
    obs = []
    reg_statics = {st['id'] for st in prog.f.statics if r_misc.classify_static(st) == 'REGISTRY'}
    keyed = keyed_readers(rm)
    stat_of = {}
    def statics(uid):
        # which registry a keyed reader reads: the registry statics it reaches, or (a method on a manager that was
        # built by the caller) the manager type of its receiver
        if uid not in stat_of:
            st = r_parse._statics_reached(prog, uid) & reg_statics
            g = prog.by_id[uid]
            if not st and g.arg_count >= 1 and keyed.get(uid) != 1:
                st = {'recv:' + re.sub(r"^&(mut )?", '', g.locals[1]['ty'])}
            stat_of[uid] = st
        return stat_of[uid]
    n = 0
    for b in prog.bodies:
        if b.derived or b.id in rm.reg_lockers:
            continue
        reads = []
        for c in b.live_calls:
            if c.ruid not in keyed or keyed[c.ruid] - 1 >= len(c.args):
                continue
            ty = c.term['dest']['ty']
            if ty in ('bool', '()'):
                continue       # a membership test; the record itself is read elsewhere
            o = single_origin(trace_operand(b, c.args[keyed[c.ruid] - 1], through_calls=THROUGH))
            if o is None or o.kind == 'const':
                continue
            reads.append((c, (o.kind, o.key()[1], o.proj)))
        for i, (c1, k1) in enumerate(reads):
            for c2, k2 in reads[i + 1:]:
                if k1 != k2 or c1.bb == c2.bb:
                    continue
                if not (statics(c1.ruid) & statics(c2.ruid)):
                    continue
                if c2.bb not in b.reachable_after(c1.bb) and c1.bb not in b.reachable_after(c2.bb):
                    continue
                if not _same_decision(b, c1, c2):
                    continue       # two independent questions about the same name (each answered by one read)
                n += 1
                g1, g2 = prog.by_id[c1.ruid].name.split('::')[-1], prog.by_id[c2.ruid].name.split('::')[-1]
                obs.append(bad('REG-RECORD', 'REG-RECORD|%s|%s+%s' % (b.name, g1, g2),
                               '%s reads the record registered under one name in two separate lock acquisitions (%s at %s, %s at %s): a re-registration in between makes it act on a combination that was never registered'
                               % (b.name.split('::')[-1], g1, c1.where(), g2, c2.where()), c1.where(), body=b.name, bb=c1.bb))
    # check-then-act: a membership / record read of a name and, depending on its outcome, a write of the same name in a
    # second acquisition (`if self.exist(&name) { return; } self.register(&name, ..)`): a registration made by another
    # thread in between is overwritten (or the check is stale) — the decision and the write must share one acquisition
    from r_panic import bool_source, edge_dominates, switch_edges
    for b in prog.bodies:
        if b.derived or b.id in rm.reg_lockers or b.is_closure:
            continue
        rds = []
        for c in b.live_calls:
            if c.ruid in keyed and keyed[c.ruid] - 1 < len(c.args):
                o = trace_operand(b, c.args[keyed[c.ruid] - 1], through_calls=THROUGH)
                rds.append((c, {(x.kind, x.key()[1], x.proj) for x in o}))
        wrs = [c for c in b.live_calls if c.ruid in rm.family and len(c.args) >= 2]
        for c1, k1 in rds:
            for c2 in wrs:
                if c2.bb == c1.bb or c2.bb not in b.reachable_after(c1.bb):
                    continue
                k2 = {(x.kind, x.key()[1], x.proj) for x in trace_operand(b, c2.args[1], through_calls=THROUGH)}
                if not k1 or k1 != k2 or not (statics(c1.ruid) & (r_parse._statics_reached(prog, c2.ruid) & reg_statics or {'recv:' + re.sub(r"^&(mut )?", '', prog.by_id[c2.ruid].locals[1]['ty'])})):
                    continue
                # the write is control-dependent on the outcome of the read
                dep = False
                for sb in sorted(b.live_blocks):
                    t = b.blocks[sb]['term']
                    if t['k'] != 'switch':
                        continue
                    src = bool_source(b, t['discr'])
                    so = None
                    if src is not None and src[0].bb == c1.bb:
                        so = True
                    else:
                        do = single_origin(trace_operand(b, t['discr'], through_calls=set()))
                        if do is not None and do.kind == 'discr':
                            oo = single_origin(trace_local(b, do.data[2]['pl']['l'], (), through_calls=set(TRANSPARENT_CALLS)))
                            if oo is not None and oo.kind == 'callres' and oo.data.bb == c1.bb:
                                so = True
                    if so and any(edge_dominates(b, sb, tb, c2.bb) for v, tb in switch_edges(b, sb)) and not all(edge_dominates(b, sb, tb, c2.bb) for v, tb in switch_edges(b, sb) if b.blocks[tb]['term']['k'] != 'unreachable'):
                        dep = True
                if dep:
                    n += 1
                    g1, g2 = prog.by_id[c1.ruid].name.split('::')[-1], prog.by_id[c2.ruid].name.split('::')[-1]
                    obs.append(bad('REG-RECORD', 'REG-RECORD|%s|check-then-act:%s+%s' % (b.name, g1, g2),
                                   '%s decides on %s (%s) and then writes the same name with %s (%s) in a second lock acquisition: a registration made in between by another thread is lost / the check is stale'
                                   % (b.name.split('::')[-1], g1, c1.where(), g2, c2.where()), c1.where(), body=b.name, bb=c1.bb))
    if n == 0:
        obs.append(ok('REG-RECORD', 'REG-RECORD|none', 'no body reads two parts of one registry record in separate acquisitions, or checks a name and then writes it in a second one (%d keyed readers)' % len(keyed)))
    obs.append(floor('REG-RECORD', 'keyed-readers', len(keyed), 4, 'lookups by name into the four registries'))
    return obs
