"""Program-level normal form: private *locking helpers that take a closure* are read as if written out at their callers.

    fn with_store<R>(&self, f: impl FnOnce(&mut HashMap<..>) -> R) -> R { let mut g = self.store.lock().unwrap(); f(&mut g) }
    fn register(&self, op: &str, h: ..) { self.with_store(|store| { store.insert(op.to_string(), h); }); }

is the program `fn register(..) { let mut g = self.store.lock().unwrap(); g.insert(op.to_string(), h); }`: the helper adds no
behaviour (it cannot be named from outside the crate, so the closures it runs are exactly the ones its callers build).
Every model of the engine (registry writers / readers, fillers, keyed readers, lock regions, the context writer chain) is
stated over bodies that lock and then touch the map; they read the normal form.  What is rewritten, in the fact JSON,
before the Program the rules see is built:

  * every body that calls such a helper directly: the helper's blocks and the blocks of the closure built for that
    call are copied in (inline.Inliner, `minimal`: nothing else about the body changes);
  * the helper bodies and the closures that were opened are dropped (nothing calls them any more).

A helper qualifies only if (1) it is not a closure and cannot be named from outside the crate, (2) it acquires a lock,
(3) it calls one of its own generic `Fn*` parameters, and (4) *every* call site of that parameter resolves to closures
of this crate (Program._resolve_generic_fn_params) — otherwise it is left alone and the call stays a callback under a
lock, which LOCK-a reports.  On the pinned tree nothing qualifies and the facts are returned unchanged.
"""
import copy


def lock_ho_helpers(prog):
    out = {}
    for g in prog.bodies:
        if g.is_closure or g.derived or prog._publicly_reachable(g):
            continue
        if not any(prog.is_lock_call(c) for c in g.live_calls):
            continue
        sites = [c for c in g.live_calls if (g.id, c.bb) in prog.generic_cb_targets]
        if not sites or any((g.id, c.bb) in prog.generic_callbacks for c in g.live_calls):
            continue
        out[g.id] = g
    return out


def leaf_helpers(prog):
    """tiny data-only bodies that cannot be named from outside the crate: no call, no branch, at most one overflow
    check (`Span::new(start, len) -> Span(start, start + len)`, `span.start()`); every use is a direct call.  Written
    out at their callers they are a field read / an aggregate / one addition, which is what the boundary and span
    rules read.  Trait impls (`From::from`), derived code and predicates (they branch) are not touched."""
    out = {}
    escaped = set(getattr(prog, 'fnitem_escapes', {}) or {})
    for g in prog.bodies:
        if g.is_closure or g.derived or g.impl_trait or prog._publicly_reachable(g) or g.id in escaped:
            continue
        if g.live_calls or g.n > 3 or g.arg_count < 1 or not prog.callers.get(g.id):
            continue
        if any(g.blocks[b]['term']['k'] in ('switch', 'call', 'drop') for b in g.live_blocks):
            continue
        if g.id in prog.callers.get(g.id, ()):
            continue
        out[g.id] = g
    return out


def _propagate_int_consts(j):
    """an argument bound to a literal at an opened call site (`Span::new(start, 1)` -> `_10 = 1_usize; .. Add(_13, copy _10)`)
    is the literal: locals with exactly one definition, a constant integer (or a copy of such a local), are replaced
    by the constant where they are read as plain operands"""
    ndef = {}
    cdef = {}
    for blk in j['blocks']:
        for st in blk['stmts']:
            if st['k'] == 'assign':
                l = st['pl']['l']
                ndef[l] = ndef.get(l, 0) + 1
                if not st['pl']['p'] and st['rv']['k'] == 'use':
                    cdef[l] = st['rv']['op']
            elif st['k'] == 'set_discr':
                ndef[st['pl']['l']] = ndef.get(st['pl']['l'], 0) + 2
        t = blk['term']
        if t['k'] == 'call':
            ndef[t['dest']['l']] = ndef.get(t['dest']['l'], 0) + 2
    nargs = j.get('arg_count', 0)
    def const_of(op, depth=0):
        if op['k'] == 'const':
            return op if 'int' in op and 'static' not in op else None
        if depth > 4 or op['k'] not in ('copy', 'move') or op['pl']['p']:
            return None
        l = op['pl']['l']
        if l <= nargs or ndef.get(l, 0) != 1 or l not in cdef:
            return None
        return const_of(cdef[l], depth + 1)
    def fix(op):
        if isinstance(op, dict) and op.get('k') in ('copy', 'move'):
            c = const_of(op)
            if c is not None:
                return dict(c)
        return op
    for blk in j['blocks']:
        for st in blk['stmts']:
            if st['k'] != 'assign':
                continue
            rv = st['rv']
            if rv['k'] == 'binop':
                rv['a'], rv['b'] = fix(rv['a']), fix(rv['b'])
            elif rv['k'] == 'agg':
                rv['ops'] = [fix(o) for o in rv['ops']]
        t = blk['term']
        if t['k'] == 'call':
            t['args'] = [fix(a) for a in t['args']]


def normalise(prog, facts_cls):
    """returns (new Facts, {helper name: [callers]}) or (None, {}) when nothing qualifies"""
    lock_helpers = lock_ho_helpers(prog)
    helpers = dict(lock_helpers)
    helpers.update(leaf_helpers(prog))
    if not helpers:
        return None, {}
    import inline
    inl = inline.Inliner(prog, keep=lambda g: g.id not in helpers, minimal=True)
    j = copy.deepcopy(prog.f.j)
    by_id = {b['id']: k for k, b in enumerate(j['bodies'])}
    opened = set()
    report = {}
    changed = True
    rounds = 0
    cur = prog
    for b in list(prog.bodies):
        if b.id in helpers or not any(c.ruid in helpers for c in b.live_calls):
            continue
        v = inl.view(b)
        ids = v.j.get('inlined_ids') or []
        if not any(i in helpers for i in ids):
            continue
        nj = v.j
        _propagate_int_consts(nj)
        nj['id'] = b.id
        nj['opened_helpers'] = [prog.by_id[i].name for i in ids if i in helpers]
        j['bodies'][by_id[b.id]] = nj
        opened |= {i for i in ids if i not in helpers}
        for i in ids:
            if i in helpers:
                report.setdefault(prog.by_id[i].name, []).append(b.name)
    if not report:
        return None, {}
    # a helper all of whose callers were opened is dead; so are the closures that were copied in
    still_called = set()
    for bj in j['bodies']:
        for blk in bj['blocks']:
            t = blk['term']
            if t['k'] == 'call' and isinstance(t.get('func'), dict) and t['func'].get('fn'):
                r = t['func']['fn'].get('resolved') or {}
                if r.get('uid'):
                    still_called.add(r['uid'])
    drop = {h for h in helpers if h not in still_called}
    if any(h not in drop for h in lock_helpers):
        return None, {}          # a call site this reading could not open (through a fn pointer, ..): leave the program as written
    drop |= {i for i in opened if prog.by_id[i].is_closure}
    keep_bodies = []
    for bj in j['bodies']:
        if bj['id'] in drop:
            continue
        if bj.get('parent') in drop:
            # a closure nested in an opened closure now lives where that one was opened
            p = bj['parent']
            while p in drop and p in prog.by_id and prog.by_id[p].j.get('parent'):
                p = prog.by_id[p].j['parent']
            bj['parent'] = p
        keep_bodies.append(bj)
    j['bodies'] = keep_bodies
    nf = facts_cls(None, j=j, like=prog.f)
    return nf, report
