"""WCTX (C06): assignments write the context exactly once, after everything else, with the
handler's result, under the left operand's name; statement chain; unbound names read None."""
import re
from facts import op_local, op_place, Call
from analysis import (defuse, trace_operand, trace_local, single_origin, TRANSPARENT_CALLS, TRY_BRANCH)
from engine import ok, bad, assumed, floor
import r_order, r_errd
from r_panic import edge_dominates, switch_edges

THROUGH = set(TRANSPARENT_CALLS) | {'std::string::ToString::to_string', 'std::clone::Clone::clone', 'std::borrow::ToOwned::to_owned',
                                    'std::convert::Into::into', 'std::convert::From::from'}
VALUE = 'value::Value'


def _is_value_none(body, op):
    o = single_origin(trace_operand(body, op, through_calls=set()))
    return o is not None and o.kind == 'agg' and o.data[2].get('adt') == VALUE and o.data[2].get('variant') == 'None'


def _setter_edges(b, bb, setter_idx, n_variants):
    """edges of the switch on the operator type taken exactly for SETTER: its listed arm, or `otherwise` when every
    other variant is listed (`if matches!(ty, InfixOpType::CALC) { return .. }` leaves SETTER to the fall-through)"""
    t = b.blocks[bb]['term']
    listed = [v for v, _ in t['targets']]
    out = [(v, tb) for v, tb in t['targets'] if v == setter_idx]
    if not out and setter_idx not in listed and sorted(listed) == [i for i in range(n_variants) if i != setter_idx]:
        out = [('otherwise', t['otherwise'])]
    return out


def rule_wctx(prog, em):
    obs = []
    writers = [(b, c) for b in em.bodies for c in em.ctx_writes(b) if em.child_sites(b) or em.handler_sites(b)]
    obs.append(floor('WCTX', 'context-write-sites', len(writers), 1, 'assignment must write the context somewhere in the evaluator'))
    optype = prog.f.adt_by_name.get('operator::InfixOpType')
    setter_idx = None
    if optype:
        names = [v['name'] for v in optype['variants']]
        if 'SETTER' in names:
            setter_idx = names.index('SETTER')
    if setter_idx is None:
        obs.append(bad('WCTX', 'WCTX|optype', 'anchor lost: public enum InfixOpType with variant SETTER not found'))
        return obs
    per_body = {}
    body_of = {}
    for b, w in writers:
        per_body.setdefault(b.id, []).append(w)
        body_of[b.id] = b
    for bid, ws in per_body.items():
        b = body_of[bid]
        key = 'WCTX|%s' % b.name
        problems = []
        if len(ws) != 1:
            problems.append('%d context writes in one evaluator body (exactly one per assignment expected)' % len(ws))
        w = ws[0]
        # (1) SETTER edge
        sedge = None
        for bb in sorted(b.live_blocks):
            t = b.blocks[bb]['term']
            if t['k'] != 'switch':
                continue
            o = single_origin(trace_operand(b, t['discr'], through_calls=set()))
            if o is None:
                # discriminant(local) form
                l = op_local(t['discr'])
                defs = defuse(b).defs.get(l, []) if l is not None else []
                if len(defs) == 1 and defs[0][2] == 'assign' and defs[0][3]['k'] == 'discr':
                    o = _optype_source(b, defs[0][3]['pl'])
                    if o is not None:
                        for v, tb in _setter_edges(b, bb, setter_idx, len(names)):
                            sedge = (bb, tb, o.data)
            elif o.kind == 'discr':
                oo = _optype_source(b, o.data[2]['pl'])
                if oo is not None:
                    for v, tb in _setter_edges(b, bb, setter_idx, len(names)):
                        sedge = (bb, tb, oo.data)
        if sedge is None:
            problems.append('no switch on the operator type (CALC / SETTER) found')
        elif not edge_dominates(b, sedge[0], sedge[1], w.bb):
            problems.append('the context write is not confined to the SETTER edge of the operator-type switch')
        # (2) after both operands and the handler; value = handler result
        sites = em.child_sites(b)
        provs = {(r_order.prov_root(em.child_prov(c)) if em.child_prov(c) else None): c for c in sites}
        doms = [c for c in sites if b.dominates(c.bb, w.bb)]
        dom_roots = {r_order.prov_root(em.child_prov(c)) for c in doms if em.child_prov(c)}
        if not ({('Binary', 1), ('Binary', 2)} <= dom_roots):
            problems.append('the write is not preceded by the evaluation of both operands on every path (dominating sites: %s)' % sorted(x for x in dom_roots if x))
        else:
            # ... in the order of `x op e`: the target is read before the right side runs (a right side that re-binds x
            # must not be seen by the read)
            c1 = [c for c in doms if em.child_prov(c) and r_order.prov_root(em.child_prov(c)) == ('Binary', 1)]
            c2 = [c for c in doms if em.child_prov(c) and r_order.prov_root(em.child_prov(c)) == ('Binary', 2)]
            if not any(all(x.bb != y.bb and b.dominates(x.bb, y.bb) for y in c2) for x in c1):
                problems.append('the right side is evaluated before the target is read: `x op= e` then differs from `x op e` whenever e itself re-binds x')
        hs = [h for h in em.handler_sites(b) if b.dominates(h.bb, w.bb)]
        if not hs:
            problems.append('the write is not preceded by the handler call')
        vo = single_origin(trace_operand(b, w.args[2], through_calls=set())) if len(w.args) > 2 else None
        if vo is not None and vo.kind == 'agg' and vo.data[2].get('adt') == 'context::ContextValue' and vo.data[2].get('variant') == 'Variable' and not vo.proj:
            # written directly into the map: unwrap ContextValue::Variable(value)
            vo = single_origin(trace_operand(b, vo.data[2]['ops'][0], through_calls=set()))
        if not (vo is not None and vo.kind == 'callres' and any(vo.data.bb == h.bb for h in hs) and vo.proj == (('dc', 'Ok'), ('f', 0))):
            problems.append('the value written is not the ?-unwrapped result of the handler call (%r)' % vo)
        # handler operands are the two evaluated operands, in order
        for h in hs:
            tup = single_origin(trace_operand(b, h.args[1], through_calls=set()))
            if tup is not None and tup.kind == 'agg' and len(tup.data[2]['ops']) == 2:
                roots = []
                for e in tup.data[2]['ops']:
                    eo = single_origin(trace_operand(b, e, through_calls=set()))
                    r = None
                    if eo is not None and eo.kind == 'callres' and eo.data.ruid in em.eval_ids:
                        p = em.child_prov(eo.data)
                        r = r_order.prov_root(p) if p else None
                    roots.append(r)
                if roots != [('Binary', 1), ('Binary', 2)]:
                    problems.append('the handler is not applied to (value of left, value of right): %s' % roots)
        # (3) name = payload of Reference of the LEFT operand
        no = single_origin(trace_operand(b, w.args[1], through_calls=THROUGH)) if len(w.args) > 1 else None
        if no is not None and no.kind == 'callres' and no.data.ruid and no.proj == (('dc', 'Ok'), ('f', 0)):
            g = prog.by_id[no.data.ruid]
            recv = em.prov_of_operand(b, no.data.args[0])
            if recv is None or r_order.prov_root(recv) != ('Binary', 1):
                problems.append('the name written is not taken from the left operand')
            for bb, i, pl, rv in g.assigns():
                if pl['l'] == 0 and not pl['p'] and rv['k'] == 'agg' and rv.get('variant') == 'Ok':
                    so = single_origin(trace_operand(g, rv['ops'][0], through_calls=set(TRANSPARENT_CALLS)))
                    if not (so is not None and so.kind == 'param' and so.data == 1 and so.proj[:2] == (('dc', 'Reference'), ('f', 0))):
                        problems.append('%s can return Ok for a target that is not a plain Reference' % g.name)
            oks = [1 for bb, i, pl, rv in g.assigns() if pl['l'] == 0 and rv['k'] == 'agg' and rv.get('variant') == 'Ok']
            errs = [1 for bb, i, pl, rv in g.assigns() if pl['l'] == 0 and rv['k'] == 'agg' and rv.get('variant') == 'Err']
            if not oks or not errs:
                problems.append('%s does not distinguish a Reference target (Ok) from anything else (Err)' % g.name)
        else:
            problems.append('the name written is not the ?-unwrapped Reference name of the left operand (%r)' % no)
        # (4) after the write: only Ok(Value::None)
        after = b.reachable_after(w.bb)
        effs = {c.bb for k, c in r_order.effect_sites(em, b)}
        if after & effs:
            problems.append('something is evaluated / called / written after the context write')
        for bb in after:
            for st in b.blocks[bb]['stmts']:
                if st['k'] == 'assign' and st['pl']['l'] == 0 and not st['pl']['p']:
                    rv = st['rv']
                    if not (rv['k'] == 'agg' and rv.get('variant') == 'Ok' and _is_value_none(b, rv['ops'][0])):
                        problems.append('an assignment yields something other than None')
            t = b.blocks[bb]['term']
            if t['k'] == 'call' and t['dest']['l'] == 0:
                problems.append('an assignment yields the result of a call instead of None')
        if not any(b.blocks[bb]['term']['k'] == 'return' for bb in after):
            problems.append('no return after the write')
        # (5) must-pass-through on the SETTER branch's Ok paths; not in a loop
        if sedge is not None and r_order._ok_return_reachable(b, sedge[1], {w.bb}):
            problems.append('an Ok return of the SETTER branch is reachable without writing the context')
        if r_order.in_cycle(b, w.bb):
            problems.append('the write is inside a loop')
        if problems:
            obs.append(bad('WCTX', key, '; '.join(sorted(set(problems))), w.where(), body=b.name, bb=w.bb))
        else:
            obs.append(ok('WCTX', key, 'one context write, on the SETTER edge only, after both operands and the handler, value = handler result, name = Reference name of the left operand, followed only by Ok(None), on every Ok path', w.where()))
    return obs


def hm_method_name(c):
    m = re.match(r'^std::collections::HashMap::<K, V, S, A>::(\w+)$', c.callee or '')
    return m.group(1) if m else None


def _optype_source(b, pl):
    """the call whose result the discriminated operator type comes from: `get_op_type(op)?`, or the type field of the
    whole record read in one lookup (`let config = get(op)?; match config.1 { .. }`)"""
    o = single_origin(trace_local(b, pl['l'], ())) if not pl['p'] else None
    if o is not None and o.kind == 'callres' and 'operator::InfixOpType' in o.data.term['dest']['ty']:
        return o
    if (pl.get('ty') or '').endswith('operator::InfixOpType'):
        o = single_origin(trace_operand(b, {'k': 'copy', 'pl': pl}, through_calls=set()))
        if o is not None and o.kind == 'callres':
            return o
    return None


def rule_ctx_store(prog, em):
    """the context's writer chain stores name and value unchanged; Context::value reads None for an
    absent name and the stored value for a variable; references pass the node's own name"""
    obs = []
    cw = em.ctx_writers()
    from_exec = set(em.eval_ids)
    work = list(em.eval_ids)
    while work:
        x = work.pop()
        for y in prog.edges.get(x, ()):
            if y not in from_exec:
                from_exec.add(y); work.append(y)
    done_parents = set()
    for bid in sorted(em._cw_direct & cw):
        b = prog.by_id[bid]
        if b.is_closure and b.j.get('parent') in prog.by_id:
            # the insert sits in a closure handed to a private locking helper (`self.with_map_mut(|map| { map.insert(..); })`):
            # read in the enclosing body with that helper and the closure opened
            pb = prog.by_id[b.j['parent']]
            if pb.id in done_parents:
                continue
            def _ho(g):
                return not g.is_closure and not g.j.get('reachable', g.is_pub) and any(
                    re.search(r'Fn(Mut|Once)?\(', g.locals[k]['ty']) or 'closure@' in g.locals[k]['ty'] or re.match(r'^(&(mut )?)?[A-Z]\w{0,3}$', g.locals[k]['ty'])
                    for k in range(1, g.arg_count + 1))
            v = prog.view(pb, keep=lambda g: not _ho(g), tag='ctx-ho')
            if getattr(v, 'is_view', False) and b.name in (v.j.get('inlined') or []):
                done_parents.add(pb.id)
                b = v
                bid = pb.id
        ins = [c for c in b.live_calls if (c.callee or '').endswith('::insert') and 'context::ContextValue' in ' '.join(c.term['arg_tys'])]
        key = 'CTXSTORE|%s' % b.name
        others = [c for c in b.live_calls if re.match(r'^std::collections::HashMap::<K, V, S, A>::(remove|clear|entry|retain|extend|get_mut|drain)$', c.callee or '')]
        if bid not in from_exec and not (len(ins) == 1 and not others and b.reachable_from(0) and not any(b.blocks[x]['term']['k'] == 'return' for x in b.reachable_from(0, avoid={ins[0].bb})) ):
            # another public operation on the context (bulk `extend`, `remove`, `clear`): not the writer an assignment goes
            # through — no evaluation can reach it — so the clause "x = e binds x to the value of e" does not speak about it
            if any(hm_method_name(c) for c in b.live_calls):
                obs.append(ok('CTXSTORE', key, '%s mutates the context map but is not reachable from the evaluator: another operation of the context API' % b.name, b.where()))
                continue
        if not ins and others and bid not in from_exec:
            # an un-binding API (remove / clear): a different operation from the one the property speaks about, as long as
            # no evaluation can reach it
            obs.append(ok('CTXSTORE', key, '%s removes bindings and is not reachable from the evaluator' % b.name, b.where()))
            continue
        if len(ins) != 1 or others:
            obs.append(bad('CTXSTORE', key, '%s: expected exactly one insert on the context map' % b.name, b.where(), body=b.name))
            continue
        c = ins[0]
        ko = single_origin(trace_operand(b, c.args[1], through_calls=THROUGH))
        vo = single_origin(trace_operand(b, c.args[2], through_calls=set()))
        skip = b.reachable_from(0, avoid={c.bb})
        if c.bb != 0 and any(b.blocks[x]['term']['k'] == 'return' for x in skip):
            obs.append(bad('CTXSTORE', key, '%s can return without inserting: a binding is silently not made for some values / names' % b.name, c.where(), body=b.name))
        elif ko is not None and ko.kind == 'param' and not ko.proj and vo is not None and vo.kind == 'param' and not vo.proj:
            obs.append(ok('CTXSTORE', key, 'insert(name parameter, value parameter) unchanged, on every path', c.where()))
        else:
            obs.append(bad('CTXSTORE', key, 'the context map entry is not (name parameter, value parameter) unchanged: %r / %r' % (ko, vo), c.where(), body=b.name))
    # wrappers between the evaluator and the direct writer: set_variable(name, value) -> set(name, Variable(value))
    for bid in sorted(cw - em._cw_direct):
        b = prog.by_id[bid]
        if b.is_closure and b.j.get('parent') in em.reach:
            continue        # a closure of an evaluator body (`handler(a, b).map(|v| { ctx.set_variable(name, v); .. })`): WCTX reads it inside the inlined evaluator
        calls = [c for c in b.live_calls if c.ruid in cw]
        key = 'CTXSTORE|wrap|%s' % b.name
        for c in calls:
            okk = True
            skip = b.reachable_from(0, avoid={c.bb})
            if c.bb != 0 and any(b.blocks[x]['term']['k'] == 'return' for x in skip):
                okk = False
            for a in c.args[1:]:
                o = single_origin(trace_operand(b, a, through_calls=THROUGH))
                if o is None:
                    okk = False
                elif o.kind == 'param' and not o.proj:
                    continue
                elif o.kind == 'agg' and o.data[2].get('adt') == 'context::ContextValue':
                    inner = single_origin(trace_operand(b, o.data[2]['ops'][0], through_calls=THROUGH))
                    want = 'Variable' if 'value::Value' in b.sig and 'dyn' not in b.sig else None
                    if not (inner is not None and inner.kind == 'param' and not inner.proj):
                        okk = False
                    if want and o.data[2]['variant'] != want:
                        okk = False
                else:
                    okk = False
            if okk:
                obs.append(ok('CTXSTORE', key, '%s forwards its name and value unchanged' % b.name, c.where()))
            else:
                obs.append(bad('CTXSTORE', key, '%s does not forward (name, value) unchanged to the context writer' % b.name, c.where(), body=b.name))
    # Context::value
    cv = [b for b in prog.bodies if b.name == 'context::Context::value']
    if not cv:
        obs.append(bad('CTXSTORE', 'CTXSTORE|value', 'anchor lost: Context::value not found'))
    else:
        b = cv[0]
        if not any(rv['k'] == 'agg' and rv.get('variant') == 'Ok' and pl['l'] in r_order._flows_to_return(b) for bb, i, pl, rv in b.assigns()):
            # `self.get(name).map_or(Ok(Value::None), |entry| match entry { .. })`: read with the combinator opened
            b = prog.view(b, keep=lambda g: True, tag='comb')
        lookups = [c for c in b.live_calls if c.term['dest']['ty'].startswith('std::option::Option<') and 'context::ContextValue' in c.term['dest']['ty']]
        key = 'CTXSTORE|value'
        problems = []
        if len(lookups) != 1:
            problems.append('expected one lookup of the name, found %d' % len(lookups))
        else:
            lk = lookups[0]
            no = single_origin(trace_operand(b, lk.args[-1], through_calls=THROUGH))
            if not (no is not None and no.kind == 'param' and no.data == 2 and not no.proj):
                problems.append('the lookup does not use the name parameter unchanged')
            none_ok = var_ok = False
            ret_locals = r_order._flows_to_return(b)
            for bb, i, pl, rv in b.assigns():
                if pl['l'] in ret_locals and not pl['p'] and rv['k'] == 'agg' and rv.get('variant') == 'Ok':
                    if _is_value_none(b, rv['ops'][0]):
                        none_ok = True
                        continue
                    o = single_origin(trace_operand(b, rv['ops'][0], through_calls=THROUGH))
                    if o is not None and o.kind == 'callres' and o.data.bb == lk.bb and ('dc', 'Variable') in o.proj and ('dc', 'Some') in o.proj:
                        var_ok = True
                    else:
                        problems.append('returns Ok of something that is neither None nor the stored variable (%r)' % o)
            if not none_ok:
                problems.append('no Ok(None) for an unbound name')
            if not var_ok:
                problems.append('the stored variable is not returned')
            # the None result must sit on the None edge of the lookup
        if problems:
            obs.append(bad('CTXSTORE', key, 'Context::value: ' + '; '.join(problems), b.where(), body=b.name))
        else:
            obs.append(ok('CTXSTORE', key, 'Context::value looks the name parameter up once; absent -> Ok(None); variable -> the stored value', b.where()))
    # Reference nodes read their own name
    n_reads = 0
    for b in em.bodies + [prog.by_id[i] for i in em.reach if i not in [x.id for x in em.bodies]]:
        for c in b.live_calls:
            if c.ruid and prog.by_id[c.ruid].name == 'context::Context::value':
                p = em.prov_of_operand(b, c.args[1])
                key = 'CTXSTORE|refname|%s' % b.name
                n_reads += 1
                if p is not None and r_order.prov_root(p) == ('Reference', 0):
                    obs.append(ok('CTXSTORE', key, 'a Reference node reads the context under its own name', c.where()))
                else:
                    obs.append(bad('CTXSTORE', key, 'Context::value is asked for something other than the Reference node\'s own name (%s)' % r_order.prov_str(p), c.where(), body=b.name))
            elif c.ruid and c.term['dest']['ty'].startswith('std::option::Option<') and 'context::ContextValue' in c.term['dest']['ty'] and len(c.args) >= 2:
                # the evaluator matches the context entry itself (`match ctx.get(name) { .. }`) for a Reference node
                p = em.prov_of_operand(b, c.args[1])
                if p is None or r_order.prov_root(p) != ('Reference', 0):
                    continue
                n_reads += 1
                key = 'CTXSTORE|refread|%s' % b.name
                w = _absent_path_problem(prog, b, c)
                if w and 'not matched on here' in w:
                    r = _absent_in_comb_view(prog, b, c)
                    w = w if r is False else (r or None)
                if w:
                    obs.append(bad('CTXSTORE', key, 'reading a Reference node: ' + w, c.where(), body=b.name, bb=c.bb))
                else:
                    obs.append(ok('CTXSTORE', key, 'a Reference node looks its own name up; when the name is absent the only outcome is Ok(None), and nothing is called or consulted on the way', c.where()))
    if cv and not any(o.status == 'violated' and o.key == 'CTXSTORE|value' for o in obs):
        b = cv[0]
        lookups = [c for c in b.live_calls if c.term['dest']['ty'].startswith('std::option::Option<') and 'context::ContextValue' in c.term['dest']['ty']]
        if len(lookups) == 1:
            w = _absent_path_problem(prog, b, lookups[0])
            if w and 'not matched on here' in w:
                r = _absent_in_comb_view(prog, b, lookups[0])
                w = w if r is False else (r or None)
            if w:
                obs.append(bad('CTXSTORE', 'CTXSTORE|value-absent', 'Context::value: ' + w, b.where(), body=b.name))
            else:
                obs.append(ok('CTXSTORE', 'CTXSTORE|value-absent', 'Context::value: when the name is absent the only outcome is Ok(None), and nothing is called or consulted on the way', b.where()))
    obs.append(floor('CTXSTORE', 'reference-read-sites', n_reads, 1, 'a Reference node must read the context somewhere in the evaluator'))
    return obs


def _absent_in_comb_view(prog, b, lk):
    """the same question on the body read with the std combinators it hands closures to opened
    (`self.get(name).map_or(Ok(Value::None), |entry| ..)`): a complaint, '' when fine, False when there is no such view"""
    v = prog.view(b, keep=lambda g: True, tag='comb')
    if v is b or lk.bb >= len(v.blocks) or v.blocks[lk.bb]['term']['k'] != 'call':
        return False
    vc = v.call_at(lk.bb)
    if vc is None or vc.ruid != lk.ruid:
        return False
    return _absent_path_problem(prog, v, vc) or ''


def _absent_path_problem(prog, b, lk):
    """walk from the lookup along the `None` edges of every switch on the lookup result's discriminant (the name is
    absent): the only value returned there is Ok(Value::None), and no callback / registry (static) is touched"""
    sw = set()
    for bb in sorted(b.live_blocks):
        t = b.blocks[bb]['term']
        if t['k'] != 'switch':
            continue
        o = single_origin(trace_operand(b, t['discr'], through_calls=set()))
        if o is None or o.kind != 'discr' or o.data[2]['pl']['p']:
            continue
        oo = single_origin(trace_local(b, o.data[2]['pl']['l'], (), through_calls=set()))
        if oo is not None and oo.kind == 'callres' and oo.data.bb == lk.bb and not oo.proj:
            sw.add(bb)
    if not sw:
        return 'the lookup result is not matched on here (absent / variable / function): the absent case cannot be followed'
    seen = set()
    st = [lk.term.get('target')]
    while st:
        x = st.pop()
        if x is None or x in seen:
            continue
        seen.add(x)
        if x in sw:
            t = b.blocks[x]['term']
            nxt = [tb for v, tb in t['targets'] if v == 0] or [t['otherwise']]
            st += nxt
        else:
            t = b.blocks[x]['term']
            if t['k'] == 'call':
                st.append(t.get('target'))          # normal return only
            else:
                st += [y for y in b.succ[x] if not b.blocks[y].get('cleanup')]
    import r_parse
    rets = 0
    for x in sorted(seen):
        blk = b.blocks[x]
        for st_ in blk['stmts']:
            if st_['k'] == 'assign' and st_['pl']['l'] == 0:
                rv = st_['rv']
                if rv['k'] == 'use' and not st_['pl']['p']:
                    # `_0 = move tmp` with tmp = Ok(Value::None) built earlier (the default argument of an opened `map_or`)
                    o = single_origin(trace_operand(b, rv['op'], through_calls=set()))
                    if o is not None and o.kind == 'agg' and not o.proj and o.data[2].get('variant') == 'Ok' and _is_value_none(b, o.data[2]['ops'][0]):
                        continue
                if st_['pl']['p'] or not (rv['k'] == 'agg' and rv.get('variant') == 'Ok' and _is_value_none(b, rv['ops'][0])):
                    return 'an absent name yields something other than Ok(None)'
        t = blk['term']
        if t['k'] == 'return':
            rets += 1
        if t['k'] == 'call' and x != lk.bb:
            c = Call(b, x, t)
            if t['dest']['l'] == 0:
                return 'an absent name yields the result of a call (%s) instead of Ok(None)' % (c.rdef or c.callee)
            if prog.is_callback(c):
                return 'a callback is invoked although the name is absent'
            g = prog.by_id.get(c.ruid) if c.ruid else None
            if g is not None:
                for bid in prog.reach([g.id]):
                    if any(prog.is_callback(c2) for c2 in prog.by_id[bid].live_calls):
                        return 'for an absent name %s is called, which can invoke a handler: an unbound name no longer simply reads as None' % g.name
                if r_parse._statics_reached(prog, g.id):
                    return 'for an absent name %s is called, which consults a process-global table: an unbound name that happens to be registered there no longer reads as None' % g.name
    if not rets:
        return 'no return on the absent-name path'
    return None


def r_order_root_local(b, op):
    """the local a moved operand ultimately names (following single-def moves back to a local with several defs)"""
    from r_panic import root_place
    rp = root_place(b, op)
    return rp[0] if rp else None


def rule_chain(prog, em):
    """statement chain: the value of a program is the value of its last statement, None when empty"""
    obs = []
    found = False
    for b in em.bodies:
        cs = [c for c in em.child_sites(b) if em.child_prov(c) and r_order.prov_root(em.child_prov(c)) == ('Stmt', 0)]
        if not cs:
            continue
        found = True
        key = 'CHAIN|%s' % b.name
        problems = []
        # in the dispatching body itself only the region handling the Stmt variant counts
        entry = r_order._arm_entry(em, b, 'Stmt')
        region = b.reachable_from(entry) if entry else set(b.live_blocks)
        for bb, i, pl, rv in b.assigns():
            if bb in region and pl['l'] == 0 and not pl['p'] and rv['k'] == 'agg' and rv.get('variant') == 'Ok':
                origins = trace_operand(b, rv['ops'][0], through_calls=set())
                kinds = set()
                for o in origins:
                    if o.kind == 'agg' and o.data[2].get('adt') == VALUE and o.data[2].get('variant') == 'None':
                        kinds.add('none')
                    elif o.kind == 'callres' and any(o.data.bb == c.bb for c in cs) and o.proj == (('dc', 'Ok'), ('f', 0)):
                        kinds.add('last')
                    else:
                        kinds.add('other:%r' % o)
                if kinds != {'none', 'last'}:
                    problems.append('the program value is %s (expected: initial None, then the latest statement value)' % sorted(kinds))
                else:
                    # the carried local is overwritten on *every* iteration: each path from the
                    # statement's Ok edge to the next iterator step passes the assignment
                    root = r_order_root_local(b, rv['ops'][0])
                    nxt = r_order._next_call_of(em, b, cs[0])
                    tc = r_order.try_of(b, cs[0])
                    if root is None or nxt is None or tc is None:
                        problems.append('cannot identify the loop-carried result / iterator step')
                    else:
                        dblocks = {d[0] for d in defuse(b).defs.get(root, []) if d[0] in b.reachable_after(cs[0].bb)}
                        ee = r_order.err_edge_of_try(b, tc)
                        cont = None
                        if ee:
                            t = b.blocks[ee[0]]['term']
                            for v, tb in t['targets']:
                                if v == 0:
                                    cont = tb
                        if cont is None or not dblocks:
                            problems.append('the statement value is not stored into the carried result')
                        elif nxt.bb in b.reachable_from(cont, avoid=dblocks) and cont not in dblocks:
                            problems.append('an iteration can finish without storing its statement value into the carried result (conditional update)')
        n_ok = len([1 for bb, i, pl, rv in b.assigns() if bb in region and pl['l'] == 0 and not pl['p'] and rv['k'] == 'agg' and rv.get('variant') == 'Ok'])
        if n_ok == 0:
            problems.append('the program value is not built here as Ok(<carried result>) (it is the result of a call / combinator this rule cannot read)')
        if problems:
            obs.append(bad('CHAIN', key, '; '.join(problems), b.where(), body=b.name))
        else:
            obs.append(ok('CHAIN', key, 'the returned value is the loop-carried result: None initially, then the value of each statement in turn', b.where()))
    if not found:
        obs.append(bad('CHAIN', 'CHAIN|anchor', 'anchor lost: no body evaluates the statements of a Stmt node'))
    return obs
