import sys, os, json, time, traceback, hashlib
from extract import extract, ToolError, VERIF, CONFIGS
from facts import Facts
from analysis import Program
from engine import Ob, known_keys, load_known
import props

REPO = os.environ.get('VERIF_REPO', '/repo')   # VERIF_REPO: development only (selftest mutants on scratch copies)
CRATE = 'expression_engine'


class Ctx:
    """lazily built analysis context for one configuration of one tree"""

    def __init__(self, root, crate, config='base', tier='quick'):
        self.root = root
        self.crate = crate
        self.config = config
        self.tier = tier
        path, info = extract(root, crate, config)
        try:
            self.facts = Facts(path)
        except (OSError, ValueError):
            # the cached fact file vanished / was half-written under a concurrent run: extract afresh
            path, info = extract(root, crate, config, use_cache=False)
            self.facts = Facts(path)
        self.info = info
        self.prog = Program(self.facts)
        # normal form: private closure-taking locking helpers written out at their callers (openho.py; a no-op on the pinned tree)
        import openho
        nf, self.opened_helpers = openho.normalise(self.prog, Facts)
        if nf is not None:
            self.facts = nf
            self.prog = Program(nf)
        self._lm = None
        self.cache = {}

    @property
    def lm(self):
        if self._lm is None:
            self._lm = props.make_lm(self)
        return self._lm


def run_property(pid, tier):
    t0 = time.time()
    spec = props.PROPS[pid]
    ctx = Ctx(REPO, CRATE, 'base', tier)
    obs, meta = spec['fn'](ctx)
    if tier == 'quick':
        obs = [o for o in obs if not o.ext]
    if os.environ.get('VERIF_REPO') and os.environ.get('VERIF_SELFTEST_SKIP_RULES'):
        # self-test corpus only (never the registered commands, which run on /repo): a stored refactoring / seed that
        # no longer applies to /repo's HEAD is replayed on the commit it was written against, which still contains a
        # defect that was repaired since; the rule that reports that defect is left out for that replay
        # entries: RULE (the whole rule) or RULE:key-suffix (only obligations of that rule whose key ends like that)
        skip = [x.split(':', 1) for x in os.environ['VERIF_SELFTEST_SKIP_RULES'].split(',') if x]
        obs = [o for o in obs if not any(o.rule == r[0] and (len(r) == 1 or o.key.endswith(r[1])) for r in skip)]
    configs = ['base']
    # thorough: the verdict must be identical under the other build configurations
    cfg_diff = []
    if tier == 'thorough':
        base_v = sorted(o.key for o in obs if o.status == 'violated')
        for cfg in spec.get('configs', ['nooverflow', 'release', 'debugasserts']):
            c2 = Ctx(REPO, CRATE, cfg, tier)
            o2, _ = spec['fn'](c2)
            configs.append(cfg)
            v2 = sorted(o.key for o in o2 if o.status == 'violated')
            if v2 != base_v:
                extra = [o for o in o2 if o.status == 'violated' and o.key not in base_v]
                for o in extra:
                    o.key = o.key + '|cfg=' + cfg
                    obs.append(o)
                cfg_diff.append({'config': cfg, 'only_there': [o.key for o in extra],
                                 'only_base': [k for k in base_v if k not in v2]})
    if tier == 'thorough' and REPO == '/repo' and os.environ.get('VERIF_CONTROLS', '1') != '0':
        meta = dict(meta)
        meta['positive_controls'] = run_controls(pid)
        silent = [c['name'] for c in meta['positive_controls']['results'] if c['status'] == 'SILENT']
        if silent:
            raise ToolError('positive control(s) silent for %s: %s — the rule set no longer fires on a seeded violation; verdict withheld' % (pid, silent))
    return finish(pid, tier, spec, ctx, obs, meta, configs, cfg_diff, t0)


def run_controls(pid):
    """thorough tier: scripted single edits (selftest/mutants.json) that break this property are
    applied to scratch copies of the current /repo; the quick check must report each.  A control
    whose edit no longer applies to the current tree is skipped (the code it targets has changed)."""
    import shutil, subprocess, tempfile, concurrent.futures as cf
    mpath = os.path.join(VERIF, 'selftest', 'mutants.json')
    if not os.path.exists(mpath):
        return {'results': []}
    ms = [m for m in json.load(open(mpath)) if pid in m.get('expect', [])]

    def one(m):
        d = tempfile.mkdtemp(prefix='ee-ctl-')
        try:
            dst = os.path.join(d, 'repo')
            shutil.copytree(REPO, dst, ignore=shutil.ignore_patterns('target', '.git'))
            for e in m['edits']:
                fp = os.path.join(dst, e['file'])
                s = open(fp).read()
                if e['old'] not in s:
                    return {'name': m['name'], 'status': 'SKIPPED', 'why': 'edit does not apply to the current tree'}
                open(fp, 'w').write(s.replace(e['old'], e['new'], e.get('count', 1)))
            env = dict(os.environ, VERIF_REPO=dst, VERIF_NO_EVIDENCE='1', VERIF_CONTROLS='0')
            p = subprocess.run([os.path.join(VERIF, 'check'), pid, 'quick'], env=env, stdout=subprocess.PIPE, stderr=subprocess.STDOUT, text=True)
            if p.returncode == 1:
                v = [l for l in p.stdout.splitlines() if l.startswith('VIOLATION')]
                return {'name': m['name'], 'status': 'REPORTED', 'violations': len(v)}
            if p.returncode == 2:
                return {'name': m['name'], 'status': 'SKIPPED', 'why': 'edited copy does not build / tool failure'}
            return {'name': m['name'], 'status': 'SILENT'}
        finally:
            shutil.rmtree(d, ignore_errors=True)
    with cf.ThreadPoolExecutor(max_workers=8) as ex:
        res = list(ex.map(one, ms))
    return {'results': res, 'reported': len([r for r in res if r['status'] == 'REPORTED']), 'skipped': len([r for r in res if r['status'] == 'SKIPPED'])}


def finish(pid, tier, spec, ctx, obs, meta, configs, cfg_diff, t0):
    known = known_keys(pid)
    violated = [o for o in obs if o.status == 'violated']
    new = [o for o in violated if o.key not in known]
    old = [o for o in violated if o.key in known]
    os.makedirs(os.path.join(VERIF, 'evidence', 'replay'), exist_ok=True)
    for o in old:
        print('KNOWN-FINDING: property=%s %s — %s' % (pid, o.key, known[o.key].get('what', o.what)))
    replay_paths = []
    for o in new:
        h = hashlib.sha1(o.key.encode()).hexdigest()[:12]
        rp = os.path.join(VERIF, 'evidence', 'replay', '%s-%s.json' % (pid, h))
        with open(rp, 'w') as f:
            json.dump({'property': pid, 'obligation': o.to_json(), 'tree_hash': ctx.info['tree_hash'],
                       'how_to_read': 'rule = the static rule applied; key = stable identity of the instance; witness = body / block / call path; where = file:line (reader only)'},
                      f, indent=1)
        replay_paths.append(rp)
        print('%s: %s' % (o.rule, o.what))
        print('    at %s   key=%s' % (o.where, o.key))
        print('VIOLATION property=%s replay=%s' % (pid, rp))
    n = len(obs)
    disc = len([o for o in obs if o.status in ('discharged', 'assumed')])
    by_rule = {}
    for o in obs:
        r = by_rule.setdefault(o.rule, {'discharged': 0, 'assumed': 0, 'violated': 0})
        r[o.status] += 1
    samples = []
    seen_rules = set()
    for o in obs:
        if o.rule not in seen_rules or o.status == 'violated':
            seen_rules.add(o.rule)
            samples.append({'rule': o.rule, 'key': o.key, 'status': o.status, 'what': o.what, 'where': o.where})
        if len(samples) >= 14:
            break
    ev = {
        'property_id': pid,
        'tier': tier,
        'seed': int(os.environ.get('VERIF_SEED', '0') or 0),
        'level': 'other',
        'coverage': {
            'explanation': spec['explanation'],
            'obligations': n,
            'discharged': disc,
            'violated_new': len(new),
            'violated_known': len(old),
            'by_rule': by_rule,
            'samples': samples,
            'analysed': dict(meta.get('analysed', {}), bodies=len(ctx.facts.bodies),
                             call_sites=sum(len(b.live_calls) for b in ctx.facts.bodies),
                             statics=len(ctx.facts.statics), adts=len(ctx.facts.adts)),
            'floors': meta.get('floors', {}),
            'positive_controls': meta.get('positive_controls', 'thorough tier only'),
            'not_decided': spec.get('not_decided', ''),
            'build_configurations': configs,
            'configuration_differences': cfg_diff,
            'assumed_external': meta.get('assumed_external', [])[:60],
            'tree_hash': ctx.info['tree_hash'],
            'facts_cached': ctx.info.get('cached'),
            'exhaustive': True,
            'checker_cmd': './check %s %s' % (pid, tier),
            'trusted_base': ['rustc nightly MIR construction + Instance::try_resolve', 'driver/ee-facts JSON dump',
                             'spec/*.tsv tables (std / rust_decimal API classification)'],
        },
        'assumptions': spec.get('assumptions', []) + meta.get('assumptions', []),
        'wall_s': round(time.time() - t0, 3),
        'violations': len(new),
    }
    if not os.environ.get('VERIF_NO_EVIDENCE'):
        with open(os.path.join(VERIF, 'evidence', '%s.json' % pid), 'w') as f:
            json.dump(ev, f, indent=1)
    print('%s %s: %d obligations, %d discharged/assumed, %d known findings, %d new violations  [%s; %.1fs]'
          % (pid, tier, n, disc, len(old), len(new), ','.join(configs), time.time() - t0))
    return 1 if new else 0


def explain(pid, path):
    with open(path) as f:
        r = json.load(f)
    print(json.dumps(r, indent=1))
    key = r['obligation']['key']
    spec = props.PROPS[pid]
    ctx = Ctx(REPO, CRATE, 'base', 'thorough')
    obs, _ = spec['fn'](ctx)
    hit = [o for o in obs if o.key == key]
    if not hit:
        print('on the current tree: this obligation no longer exists')
        return 0
    for o in hit:
        print('on the current tree: %s — %s' % (o.status, o.what))
        bn = o.witness.get('body')
        if bn:
            for b in ctx.facts.bodies:
                if b.name == bn:
                    print(b.pretty())
    return 1 if any(o.status == 'violated' for o in hit) else 0


def main(argv):
    if not argv:
        print(__doc__ or 'usage: check <Cxx|all> [quick|thorough]')
        return 2
    pid = argv[0]
    try:
        if len(argv) >= 3 and argv[1] in ('--explain', '--replay'):
            return explain(pid, argv[2])
        tier = argv[1] if len(argv) > 1 else os.environ.get('VERIF_TIER', 'quick')
        if tier not in ('quick', 'thorough'):
            tier = 'quick'
        if pid == 'selftest-setup':
            c = Ctx(REPO, CRATE, 'base', 'quick')
            print('setup ok: driver extracted %d bodies from %s (tree %s)' % (len(c.facts.bodies), REPO, c.info['tree_hash']))
            return 0
        if pid == 'all':
            rc = 0
            for p in sorted(props.PROPS):
                rc = max(rc, run_property(p, tier))
            return rc
        if pid not in props.PROPS:
            print('unknown property %s' % pid)
            return 2
        return run_property(pid, tier)
    except ToolError as e:
        print('TOOL FAILURE (no verdict): %s' % e)
        return 2
    except Exception:
        traceback.print_exc()
        print('TOOL FAILURE (no verdict): internal error')
        return 2
