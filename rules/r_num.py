"""TYCHAIN, WFLOAT, literal pass-through (C09)."""
import re
from facts import op_local, op_place, Call
from analysis import defuse, trace_operand, single_origin, TRANSPARENT_CALLS
from engine import ok, bad, assumed, floor
import r_errd

DEC = 'rust_decimal::Decimal'
FLOATY = re.compile(r'(^|[^\w])(f32|f64)([^\w]|$)')
DENY = re.compile(r'(^value::Value::float$|::to_f64$|::to_f32$|::from_f64\w*$|::from_f32\w*$|::try_from_f64$|'
                  r'^rust_decimal::Decimal::(round\w*|trunc\w*|floor|ceil|normalize|normalize_assign|rescale|set_scale|round_sf\w*|fract|from_scientific|from_str_radix|from_f\w+)$|'
                  r'RoundingStrategy)')


def rule_tychain(prog, roles):
    f = prog.f
    obs = []
    def payload(adt_name, variant):
        a = f.adt_by_name.get(adt_name)
        if not a:
            return None
        for v in a['variants']:
            if v['name'] == variant and v['fields']:
                return v['fields'][0]['ty']
        return None
    for adt_name in (roles.token_adt, 'parser::Literal', 'value::Value'):
        t = payload(adt_name, 'Number')
        key = 'TYCHAIN|%s' % adt_name
        if t == DEC:
            obs.append(ok('TYCHAIN', key, '%s::Number carries a rust_decimal::Decimal' % adt_name))
        else:
            obs.append(bad('TYCHAIN', key, '%s::Number carries %s, not rust_decimal::Decimal: number literals / values are no longer exact decimals' % (adt_name, t)))
    imp = [i for i in f.impls if i['self'] == 'value::Value' and i.get('trait') == 'std::cmp::PartialEq']
    if imp and imp[0].get('derived'):
        obs.append(ok('TYCHAIN', 'TYCHAIN|eq', 'PartialEq for Value is derived: equality on numbers is Decimal\'s (scale-insensitive) equality'))
    else:
        obs.append(bad('TYCHAIN', 'TYCHAIN|eq', 'PartialEq for Value is %s: structural equality / trailing-zero insensitivity no longer follows from the derive' % ('hand-written' if imp else 'missing')))
    return obs


def number_scope(prog, roles, em):
    """number scanner, literal evaluator, Value::decimal, all built-in handlers and their callees"""
    ids = set()
    for bid in roles.reach:
        b = prog.by_id[bid]
        if any((c.rdef or '').endswith('<rust_decimal::Decimal as std::str::FromStr>::from_str') or 'rust_decimal::Decimal::from_' in (c.rdef or c.callee or '') for c in b.live_calls):
            ids.add(bid)
    for bid in em.reach:
        b = prog.by_id[bid]
        if any('parser::Literal<' in l['ty'] for l in b.locals[:b.arg_count + 1]):
            ids.add(bid)
    for b in prog.bodies:
        if b.name == 'value::Value::decimal':
            ids.add(b.id)
    hs = prog.builtin_handlers()
    ids |= prog.reach([h.id for h in hs])
    # drop the float() accessor itself (public API; its use is what is denied) 
    return [prog.by_id[i] for i in sorted(ids) if prog.by_id[i].name not in ('value::Value::float', 'value::Value::float::{closure#0}')]


def rule_wfloat(bodies):
    obs = []
    n = 0
    for b in bodies:
        fl = [(i, l['ty']) for i, l in enumerate(b.locals) if FLOATY.search(l['ty'])]
        for i, ty in fl[:3]:
            n += 1
            obs.append(bad('WFLOAT', 'WFLOAT|local|%s|%s' % (b.name, ty[:40]), 'binary floating point on the number path: local _%d of type %s in %s' % (i, ty[:60], b.name), b.where(), body=b.name))
        cnt = {}
        for c in b.live_calls:
            nme = c.rdef or c.callee or ''
            if DENY.search(nme) or DENY.search(c.callee or ''):
                import r_nowrap
                if getattr(b, 'orig_id', b.id) in r_nowrap.UNDOCUMENTED_HANDLER_BODIES and re.search(r'::(round\w*|trunc\w*|floor|ceil|fract|rescale|normalize)$', nme):
                    continue      # a rounding *function* the user calls by name (added feature), not the arithmetic of the language
                k = cnt.get(nme, 0); cnt[nme] = k + 1
                n += 1
                obs.append(bad('WFLOAT', 'WFLOAT|call|%s|%s|#%d' % (b.name, nme, k), '%s on the number path: rounds / rescales / goes through binary floating point' % nme, c.where(), body=b.name, bb=c.bb))
    if n == 0:
        obs.append(ok('WFLOAT', 'WFLOAT|none', 'no f32/f64 local and no float / rounding / rescaling call in the %d bodies of the number path (scanner, literal evaluator, Value::decimal, built-in handlers and their callees)' % len(bodies)))
    obs.append(floor('WFLOAT', 'scope', len(bodies), 20, 'number scanner + literal evaluator + accessors + handlers'))
    return obs


def rule_literal_path(prog, roles, em):
    first = _rule_literal_path(prog, roles, em, roles.token_bodies())
    if not any(o.status == 'violated' for o in first):
        return first
    second = _rule_literal_path(prog, roles, em, roles.token_bodies(views='ho'))
    from engine import covers
    if covers(first, second) and not any(o.status == 'violated' for o in second):
        for o in second:
            o.what += ' [read with combinator closures inlined]'
        return second
    return first


def _rule_literal_path(prog, roles, em, tbodies):
    """literal text -> from_str -> Token::Number -> Literal::Number -> Value::Number by moves only"""
    obs = []
    # (1) scanner
    scanners = []
    for b in tbodies:
        fs = [c for c in b.live_calls if (c.rdef or '').endswith('<rust_decimal::Decimal as std::str::FromStr>::from_str')]
        if fs:
            scanners.append((b, fs))
    obs.append(floor('LITPATH', 'number-scanner', len(scanners), 1, 'the body that calls Decimal::from_str on the literal text'))
    for b, fs in scanners:
        key = 'LITPATH|scan|%s' % b.name
        problems = []
        if len(fs) != 1:
            problems.append('%d from_str calls' % len(fs))
        c = fs[0]
        a = single_origin(trace_operand(b, c.args[0], through_calls=set(TRANSPARENT_CALLS)))
        if not (a is not None and a.kind == 'callres' and (a.data.rdef or '').startswith('core::str::traits::<impl std::ops::Index<I> for str>::index')):
            problems.append('from_str is not applied to a plain slice of the input (%r)' % a)
        built = False
        for bb, i, pl, rv in b.assigns():
            if rv['k'] == 'agg' and rv.get('adt') == roles.token_adt and rv.get('variant') == 'Number':
                built = True
                o = single_origin(trace_operand(b, rv['ops'][0], through_calls=set()))
                if not (o is not None and o.kind == 'callres' and o.data.bb == c.bb and o.proj == (('dc', 'Ok'), ('f', 0))):
                    problems.append('the Number token does not carry the unmodified Ok payload of from_str (%r)' % o)
        if not built:
            problems.append('no Number token is built here')
        cls, detail = r_errd.consume(b, c)
        if cls not in ('match', 'try', 'tail', 'combinator'):
            problems.append('the failure of from_str is %s (%s)' % (cls, detail))
        if problems:
            obs.append(bad('LITPATH', key, '; '.join(problems), c.where(), body=b.name))
        else:
            obs.append(ok('LITPATH', key, 'Decimal::from_str(input slice); Ok payload moved unchanged into the Number token; Err arm fails (%s)' % cls, c.where()))
    # (2) parser: Literal::Number <- token payload
    n2 = 0
    for b in tbodies:
        for bb, i, pl, rv in b.assigns():
            if rv['k'] == 'agg' and rv.get('adt') == 'parser::Literal' and rv.get('variant') == 'Number':
                n2 += 1
                o = single_origin(trace_operand(b, rv['ops'][0], through_calls=set(TRANSPARENT_CALLS) | {'std::clone::Clone::clone'}))
                key = 'LITPATH|parse|%s' % b.name
                if o is not None and ('dc', 'Number') in o.proj and o.kind in ('param', 'callres'):
                    obs.append(ok('LITPATH', key, 'Literal::Number carries the Number token\'s payload unchanged', b.where(bb)))
                else:
                    obs.append(bad('LITPATH', key, 'Literal::Number is not the unchanged payload of the Number token (%r)' % o, b.where(bb), body=b.name))
    obs.append(floor('LITPATH', 'literal-number-sites', n2, 1, 'number literals become Literal::Number somewhere'))
    # (3) evaluator: Value <- Literal::Number payload through From<Decimal> (identity wrap, TFROM)
    n3 = 0
    for bid in sorted(em.reach):
        b = prog.by_id[bid]
        lit_param = any('parser::Literal<' in l['ty'] for l in b.locals[:b.arg_count + 1])
        node_param = any('parser::ExprAST<' in l['ty'] for l in b.locals[:b.arg_count + 1])
        if not lit_param and not node_param:
            continue
        def from_literal(o):
            # in a body that receives the whole node (literal evaluation inlined into the dispatch), only what is
            # read out of the node's Literal payload is a literal evaluation
            return lit_param or (o is not None and o.kind == 'param' and ('dc', 'Literal') in o.proj)
        for c in b.live_calls:
            if c.callee in ('std::convert::From::from', 'std::convert::Into::into') and c.fn and DEC in ' '.join(c.fn['args']) and 'value::Value' in ' '.join(c.fn['args']):
                o = single_origin(trace_operand(b, c.args[0], through_calls=set(TRANSPARENT_CALLS) | {'std::clone::Clone::clone'}))
                if not from_literal(o):
                    continue
                n3 += 1
                key = 'LITPATH|eval|%s' % b.name
                if o is not None and o.kind == 'param' and ('dc', 'Number') in o.proj:
                    obs.append(ok('LITPATH', key, 'the literal\'s Decimal is wrapped into Value::Number by From<Decimal> (identity wrap)', c.where()))
                else:
                    obs.append(bad('LITPATH', key, 'the evaluated number literal is not the literal\'s own Decimal (%r)' % o, c.where(), body=b.name))
        for bb, i, pl, rv in b.assigns():
            if rv['k'] == 'agg' and rv.get('adt') == 'value::Value' and rv.get('variant') == 'Number':
                o = single_origin(trace_operand(b, rv['ops'][0], through_calls=set(TRANSPARENT_CALLS) | {'std::clone::Clone::clone'}))
                if not from_literal(o):
                    continue
                n3 += 1
                key = 'LITPATH|eval|%s' % b.name
                if o is not None and o.kind == 'param' and ('dc', 'Number') in o.proj:
                    obs.append(ok('LITPATH', key, 'Value::Number carries the literal\'s Decimal unchanged', b.where(bb)))
                else:
                    obs.append(bad('LITPATH', key, 'the evaluated number literal is not the literal\'s own Decimal (%r)' % o, b.where(bb), body=b.name))
    obs.append(floor('LITPATH', 'literal-eval-sites', n3, 1, 'number literals are evaluated somewhere'))
    return obs


INT_ARITH = re.compile(r'^core::num::<impl (i|u)(8|16|32|64|128|size)>::(checked_|wrapping_|saturating_|overflowing_)?(add|sub|mul|div|rem|pow|neg)\w*$')

def rule_intfast(bodies):
    """decimal arithmetic is not routed through primitive integers: in a body that holds Decimal
    operands, no primitive-integer add/sub/mul/div (checked or not)"""
    obs = []
    for b in bodies:
        if not any(l['ty'] == DEC for l in b.locals[1:b.arg_count + 1]) and not any(l['ty'] == DEC for l in b.locals):
            continue
        k = 0
        for c in b.live_calls:
            if INT_ARITH.match(c.callee or ''):
                obs.append(bad('NUMPATH', 'NUMPATH|intarith|%s|%s|#%d' % (b.name, c.callee.split('::')[-1], k), 'primitive integer arithmetic (%s) in %s, which computes on Decimal operands: results outside the integer range are lost / reported as overflow although the decimal could hold them' % (c.callee.split('::')[-1], b.name), c.where(), body=b.name, bb=c.bb))
                k += 1
        for bb, i, pl, rv in b.assigns():
            if rv['k'] == 'binop' and rv['op'] in ('Add', 'Sub', 'Mul', 'Div', 'Rem', 'AddWithOverflow', 'SubWithOverflow', 'MulWithOverflow') and re.match(r'^(i|u)(8|16|32|64|128)$', rv.get('aty', '')) and not (rv['a']['k'] == 'const' and rv['b']['k'] == 'const'):
                obs.append(bad('NUMPATH', 'NUMPATH|intarith|%s|%s|#%d' % (b.name, rv['op'], k), 'primitive integer %s in %s, which computes on Decimal operands' % (rv['op'], b.name), b.where(bb), body=b.name, bb=bb))
                k += 1
    if not obs:
        obs.append(ok('NUMPATH', 'NUMPATH|intarith', 'no primitive-integer arithmetic in any body that holds Decimal operands'))
    return obs


DECIMAL = 'rust_decimal::Decimal'
DEC_OPS = re.compile(r'^(std::ops::(Neg::neg|Add::add|Sub::sub|Mul::mul|Div::div|Rem::rem|AddAssign::add_assign|SubAssign::sub_assign|MulAssign::mul_assign|DivAssign::div_assign|RemAssign::rem_assign)'
                     r'|rust_decimal::Decimal::(checked_\w+|saturating_\w+|abs|round\w*|trunc\w*|floor|ceil|powi|powd|sqrt|set_sign\w*|rescale|normalize))$')


def rule_parse_no_eval(roles):
    """the parser only builds the tree: no arithmetic on a number happens below parse_expression (a sign or an
    operator folded into a literal at parse time never reaches the operator registry, so a replaced handler is
    silently not used for it)"""
    obs = []
    hits = []
    for b in roles.token_bodies():
        for bb, i, pl, rv in b.assigns():
            if rv['k'] in ('binop', 'unop') and rv.get('aty') == DECIMAL:
                hits.append((b, bb, '%s on a Decimal' % rv['op']))
        for c in b.live_calls:
            nm = c.callee or ''
            if DEC_OPS.match(nm) and any(DECIMAL in a for a in (c.term['arg_tys'][:1] or [''])):
                hits.append((b, c.bb, nm))
    for k, (b, bb, what) in enumerate(hits):
        obs.append(bad('PARSE-NO-EVAL', 'PARSE-NO-EVAL|%s|#%d' % (b.name, k), 'the parser computes on a number itself (%s): an operator applied at parse time bypasses the operator registry, so the handler registered for it is not the one used' % what,
                       b.where(bb), body=b.name, bb=bb))
    if not hits:
        obs.append(ok('PARSE-NO-EVAL', 'PARSE-NO-EVAL|none', 'no Decimal arithmetic / sign change below parse_expression: operators reach the evaluator as nodes'))
    return obs
