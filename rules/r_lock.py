"""LOCK rules: guard liveness across calls (DESIGN §3 GL, §4.13-4.15).

LOCK-a  no engine guard (REGISTRY / DESCRIPTOR / CONTEXT / ONCE) is live at any call site that is,
        or can reach through local bodies, a callback (dyn Fn / fn pointer) call.
LOCK-b  no guard is live at any call site that is, or can reach, a lock acquisition; the
        once-closure never reaches the initialiser again.
LOCK-c  NO-POISON: no undischarged panic site of the engine's own lies in a guard-live region.
ESCAPE  guards do not escape (no guard type in a signature, field or static; no forget / leak).
"""
import re
from facts import op_local, op_place, pl_str, Call
from analysis import (is_guard_ty, guard_class, dyn_fn_class, LOCK_CALLS, ONCE_CALLS, defuse,
                      trace_operand, single_origin)
from engine import ok, bad, assumed, floor
import r_panic


def guardish_adts(prog):
    """local ADTs that (transitively) own a guard in a field"""
    names = set()
    changed = True
    while changed:
        changed = False
        for a in prog.f.adts:
            if a['name'] in names:
                continue
            for v in a['variants']:
                for fld in v['fields']:
                    t = fld['ty']
                    if is_guard_ty(t) or any(re.search(r'(^|[^\w:])%s\b' % re.escape(n), t) and not t.startswith('&') for n in names):
                        names.add(a['name'])
                        changed = True
                        break
    return names


class GuardFlow:
    """forward may-analysis of guard-owning locals per body"""

    def __init__(self, body, guard_adts=()):
        self.body = body
        self.guard_adts = guard_adts
        self.is_guard = [self._ty_guard(l['ty']) for l in body.locals]
        self.any = any(self.is_guard)
        self.at_term = {}     # bb -> frozenset of live guard locals during the terminator
        if self.any:
            self._run()

    def _ty_guard(self, ty):
        if is_guard_ty(ty):
            return True
        t = ty.strip()
        if t.startswith('&'):
            return False
        return any(re.search(r'(^|[^\w:])%s\b' % re.escape(n), t) for n in self.guard_adts)

    def _kill_moves_op(self, op, state):
        if op['k'] == 'move':
            pl = op['pl']
            l = pl['l']
            if self.is_guard[l]:
                if not pl['p']:
                    state.discard(l)
                elif self._ty_guard(pl['ty']):
                    # the guard itself is moved out of a wrapper (Result / Option / tuple)
                    state.discard(l)

    def _transfer(self, b, state):
        state = set(state)
        blk = self.body.blocks[b]
        for st in blk['stmts']:
            if st['k'] == 'assign':
                rv = st['rv']
                if rv['k'] in ('use', 'cast', 'repeat'):
                    self._kill_moves_op(rv['op'], state)
                elif rv['k'] == 'agg':
                    for o in rv['ops']:
                        self._kill_moves_op(o, state)
                pl = st['pl']
                if self.is_guard[pl['l']] and (not pl['p']) and rv['k'] != 'ref':
                    state.add(pl['l'])
                elif self.is_guard[pl['l']] and pl['p'] and self._ty_guard(pl['ty']):
                    state.add(pl['l'])
            elif st['k'] == 'dead':
                state.discard(st['l'])
        t = blk['term']
        if t['k'] == 'call':
            for a in t['args']:
                self._kill_moves_op(a, state)
            self.at_term[b] = frozenset(state)
            d = t['dest']
            if self.is_guard[d['l']] and not d['p']:
                state.add(d['l'])
        elif t['k'] == 'drop':
            self.at_term[b] = frozenset(state)
            if not t['pl']['p']:
                state.discard(t['pl']['l'])
        else:
            self.at_term[b] = frozenset(state)
        return state

    def _run(self):
        body = self.body
        inn = {b: set() for b in body.live_blocks}
        out = {}
        work = sorted(body.live_blocks)
        while work:
            b = work.pop(0)
            o = self._transfer(b, inn[b])
            if out.get(b) != o:
                out[b] = o
                for s in body.succ[b]:
                    if not o <= inn[s]:
                        inn[s] |= o
                        if s not in work:
                            work.append(s)
        self.inn = inn

    def live_at(self, bb):
        return self.at_term.get(bb, frozenset())

    def cls(self, l):
        return guard_class(self.body.locals[l]['ty'])


class LockModel:
    def __init__(self, prog, extra_dischargers=()):
        self.prog = prog
        self.guard_adts = guardish_adts(prog)
        self.flows = {b.id: GuardFlow(b, self.guard_adts) for b in prog.bodies}
        # direct facts per body
        self.direct_lock = {}      # body id -> [Call]
        self.direct_cb = {}        # body id -> [Call] callback sites
        for b in prog.bodies:
            self.direct_lock[b.id] = [c for c in b.live_calls if prog.is_lock_call(c)]
            self.direct_cb[b.id] = [c for c in b.live_calls if prog.is_callback(c)]
        self.can_lock = self._closure(lambda bid: bool(self.direct_lock[bid]))
        self.can_cb = self._closure(lambda bid: bool(self.direct_cb[bid]))
        # panic: undischarged sites per body
        self.panic_obs, self.panic_sites = r_panic.evaluate(prog.bodies, extra_dischargers=extra_dischargers)
        bad_bodies = set()
        self.undischarged = {}
        for o in self.panic_obs:
            if o.status == 'violated' or o.witness.get('discharge') == 'D-contract':
                # D-contract: the site cannot fire for inputs inside the documented domain (a registered precedence <= 10^9);
                # a caller outside it gets a panic — tolerable where it only fails that call, not where it would poison a
                # process-global table for everybody else
                bn = o.witness.get('body')
                self.undischarged.setdefault(bn, []).append(o)
        name2id = {b.name: b.id for b in prog.bodies}
        self.can_panic = self._closure(lambda bid: prog.by_id[bid].name in self.undischarged)
        # once closures
        self.once_closures = []
        for b in prog.bodies:
            for c in b.live_calls:
                if c.callee in ONCE_CALLS:
                    for cu, calls in prog.closure_passed.items():
                        if c in calls or any(cc.bb == c.bb and cc.body is c.body for cc in calls):
                            if cu in prog.by_id:
                                self.once_closures.append((prog.by_id[cu], c))

    def _closure(self, pred):
        """set of body ids from which a body satisfying pred is reachable (incl. itself)"""
        prog = self.prog
        sat = {bid for bid in prog.edges if pred(bid)}
        changed = True
        while changed:
            changed = False
            for bid, succ in prog.edges.items():
                if bid not in sat and any(s in sat for s in succ):
                    sat.add(bid)
                    changed = True
        return sat

    def witness_path(self, start, pred):
        """shortest call path start -> ... -> body satisfying pred (names)"""
        prog = self.prog
        from collections import deque
        q = deque([(start, [start])])
        seen = {start}
        while q:
            x, path = q.popleft()
            if pred(x):
                return [prog.by_id[p].name for p in path]
            for s in prog.edges[x]:
                if s not in seen:
                    seen.add(s)
                    q.append((s, path + [s]))
        return []


def _site_key(rule, c, live, gf, ordinal):
    return '%s|%s|%s|held=%s|#%d' % (rule, c.body.name, (c.rdef or c.callee or 'indirect'),
                                     '+'.join(sorted(gf.cls(l) for l in live)), ordinal)


def _callee_targets(prog, c):
    """local bodies a call site may enter: resolved callee, plus closures passed at this site"""
    out = []
    ru = c.ruid
    if ru in prog.by_id:
        out.append(ru)
    for cu, calls in prog.closure_call_sites.items():
        for cc in calls:
            if cc.body is c.body and cc.bb == c.bb:
                out.append(cu)
    out += [tu for tu in getattr(prog, 'generic_cb_targets', {}).get((c.body.id, c.bb), []) if tu in prog.by_id]
    return out


def rule_lock_a(lm, want=('a',)):
    """LOCK-a / LOCK-b / LOCK-c over every call site with a live guard"""
    prog = lm.prog
    obs = []
    n_sites = 0
    counts = {}
    for body in prog.bodies:
        gf = lm.flows[body.id]
        if not gf.any:
            continue
        for b in sorted(body.live_blocks):
            live = gf.live_at(b)
            if not live:
                continue
            t = body.blocks[b]['term']
            if t['k'] == 'call':
                c = Call(body, b, t)
                n_sites += 1
                ck = (c.rdef or c.callee or 'indirect')
                ordinal = counts.get((body.id, ck), 0)
                counts[(body.id, ck)] = ordinal + 1
                held = '+'.join(sorted(gf.cls(l) for l in live))
                targets = _callee_targets(prog, c)
                if 'a' in want:
                    key = _site_key('LOCK-a', c, live, gf, ordinal)
                    if prog.is_callback(c):
                        kind = dyn_fn_class(c.term['arg_tys'][0]) if c.term['arg_tys'] else None
                        obs.append(bad('LOCK-a', key,
                                       'callback (%s) invoked while %s guard %s is live: the handler cannot re-enter / lock, and a panic in it poisons the mutex'
                                       % (kind or 'indirect call', held, ','.join('_%d' % l for l in sorted(live))),
                                       c.where(), body=body.name, bb=b, guards=[body.locals[l]['ty'] for l in live]))
                    else:
                        hit = [tu for tu in targets if tu in lm.can_cb]
                        if hit:
                            path = lm.witness_path(hit[0], lambda x: bool(lm.direct_cb[x]))
                            obs.append(bad('LOCK-a', key,
                                           'call reaches a callback site while %s guard is live: %s' % (held, ' -> '.join(path)),
                                           c.where(), body=body.name, bb=b, path=path))
                        else:
                            obs.append(ok('LOCK-a', key, 'call with %s guard live reaches no callback site' % held, c.where()))
                if 'b' in want:
                    key = _site_key('LOCK-b', c, live, gf, ordinal)
                    if prog.is_lock_call(c):
                        obs.append(bad('LOCK-b', key, 'nested lock acquisition while %s guard is live' % held, c.where(), body=body.name, bb=b))
                    else:
                        hit = [tu for tu in targets if tu in lm.can_lock]
                        if hit:
                            path = lm.witness_path(hit[0], lambda x: bool(lm.direct_lock[x]))
                            obs.append(bad('LOCK-b', key, 'call reaches a lock acquisition while %s guard is live: %s' % (held, ' -> '.join(path)),
                                           c.where(), body=body.name, bb=b, path=path))
                        else:
                            obs.append(ok('LOCK-b', key, 'call with %s guard live reaches no lock acquisition' % held, c.where()))
                if 'c' in want:
                    key = _site_key('LOCK-c', c, live, gf, ordinal)
                    # own panic site at this terminator?
                    own = [o for o in lm.undischarged.get(body.name, []) if o.witness.get('bb') == b]
                    hit = [tu for tu in targets if tu in lm.can_panic]
                    if own:
                        obs.append(bad('LOCK-c', key, 'undischarged panic site (%s) inside the %s guard-live region: a panic here poisons the mutex'
                                       % (own[0].witness.get('callee'), held), c.where(), body=body.name, bb=b))
                    elif hit:
                        path = lm.witness_path(hit[0], lambda x: prog.by_id[x].name in lm.undischarged)
                        obs.append(bad('LOCK-c', key, 'call inside the %s guard-live region reaches an undischarged panic site: %s' % (held, ' -> '.join(path)),
                                       c.where(), body=body.name, bb=b, path=path))
                    elif prog.is_callback(c):
                        pass  # reported by LOCK-a
                    else:
                        obs.append(ok('LOCK-c', key, 'no engine panic site at / below this call inside the %s guard-live region' % held, c.where()))
            elif t['k'] == 'assert' and 'c' in want:
                own = [o for o in lm.undischarged.get(body.name, []) if o.witness.get('bb') == b]
                held = '+'.join(sorted(gf.cls(l) for l in live))
                key = 'LOCK-c|%s|assert:%s|held=%s|bb-ordinal' % (body.name, t['kind'], held)
                if own:
                    obs.append(bad('LOCK-c', key, 'Assert(%s) inside the %s guard-live region' % (t['kind'], held), body.where(b), body=body.name, bb=b))
    return obs, n_sites


def rule_once(lm):
    """the once-closure holds the pseudo-guard ONCE: no callback below it, and it never reaches
    the function that runs it (self-deadlock)"""
    prog = lm.prog
    obs = []
    for clo, c in lm.once_closures:
        key = 'LOCK-a|once|%s' % clo.name
        reach = prog.reach([clo.id])
        cb = [x for x in reach if lm.direct_cb[x]]
        owner = c.body.id
        if cb:
            path = lm.witness_path(clo.id, lambda x: bool(lm.direct_cb[x]))
            obs.append(bad('LOCK-a', key, 'callback reachable inside the once-initialiser (ONCE held): %s' % ' -> '.join(path), clo.where(), path=path))
        elif owner in reach:
            obs.append(bad('LOCK-b', key, 'the once-initialiser re-enters the function that runs it (%s): once primitives are not re-entrant' % c.body.name, clo.where()))
        else:
            obs.append(ok('LOCK-a', key, 'once-initialiser of %s reaches no callback and does not re-enter its owner (%d bodies below it)' % (c.body.name, len(reach)), clo.where()))
    return obs


def rule_escape(lm):
    prog = lm.prog
    obs = []
    G = ('MutexGuard<', 'RwLockReadGuard<', 'RwLockWriteGuard<')
    n_acq = 0
    for b in prog.bodies:
        sig = b.sig
        if sig and any(g in sig for g in G):
            in_params = any(any(g in b.locals[k]['ty'] for g in G) for k in range(1, b.arg_count + 1))
            in_ret = any(g in b.locals[0]['ty'] for g in G)
            if in_ret and not in_params and not b.is_pub and not b.is_closure:
                # a private acquisition helper (`fn entries(&self) -> MutexGuard<..>`): the guard is born in the caller
                # at the call (GuardFlow keys on the destination's type), exactly like `lock().unwrap()` itself
                n_acq += 1
                continue
            obs.append(bad('ESCAPE', 'ESCAPE|sig|%s' % b.name, 'a lock guard appears in the signature of %s (%s): guard liveness is no longer intraprocedural' % (b.name, 'parameter' if in_params else 'result of a public function'), b.where()))
    for s in prog.f.statics:
        if 'Guard<' in s['ty']:
            obs.append(bad('ESCAPE', 'ESCAPE|static|%s' % s['name'], 'static holds a lock guard', ''))
    for n in lm.guard_adts:
        obs.append(bad('ESCAPE', 'ESCAPE|adt|%s' % n, 'type %s stores a lock guard in a field' % n, ''))
    for b in prog.bodies:
        for c in b.live_calls:
            if c.callee in ('std::mem::forget', 'std::mem::ManuallyDrop::<T>::new', 'std::boxed::Box::<T>::leak') and any('Guard<' in t for t in c.term['arg_tys']):
                obs.append(bad('ESCAPE', 'ESCAPE|leak|%s' % b.name, 'a lock guard is leaked / forgotten (never released)', c.where()))
    if not obs:
        obs.append(ok('ESCAPE', 'ESCAPE|none', 'no lock guard in any signature (%d bodies), static (%d) or ADT field (%d ADTs); none forgotten'
                      % (len(prog.bodies), len(prog.f.statics), len(prog.f.adts))))
    return obs


def rule_floors(lm):
    prog = lm.prog
    n_lock = sum(len(v) for v in lm.direct_lock.values())
    n_handler = len([1 for c, k in prog.handler_sites('handler')])
    return [
        floor('LOCK', 'lock-sites', n_lock, 6, 'one acquisition per registry getter/setter, descriptor store and context is necessary'),
        floor('LOCK', 'handler-call-sites', n_handler, 5, 'function, context function, prefix, infix, postfix handlers must each be invoked somewhere'),
        floor('LOCK', 'once-closures', len(lm.once_closures), 1, 'the built-in tables are filled inside a once primitive'),
    ]


def rule_notry(lm, classes=('REGISTRY', 'CONTEXT', 'DESCRIPTOR')):
    """engine locks are acquired blockingly: a failed try_lock is indistinguishable from "nothing
    registered" / "no such variable" """
    obs = []
    n = 0
    for b in lm.prog.bodies:
        for c in b.live_calls:
            if c.callee in ('std::sync::Mutex::<T>::try_lock', 'std::sync::RwLock::<T>::try_read', 'std::sync::RwLock::<T>::try_write') and guard_class(c.term['dest']['ty']) in classes:
                n += 1
                obs.append(bad('NOTRY', 'NOTRY|%s|%s' % (b.name, c.callee.split('::')[-1]), '%s on a %s lock in %s: under contention the lookup / update silently behaves as if the entry were absent' % (c.callee.split('::')[-1], guard_class(c.term['dest']['ty']), b.name), c.where(), body=b.name, bb=c.bb))
    if n == 0:
        obs.append(ok('NOTRY', 'NOTRY|none', 'no try_lock / try_read / try_write on a %s lock (%d lock sites are blocking)' % ('/'.join(classes), sum(len(v) for v in lm.direct_lock.values()))))
    return obs
