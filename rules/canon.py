"""Path canonicalisation: the rules name a handful of engine types by the module paths they have in the pinned tree
(`parser::ExprAST`, `value::Value`, `context::Context`, `error::Error`, ...).  Those paths are not part of the
crate's public API: moving `ExprAST` into `ast.rs`, or `impl ExprAST { fn exec }` into `eval.rs`, changes every one of
them without changing behaviour.  Before the facts are handed to the rules, the actual paths are therefore found by
ROLE — from the signatures of the public API (`parse_expression`, `execute`, `register_infix_op`), from field types
and from the statics — and rewritten to the canonical spelling.  Nothing is matched by source text."""
import json, re


def _path(ty):
    m = re.match(r"^(?:&(?:'\w+ )?(?:mut )?)?([\w:]+)", ty or '')
    return m.group(1) if m else None


def _result_parts(ty):
    m = re.match(r"^std::result::Result<([\w:]+)(?:<.*?>)?, ([\w:]+)>$", ty or '')
    return (m.group(1), m.group(2)) if m else (None, None)


def discover(j):
    """{actual path: canonical path} for the engine's key types"""
    bodies = {b['name']: b for b in j['bodies']}
    adts = {a['name']: a for a in j['adts']}
    out = {}

    def want(actual, canonical):
        if actual and actual != canonical and '::' in actual and not actual.startswith(('std::', 'core::', 'alloc::', 'rust_decimal::', 'once_cell::')):
            out[actual] = canonical

    pe, ex, ri = bodies.get('parse_expression'), bodies.get('execute'), bodies.get('register_infix_op')
    expr = value = error = context = None
    if pe:
        expr, error = _result_parts(pe['locals'][0]['ty'])
        want(expr, 'parser::ExprAST')
        want(error, 'error::Error')
    if ex:
        value, e2 = _result_parts(ex['locals'][0]['ty'])
        want(value, 'value::Value')
        if ex['arg_count'] >= 2:
            context = _path(ex['locals'][2]['ty'])
            want(context, 'context::Context')
    if ri and ri['arg_count'] >= 4:
        want(_path(ri['locals'][3]['ty']), 'operator::InfixOpType')
        want(_path(ri['locals'][4]['ty']), 'operator::InfixOpAssociativity')
    if expr in adts:
        for v in adts[expr]['variants']:
            if v['name'] == 'Literal' and v['fields']:
                want(_path(v['fields'][0]['ty']), 'parser::Literal')
    if context in adts:
        for v in adts[context]['variants']:
            for f in v['fields']:
                m = re.search(r'HashMap<std::string::String, ([\w:]+)', f['ty'])
                if m:
                    want(m.group(1), 'context::ContextValue')
    # tokenizer / token / parser / span / delimiter type
    tok = None
    for a in adts.values():
        for v in a['variants']:
            if any(f['ty'].startswith('std::str::CharIndices<') for f in v['fields']):
                tok = a['name']
    if tok and not any(b['arg_count'] == 1 and b['locals'][1]['ty'].startswith('&mut ' + tok) and _result_parts(b['locals'][0]['ty'])[0] in adts
                       for b in j['bodies']):
        # the scanning state (input + char iterator) is a private struct nested in the tokenizer proper: the tokenizer is
        # the one struct that owns it and produces tokens
        owners = [a['name'] for a in adts.values() if a['name'] != tok and len(a['variants']) == 1
                  and any(_path(f['ty']) == tok for f in a['variants'][0]['fields'])]
        owners = [o for o in owners if any(b['arg_count'] == 1 and b['locals'][1]['ty'].startswith('&mut ' + o) and _result_parts(b['locals'][0]['ty'])[0] in adts for b in j['bodies'])]
        if len(owners) == 1:
            tok = owners[0]
    want(tok, 'tokenizer::Tokenizer')
    token = None
    if tok:
        for b in j['bodies']:
            if b['arg_count'] == 1 and b['locals'][1]['ty'].startswith('&mut ' + tok):
                t, e = _result_parts(b['locals'][0]['ty'])
                if t in adts and len(adts[t]['variants']) > 3:
                    token = t
        for a in adts.values():
            if a['name'] != tok and any(_path(f['ty']) == tok for v in a['variants'] for f in v['fields']) and len(a['variants']) == 1:
                want(a['name'], 'parser::Parser')
    want(token, 'token::Token')
    if token in adts:
        for v in adts[token]['variants']:
            if v['name'] == 'Delim' and v['fields']:
                want(_path(v['fields'][0]['ty']), 'token::DelimTokenType')
            if len(v['fields']) == 2:
                sp = _path(v['fields'][1]['ty'])
                if sp in adts:
                    want(sp, 'token::Span')
    # registry value records and the descriptor store, from the statics
    for s in j['statics']:
        ty = s.get('ty', '')
        m = re.search(r'HashMap<std::string::String, ([\w:]+)', ty)
        if m and m.group(1) in adts and m.group(1) != out.get(m.group(1), m.group(1)) is False:
            pass
        if m and m.group(1) in adts and m.group(1) not in (context,):
            fields = ' '.join(f['ty'] for v in adts[m.group(1)]['variants'] for f in v['fields'])
            if 'dyn std::ops::Fn' in fields or 'Fn(' in fields:
                want(m.group(1), 'operator::InfixOpConfig')
        m2 = re.search(r'HashMap<([\w:]+), ([\w:]+)', ty)
        if m2 and m2.group(1) in adts and m2.group(2) in adts:
            want(m2.group(1), 'descriptor::DescriptorKey')
            want(m2.group(2), 'descriptor::Descriptor')
    return out


_IMPL_IN_OTHER_MODULE = re.compile(r"(?<![\w:<])(?:\w+::)+<impl ([\w:]+)(<[^<>]*>)?>::")


def canonicalise(text):
    """returns (text', mapping)"""
    j = json.loads(text)
    mp = discover(j)
    # methods whose impl block lives in another module than the type: `eval::<impl ast::ExprAST<'a>>::exec`
    local = {a['name'] for a in j['adts']}
    def fix_impl(m):
        if m.group(1) not in local:
            return m.group(0)          # `core::str::<impl str>::len`, `core::num::<impl i64>::..`: not ours
        return '%s::%s' % (m.group(1), (m.group(2) + '::') if m.group(2) else '')
    text2 = _IMPL_IN_OTHER_MODULE.sub(fix_impl, text)
    for actual in sorted(mp, key=len, reverse=True):
        text2 = re.sub(r'(?<![\w:])' + re.escape(actual) + r'(?![\w])', mp[actual], text2)
    return text2, mp
