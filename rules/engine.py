"""Obligations, known findings, evidence.  A rule is a function  ctx -> [Ob]."""
import json, os, time, sys

VERIF = os.path.dirname(os.path.dirname(os.path.abspath(__file__)))


class Ob:
    """one obligation: rule instance + verdict"""
    __slots__ = ('rule', 'key', 'status', 'what', 'where', 'witness', 'ext')

    def __init__(self, rule, key, status, what, where='', witness=None, ext=False):
        assert status in ('discharged', 'violated', 'assumed')
        self.rule = rule
        self.key = key          # stable identity, no line numbers
        self.status = status
        self.what = what        # human text: the rule applied to this instance and the outcome
        self.where = where      # file:line, for the reader only
        self.witness = witness or {}
        self.ext = ext          # thorough-only (extension) rule

    def to_json(self):
        return {'rule': self.rule, 'key': self.key, 'status': self.status, 'what': self.what,
                'where': self.where, 'witness': self.witness}


def ok(rule, key, what, where='', **w):
    return Ob(rule, key, 'discharged', what, where, w)

def bad(rule, key, what, where='', **w):
    return Ob(rule, key, 'violated', what, where, w)

def assumed(rule, key, what, where='', **w):
    return Ob(rule, key, 'assumed', what, where, w)


def floor(rule, name, measured, minimum, what):
    """non-vacuity floor: a role / instance count that is necessary for the engine to work"""
    key = '%s|floor|%s' % (rule, name)
    if measured >= minimum:
        return ok(rule, key, 'floor %s: measured %d >= %d (%s)' % (name, measured, minimum, what))
    return bad(rule, key, 'anchor lost: %s: measured %d < required %d (%s)' % (name, measured, minimum, what))


def load_known():
    p = os.path.join(VERIF, 'known_findings.json')
    if not os.path.exists(p):
        return {'findings': [], 'fixed': []}
    with open(p) as f:
        return json.load(f)


def known_keys(prop):
    k = load_known()
    out = {}
    for e in k.get('findings', []):
        if prop in e.get('properties', [e.get('property')]):
            out[e['key']] = e
    return out


def covers(first, second):
    """a second reading may replace the first only if it decides every obligation the first one found violated
    (same identity up to ordinals): a reading that no longer *sees* a site must not count as a proof"""
    import re as _re
    # (a closure swallowed by a view hands its obligations to the enclosing body)
    norm = lambda k: _re.sub(r'(::\{closure#\d+\})+|(#\d+|bb-ord\d+|bb\d+)', '', k)
    have = {norm(o.key) for o in second}
    return all(norm(o.key) in have for o in first if o.status == 'violated' and 'anchor' not in o.key and 'floor' not in o.key)
