"""C02 structural clauses: WUNARY, WTERN, WGATE (TPREC lives in r_table)."""
import re
from facts import op_local, op_place, op_const_int, Call
from analysis import (defuse, trace_operand, trace_local, single_origin, Origin, TRANSPARENT_CALLS, trace_operand_at)
from engine import ok, bad, assumed, floor
from r_panic import edge_dominates, switch_edges
import r_parse

AST = 'parser::ExprAST'


def builders(roles, variant, const_op=None):
    """parser bodies that build ExprAST::<variant> (with a non-constant operator unless const_op)"""
    out = []
    for b in roles.parse_bodies:
        for bb, i, pl, rv in b.assigns():
            if rv['k'] == 'agg' and rv.get('adt') == AST and rv.get('variant') == variant:
                o = single_origin(trace_operand(b, rv['ops'][0])) if rv['ops'] else None
                is_const = o is not None and o.kind == 'const'
                if variant in ('Unary', 'Binary') and is_const and not const_op:
                    continue
                out.append((b, bb, rv))
    return out


def rule_wunary(roles):
    """a prefix operator's operand never reaches the infix loop without crossing an opening
    delimiter: prefix binds tighter than every infix operator"""
    prog = roles.prog
    obs = []
    infix = {b.id for b, bb, rv in builders(roles, 'Binary')}
    prefix = [(b, bb) for b, bb, rv in builders(roles, 'Unary')]
    postfix = [(b, bb, rv) for b, bb, rv in builders(roles, 'Postfix')]
    delim = {b.id for (b, bb, sub) in r_parse.paren_bodies(roles)}
    for v in r_parse.CLOSERS:
        for b in roles.parse_bodies:
            if r_parse._ok_agg_blocks(b, v):
                delim.add(b.id)
    obs.append(floor('WUNARY', 'infix-loop', len(infix), 1, 'a body builds Binary nodes'))
    obs.append(floor('WUNARY', 'prefix-builder', len(prefix), 1, 'a body builds Unary nodes from an operator token'))
    pids = {p.id for p in roles.parse_bodies}
    for b, bb in prefix:
        key = 'WUNARY|%s' % b.name
        # operand = the sub-parse call whose Ok payload goes (boxed) into the Unary node
        callees = {c.ruid for c in b.live_calls if c.ruid in pids}
        reach = set()
        st = list(callees)
        while st:
            x = st.pop()
            if x in reach or x in delim:
                continue
            reach.add(x)
            st.extend(y for y in prog.edges[x] if y in pids)
        hit = reach & infix
        if hit:
            obs.append(bad('WUNARY', key, 'the operand of a prefix operator is parsed through the infix loop (%s) without an intervening opening delimiter: `-a * b` groups as -(a * b)' % ', '.join(prog.by_id[x].name.split('::')[-1] for x in hit), b.where(bb), body=b.name, bb=bb))
        else:
            obs.append(ok('WUNARY', key, 'the prefix operand is a primary expression: every call path from here to the infix loop crosses a body that consumes an opening delimiter (%d bodies explored)' % len(reach), b.where(bb)))
    for b, bb, rv in postfix:
        key = 'WUNARY|postfix|%s' % b.name
        # the postfix operand is parsed before the operator is seen: its parse call must not be the infix loop
        os_ = list(trace_operand(b, rv['ops'][0], through_calls=set(TRANSPARENT_CALLS) | {'std::boxed::Box::<T>::new'}))
        if len(os_) == 1 and os_[0].kind == 'callres' and (os_[0].data.callee or '').endswith('Box::<T>::new'):
            os_ = list(trace_operand(b, os_[0].data.args[0], through_calls=set(TRANSPARENT_CALLS)))
        # the operand may be the primary just parsed, or that primary wrapped by tighter-binding forms built right here
        # (`xs -> 0 -> 1 ++`: an access node around the primary); every alternative must be primary-level
        if len(os_) == 1 and os_[0].kind == 'param' and not os_[0].proj and not b.is_closure:
            # `fn parse_postfix(&mut self, operand: ExprAST)`: the operand is what every caller hands in
            oid = getattr(b, 'orig_id', b.id)
            sites = [c for cid in prog.callers.get(oid, ()) for c in prog.edge_sites.get((cid, oid), [])]
            handed = []
            for c in sites:
                if os_[0].data - 1 < len(c.args):
                    handed += list(trace_operand(c.body, c.args[os_[0].data - 1], through_calls=set(TRANSPARENT_CALLS)))
                else:
                    handed.append(os_[0])
            if sites and all(x.kind == 'callres' and x.data.ruid in pids for x in handed):
                os_ = handed
        prim = [x for x in os_ if x.kind == 'callres' and x.data.ruid in pids and not x.proj[2:]]
        wraps = [x for x in os_ if x.kind == 'agg' and x.data[2].get('adt') == AST and x.data[2].get('variant') not in ('Binary', 'Ternary', 'Unary', 'Stmt')]
        o = prim[0] if prim and len(prim) + len(wraps) == len(os_) and len({x.data.ruid for x in prim}) == 1 else None
        if o is not None and o.kind == 'callres' and o.data.ruid in pids:
            reach = set()
            st = [o.data.ruid]
            while st:
                x = st.pop()
                if x in reach or x in delim:
                    continue
                reach.add(x)
                st.extend(y for y in prog.edges[x] if y in pids)
            if reach & infix:
                obs.append(bad('WUNARY', key, 'a postfix operator is applied to a whole infix expression', b.where(bb), body=b.name, bb=bb))
            else:
                obs.append(ok('WUNARY', key, 'a postfix operator applies to the primary expression just parsed (tighter than prefix and infix)', b.where(bb)))
        else:
            obs.append(bad('WUNARY', key, 'cannot identify the operand of the postfix operator', b.where(bb), body=b.name, bb=bb))
    return obs


def _infix_loop(roles):
    bs = builders(roles, 'Binary')
    # the body that both builds Binary nodes and re-enters itself with a precedence (on a view the builder may
    # have been inlined into several bodies)
    for b, *_ in bs:
        if _minprec_param(b)[0] is not None and b.sccs():
            return b
    return bs[0][0] if bs else None


def _minprec_param(body):
    """index of the integer parameter that is the minimum precedence: the one a recursive
    self-call passes a non-constant value for"""
    for c in body.live_calls:
        if c.ruid == getattr(body, 'orig_id', body.id):
            for k in range(1, body.arg_count):
                if re.match(r'^(i|u)(8|16|32|64|size)$', body.locals[k + 1]['ty']):
                    return k + 1, c
    return None, None


def _cmp_of_switch(body, sb):
    """(op, a operand, b operand, {target: truth}) for a switch on an integer comparison"""
    t = body.blocks[sb]['term']
    if t['k'] != 'switch':
        return None
    du = defuse(body)
    l = op_local(t['discr'])
    parity = 0
    for _ in range(6):
        defs = du.defs.get(l, []) if l is not None else []
        if len(defs) != 1 or defs[0][2] != 'assign':
            return None
        rv = defs[0][3]
        if rv['k'] == 'use':
            l = op_local(rv['op']); continue
        if rv['k'] == 'unop' and rv['op'] == 'Not':
            parity ^= 1; l = op_local(rv['a']); continue
        if rv['k'] == 'binop' and rv['op'] in ('Lt', 'Le', 'Gt', 'Ge') and re.match(r'^(i|u)(8|16|32|64|size)$', rv.get('aty', '')):
            listed = [v for v, _ in t['targets']]
            m = {}
            for v, tb in switch_edges(body, sb):
                tv = (1 if listed == [0] else 0 if listed == [1] else None) if v == 'otherwise' else (1 if v != 0 else 0)
                if tv is not None:
                    m[tb] = tv ^ parity
            return rv['op'], rv['a'], rv['b'], m, defs[0][0]
        return None
    return None


def rule_wtern(roles):
    """`?` is handled only at the outermost level: if the infix loop is re-entered with a non-zero
    minimum precedence, the branch that builds Ternary must be control-dependent on that minimum"""
    obs = []
    tb = builders(roles, 'Ternary')
    if not tb:
        return [bad('WTERN', 'WTERN|anchor', 'anchor lost: no parser body builds Ternary nodes')]
    for b, bb, rv in tb:
        key = 'WTERN|%s' % b.name
        k, rc = _minprec_param(b)
        if k is None:
            obs.append(ok('WTERN', key, 'the body that builds the conditional is not re-entered with a minimum precedence', b.where(bb)))
            continue
        # a comparison / test reading parameter k whose edge dominates the Ternary construction
        good = False
        any_gate = False
        for sb in sorted(b.live_blocks):
            t = b.blocks[sb]['term']
            if t['k'] != 'switch':
                continue
            cmpi = _cmp_of_switch(b, sb)
            reads = False
            builds_at = None       # predicate on the minimum precedence: is the conditional built on the dominating edge?
            dom = [x for v, x in switch_edges(b, sb) if edge_dominates(b, sb, x, bb)]
            if cmpi:
                sides = []
                for side in (cmpi[1], cmpi[2]):
                    o = single_origin(trace_operand(b, side))
                    if o is not None and o.kind == 'param' and o.data == k:
                        reads = True
                        sides.append('p')
                    else:
                        c = op_const_int(side)
                        if c is None and o is not None and o.kind == 'const' and not o.proj and isinstance(o.data, dict):
                            c = o.data.get('int')
                        sides.append(c)
                if reads and dom and sides.count('p') == 1 and None not in sides and dom[0] in cmpi[3]:
                    truth = cmpi[3][dom[0]]
                    f = {'Lt': lambda x, y: x < y, 'Le': lambda x, y: x <= y, 'Gt': lambda x, y: x > y, 'Ge': lambda x, y: x >= y}[cmpi[0]]
                    builds_at = lambda v, f=f, sides=sides, truth=truth: int(f(*(v if z == 'p' else z for z in sides))) == truth
            else:
                o = single_origin(trace_operand(b, t['discr']))
                if o is not None and o.kind == 'param' and o.data == k:
                    reads = True
                    if dom:
                        vals = [v for v, x in t['targets'] if x == dom[0]]
                        if dom[0] != t['otherwise'] and vals:
                            builds_at = lambda v, vals=vals: v in vals
            if reads and dom:
                any_gate = True
                # the conditional is looser than *every* infix operator: it is built at the outermost level (minimum 0)
                # and never below an operator, whatever positive right binding power that operator recursed with
                if builds_at is not None and builds_at(0) and not any(builds_at(v) for v in (1, 2, 3, 39, 41, 10 ** 9, 2 * 10 ** 9 + 1)):
                    good = True
        if not good and any_gate:
            obs.append(bad('WTERN', key, 'the conditional is built behind a test of the minimum precedence that does not confine it to the outermost level (minimum 0): it is compared like an operator with a level of its own, so an operator recursing with a lower right binding power (an assignment) takes the conditional into its right operand: `a = b + 1 ? 4 : 2` groups as a = ((b + 1) ? 4 : 2)', b.where(bb), body=b.name, bb=bb))
            continue
        if good:
            obs.append(ok('WTERN', key, 'the conditional is built only on an edge of a test of the minimum precedence (parameter %d): an operand of a tighter operator leaves `?` to the outermost level' % k, b.where(bb)))
        else:
            obs.append(bad('WTERN', key, 'the infix loop builds the conditional regardless of the minimum precedence it was entered with: `5 < 2+3 ? 4 : 2` groups as 5 < ((2+3) ? 4 : 2)', b.where(bb), body=b.name, bb=bb))
    return obs


def _not_tests(prog):
    """bool predicates that (transitively) compare a string with the constant "not": ids -> True if the body *is* a
    pure not-test (its only string comparison is with "not" and it consults no registry)"""
    from facts import op_const_str
    direct = set()
    for g in prog.bodies:
        for c in g.live_calls:
            if (c.callee or '') in ('std::cmp::PartialEq::eq', 'std::cmp::PartialEq::ne') and len(c.args) == 2:
                for a in c.args:
                    sv = op_const_str(a)
                    if sv is None:
                        o = single_origin(trace_operand(g, a, through_calls=set()))
                        sv = op_const_str(o.data) if o is not None and o.kind == 'const' and isinstance(o.data, dict) else None
                    if sv == 'not':
                        direct.add(g.id)
    out = {}
    for g in prog.bodies:
        if g.locals[0]['ty'] != 'bool':
            continue
        r = _reach_with_bound_fn_args(prog, g.id)
        if r & direct:
            out[g.id] = not any(_locks_registry(prog, bid) for bid in r)
    return out


def _locks_registry(prog, bid):
    from analysis import LOCK_CALLS, guard_class
    for c in prog.by_id[bid].live_calls:
        if (c.callee in LOCK_CALLS or (c.ruid is not None and c.ruid in getattr(prog, 'acq_helpers', ()))) and guard_class(c.term['dest']['ty']) == 'REGISTRY':
            return True
    return False


def _reach_with_bound_fn_args(prog, root):
    """bodies reachable from root, where an indirect call through a `fn(..)` parameter inside a helper reaches only the
    fn items handed in at the call site the helper was entered through (`self.is_operator_where(keyword::is_not)` reaches
    `is_not`, not every predicate some other caller passes)"""
    out = set()
    seen = set()
    st = [(root, None)]
    while st:
        bid, allowed = st.pop()
        if (bid, allowed) in seen or bid not in prog.by_id:
            continue
        seen.add((bid, allowed))
        out.add(bid)
        b = prog.by_id[bid]
        handled = set()
        for c in b.live_calls:
            if c.ruid in prog.by_id:
                fns = set()
                for a in c.args:
                    o = single_origin(trace_operand(b, a, through_calls=set()))
                    if o is not None and o.kind == 'const' and isinstance(o.data, dict) and o.data.get('fn') and o.data['fn'].get('uid') in prog.by_id:
                        fns.add(o.data['fn']['uid'])
                    elif o is not None and o.kind == 'agg' and o.data[2].get('agg') == 'closure' and o.data[2]['closure'] in prog.by_id:
                        fns.add(o.data[2]['closure'])
                st.append((c.ruid, frozenset(fns) if fns else None))
                handled.add(c.ruid)
                handled |= fns
            elif c.is_indirect or (bid, c.bb) in getattr(prog, 'generic_cb_targets', {}):
                tg = list(prog.resolved_indirect.get((bid, c.bb), [])) + list(getattr(prog, 'generic_cb_targets', {}).get((bid, c.bb), []))
                handled |= set(tg)
                if allowed is not None:
                    tg = [t for t in tg if t in allowed]
                for t in tg:
                    st.append((t, None))
        for y in prog.edges.get(bid, ()):
            if y not in handled:
                st.append((y, None))
    return out


def rule_wnot_lookup(roles):
    """`x not OP y`: OP keeps its own precedence, so the binding power looked up for a `not` at the cursor must be the
    one of the operator *after* it.  The generic "binding power of the current token" lookup answers "not an infix
    operator" for `not`; a call of it must therefore not sit behind a guard that lets `not` through (a predicate that
    itself tests for `not` and consults the registry) unless the false edge of a pure not-test also dominates it."""
    prog = roles.prog
    obs = []
    nt = _not_tests(prog)
    if not any(nt.values()):
        return [assumed('WNOT-L', 'WNOT-L|none', 'no pure test for the `not` keyword found: not decided')]
    pf = set(pair_functions(prog))
    pids = {p.id for p in roles.parse_bodies}
    n = 0
    pb_ids = {getattr(p, 'orig_id', p.id) for p in roles.parse_bodies}
    helpers = [prog.by_id[i] for i in sorted(roles.reach) if i in prog.by_id and i not in pb_ids and not prog.by_id[i].is_closure]
    for b in list(roles.parse_bodies) + helpers:
        for c in b.live_calls:
            g = prog.by_id.get(c.ruid) if c.ruid else None
            # the lookup for the token at the cursor: a parser method without a key argument that returns a pair and does not look ahead
            if g is None or g.id not in pf or len(c.args) != 1 or g.arg_count != 1:
                continue
            strip = lambda ty: re.sub(r"^&('\w+ )?(mut )?", '', ty)
            if b.arg_count < 1 or strip(g.locals[1]['ty']) != strip(b.locals[1]['ty']):
                continue
            if roles.token_next is not None and roles.token_next.id in prog.reach([g.id]):
                continue        # looks ahead (`negated_op_precidence` peeks at the token after `not`): not the lookup for the cursor
            n += 1
            key = 'WNOT-L|%s|bb-ord%d' % (b.name, len([o for o in obs if o.key.startswith('WNOT-L|%s|' % b.name)]))
            excluded = False
            lets_through = None
            for sb, kind, detail in gates_of(b, c.bb):
                if kind != 'pred' or detail.ruid is None or detail.ruid not in nt:
                    continue
                src = bool_source_truth(b, sb, c.bb)
                if src is None:
                    continue
                if nt[detail.ruid] and src == 0:
                    # ... about the token that is still at the cursor at the lookup: no advance between the test and the site
                    tf = r_parse.TokenFacts(roles, b)
                    t_ = b.blocks[sb]['term']
                    tgt = [x for v, x in switch_edges(b, sb) if edge_dominates(b, sb, x, c.bb)]
                    stale = False
                    for x in tgt:
                        fwd = b.reachable_from(x, avoid={sb})
                        for kb in tf.kill:
                            if kb in fwd and kb != c.bb and any(c.bb in b.reachable_from(y, avoid={sb}) for y in b.succ[kb]):
                                stale = True
                    if not stale:
                        excluded = True
                elif not nt[detail.ruid] and src == 1:
                    lets_through = detail
            if lets_through is not None and not excluded:
                obs.append(bad('WNOT-L', key, 'the binding power of the token at the cursor is looked up behind %s, which also accepts the `not` of `x not OP y`: for `not` the lookup answers "no infix operator", so the right operand is not extended over `not OP` (`true && 3 not in [3]` groups as not((true && 3) in [3]))'
                               % (lets_through.rdef or lets_through.callee or '?').split('::')[-1], c.where(), body=b.name, bb=c.bb))
            else:
                obs.append(ok('WNOT-L', key, 'the lookup of the current token\'s binding power is not reached through a guard that lets `not` through' + (' (the false edge of the not-test dominates it)' if excluded else ''), c.where()))
    if n == 0:
        obs.append(assumed('WNOT-L', 'WNOT-L|none', 'no key-less binding-power lookup for the current token in the parser: not decided'))
    return obs


def bool_source_truth(b, sb, target_bb):
    """the truth value of the predicate call deciding switch sb on the edge that dominates target_bb (None if no single
    edge dominates or the switch is not on a plain (possibly negated) call result)"""
    from r_panic import bool_source
    t = b.blocks[sb]['term']
    src = bool_source(b, t['discr'])
    if src is None:
        return None
    tc, parity = src
    listed = [v for v, _ in t['targets']]
    for v, x in switch_edges(b, sb):
        if not edge_dominates(b, sb, x, target_bb):
            continue
        if v == 'otherwise':
            tv = 1 if listed == [0] else 0 if listed == [1] else None
        else:
            tv = 1 if v != 0 else 0
        if tv is not None:
            return tv ^ parity
    return None


def rule_wtern_right(roles):
    """the conditional nests to the right: its else branch is parsed by a body that can itself produce a conditional
    without crossing an opening delimiter (`a ? x : b ? y : z` = `a ? x : (b ? y : z)`); an else branch parsed one level
    below (operators only) makes the chain nest to the left"""
    prog = roles.prog
    obs = []
    tb = builders(roles, 'Ternary')
    tern_bodies = {b.id for b, bb, rv in tb}
    delim = {b.id for (b, bb, sub) in r_parse.paren_bodies(roles)}
    for v in r_parse.CLOSERS:
        for b in roles.parse_bodies:
            if r_parse._ok_agg_blocks(b, v):
                delim.add(b.id)
    pids = {p.id for p in roles.parse_bodies}
    for b, bb, rv in tb:
        key = 'WTERN-R|%s' % b.name
        if len(rv['ops']) != 3:
            continue
        o = single_origin(trace_operand(b, rv['ops'][2], through_calls=set(TRANSPARENT_CALLS) | {'std::boxed::Box::<T>::new'}))
        while o is not None and o.kind == 'callres' and (o.data.callee or '').endswith('Box::<T>::new'):
            o = single_origin(trace_operand(b, o.data.args[0], through_calls=set(TRANSPARENT_CALLS)))
        if o is None or o.kind != 'callres' or o.data.ruid not in pids:
            obs.append(bad('WTERN-R', key, 'cannot identify the parse call that produces the else branch of the conditional', b.where(bb), body=b.name, bb=bb))
            continue
        oid = getattr(b, 'orig_id', b.id)
        reach = set()
        st = [o.data.ruid]
        while st:
            x = st.pop()
            if x in reach or x in delim:
                continue
            reach.add(x)
            st.extend(y for y in prog.edges[x] if y in pids)
        if reach & (tern_bodies | {oid}):
            obs.append(ok('WTERN-R', key, 'the else branch is parsed by %s, from which the conditional builder is reachable without crossing an opening delimiter: chains nest to the right' % prog.by_id[o.data.ruid].name.split('::')[-1], b.where(bb)))
        else:
            obs.append(bad('WTERN-R', key, 'the else branch of the conditional is parsed by %s, which cannot produce a conditional except inside brackets: `a ? x : b ? y : z` groups as (a ? x : b) ? y : z' % prog.by_id[o.data.ruid].name.split('::')[-1], b.where(bb), body=b.name, bb=bb))
    return obs


def _pair_origin_kind(prog, body, op, at_bb, depth=0):
    """classify a binding-power value: ('L', calls) left power of the token at the cursor,
    ('R', calls) right power, ('P', k) the minimum-precedence parameter, ('C', v) constant"""
    origins = trace_operand_at(body, op, at_bb) if at_bb is not None else trace_operand(body, op)
    kinds = set()
    for o in origins:
        if o.kind == 'param' and not o.proj:
            kinds.add(('P', o.data))
        elif o.kind == 'const':
            kinds.add(('C', op_const_int(o.data)))
        elif o.kind == 'agg' and o.data[2]['agg'] == 'tuple' and o.proj and o.proj[-1][0] == 'f':
            v = op_const_int(o.data[2]['ops'][o.proj[-1][1]])
            kinds.add(('C', v))
        elif o.kind == 'callres' and o.data.ruid is not None and o.proj and o.proj[-1][0] == 'f':
            g = prog.by_id[o.data.ruid]
            if re.search(r'\((i32|i64), (i32|i64)\)', g.locals[0]['ty']):
                kinds.add(('L' if o.proj[-1][1] == 0 else 'R', g.name))
            else:
                kinds.add(('?', repr(o)))
        else:
            kinds.add(('?', repr(o)))
    return kinds


def pair_functions(prog):
    """bodies returning a (left, right) binding-power pair, with the structure of the pair"""
    out = {}
    for b in prog.bodies:
        if re.match(r'^(std::result::Result<|std::option::Option<)?\((i32|i64), (i32|i64)\)', b.locals[0]['ty']):
            out[b.id] = b
    return out


def parity_separated(prog):
    """in every body that *computes* a binding-power pair: left = 2*x (or x<<1), right in
    {left+1, left-1} or a constant <= 0; wrappers only forward such pairs or negative sentinels.
    Then a left power (even, > 0) never equals a right power (odd or <= 0)."""
    why = []
    pf = pair_functions(prog)
    if not pf:
        return False, 'no binding-power function found'
    for b in pf.values():
        for bb, i, pl, rv in b.assigns():
            if pl['l'] == 0 and rv['k'] == 'agg' and rv['agg'] == 'tuple' and len(rv['ops']) == 2 and not pl['p']:
                lo = trace_operand(b, rv['ops'][0])
                ro = trace_operand(b, rv['ops'][1])
                # a re-packed pair of another pair function (`let bp = self.get_bp(op); (bp.left, bp.right)`): forwarded, judged there
                fw = [o for o in list(lo) + list(ro)]
                if fw and all(o.kind == 'callres' and o.data.ruid in pf and o.data.ruid != b.id for o in fw) \
                        and all(o.proj[-1:] == (('f', 0),) for o in lo) and all(o.proj[-1:] == (('f', 1),) for o in ro) \
                        and {o.data.bb for o in lo} == {o.data.bb for o in ro}:
                    continue
                for o in lo:
                    if o.kind == 'const' and (op_const_int(o.data) or 0) < 0:
                        continue
                    if o.kind == 'const' and op_const_int(o.data) is not None and op_const_int(o.data) > 0 and op_const_int(o.data) % 2 == 0:
                        continue       # a reserved form with a fixed, even left power (`|>` at 60): same parity class as 2*p
                    if o.kind == 'binop' and o.data[2]['op'] in ('MulWithOverflow', 'Mul') and op_const_int(o.data[2]['b']) == 2:
                        continue
                    if o.kind == 'binop' and o.data[2]['op'] in ('Shl', 'ShlUnchecked') and op_const_int(o.data[2]['b']) == 1:
                        continue
                    return False, '%s: the left binding power is not 2*precedence (%r)' % (b.name, o)
                for o in ro:
                    if o.kind == 'const' and (op_const_int(o.data) or 0) <= 0:
                        continue
                    if o.kind == 'const' and op_const_int(o.data) is not None and op_const_int(o.data) % 2 == 1:
                        continue       # ... and a fixed, odd right power
                    if o.kind == 'binop' and o.data[2]['op'] in ('AddWithOverflow', 'SubWithOverflow', 'Add', 'Sub') and op_const_int(o.data[2]['b']) == 1:
                        # operand a must be the left power
                        if trace_operand(b, o.data[2]['a']) == lo:
                            continue
                    return False, '%s: the right binding power is not left +- 1 (%r)' % (b.name, o)
                why.append('%s: left = 2*p, right = left +- 1' % b.name.split('::')[-1])
        # wrappers: _0 assigned from a call to another pair function or through ? of one
    return bool(why), '; '.join(why)


def rule_wgate(roles):
    """the recursion gate and the callee's continuation test must be the same predicate, or differ
    only where the two binding powers are equal and equality is impossible (parity separation)"""
    prog = roles.prog
    b = _infix_loop(roles)
    if b is None:
        return [bad('WGATE', 'WGATE|anchor', 'anchor lost: infix loop')]
    k, rc = _minprec_param(b)
    key = 'WGATE|%s' % b.name
    if k is None:
        return [bad('WGATE', key, 'the infix loop does not re-enter itself with a minimum precedence: precedence climbing not recognisable', b.where(), body=b.name)]
    # X: the value passed as minimum precedence
    xk = _pair_origin_kind(prog, b, rc.args[k - 1], rc.bb)
    # gate: comparison whose edge dominates the recursive call
    gate = None
    for sb in sorted(b.live_blocks):
        ci = _cmp_of_switch(b, sb)
        if not ci:
            continue
        op, a, bb_, m, defbb = ci
        for tb, truth in m.items():
            if edge_dominates(b, sb, tb, rc.bb):
                ka = _pair_origin_kind(prog, b, a, defbb)
                kb = _pair_origin_kind(prog, b, bb_, defbb)
                gate = (op, ka, kb, truth, sb)
    # exit: comparison with the min-prec parameter on one side whose edge leads to `return Ok(lhs)`
    exitc = None
    for sb in sorted(b.live_blocks):
        ci = _cmp_of_switch(b, sb)
        if not ci:
            continue
        op, a, bb_, m, defbb = ci
        ka = _pair_origin_kind(prog, b, a, defbb)
        kb = _pair_origin_kind(prog, b, bb_, defbb)
        if ('P', k) in ka or ('P', k) in kb:
            for tb, truth in m.items():
                # the edge that returns without consuming
                calls_after = [c for c in b.live_calls if c.bb in b.reachable_from(tb) and roles.is_advance(c)]
                if not calls_after:
                    exitc = (op, ka, kb, truth, sb)
    if gate is None or exitc is None:
        return [bad('WGATE', key, 'cannot find the recursion gate / the continuation test of the infix loop (gate %s, exit %s)' % (gate is not None, exitc is not None), b.where(), body=b.name)]

    def norm(op, ka, kb, truth, want_first):
        """normalise to  first ⋈ second  with `first` of kind want_first; returns relation string among < <= > >="""
        rel = {'Lt': '<', 'Le': '<=', 'Gt': '>', 'Ge': '>='}[op]
        if not truth:
            rel = {'<': '>=', '<=': '>', '>': '<=', '>=': '<'}[rel]
        first_is_a = any(x[0] == want_first for x in ka)
        if not first_is_a:
            rel = {'<': '>', '<=': '>=', '>': '<', '>=': '<='}[rel]
        return rel
    # gate: recursion happens iff  Y rel_g X   (Y = left power of next token, X = right power passed down)
    rel_g = norm(gate[0], gate[1], gate[2], gate[3], 'L')
    # exit: returns iff Z rel_e MIN  => continues iff not(Z rel_e MIN)
    rel_e = norm(exitc[0], exitc[1], exitc[2], exitc[3], 'L')
    cont = {'<': '>=', '<=': '>', '>': '<=', '>=': '<'}[rel_e]
    l_side, o_side = (gate[1], gate[2]) if any(y[0] == 'L' for y in gate[1]) else (gate[2], gate[1])
    # the side compared with next.left is the very value handed to the recursive call (not `right - 1`, not another pair's power)
    shape_ok = all(x[0] in ('L', 'C') for x in l_side) and any(x[0] == 'R' for x in xk) and set(o_side) == set(xk)
    if not shape_ok:
        return [bad('WGATE', key, 'the gate does not compare the left binding power of the next operator with the right binding power handed to the recursive call (gate sides %s / %s, passed %s)' % (sorted(gate[1]), sorted(gate[2]), sorted(xk)), b.where(gate[4]), body=b.name)]
    if rel_g == cont:
        return [ok('WGATE', key, 'gate (recurse iff next.left %s right) and continuation (continue iff next.left %s minimum) are the same predicate' % (rel_g, cont), b.where(gate[4]))]
    strict = {'>': '>=', '<': '<='}
    if strict.get(rel_g) == cont or strict.get(cont) == rel_g:
        sep, why = parity_separated(prog)
        if sep:
            return [ok('WGATE', key, 'gate (recurse iff next.left %s right) and continuation (continue iff next.left %s minimum) differ only at equality, and a left binding power never equals a right one (%s)' % (rel_g, cont, why), b.where(gate[4]))]
        return [bad('WGATE', key, 'gate (recurse iff next.left %s right) and continuation (continue iff next.left %s minimum) disagree when the two binding powers are equal, and equality is reachable (%s): an operator registered at the adjacent precedence is neither delegated nor kept' % (rel_g, cont, why), b.where(gate[4]), body=b.name)]
    return [bad('WGATE', key, 'gate (recurse iff next.left %s right) contradicts the continuation test (continue iff next.left %s minimum)' % (rel_g, cont), b.where(gate[4]), body=b.name)]


def rule_wassoc(prog):
    """in the body that computes binding powers: right = left + 1 exactly when the registered
    associativity is LEFT, right = left - 1 exactly when it is RIGHT; no other condition (such as the
    precedence value or the operator name) decides the direction.  The associativity test may be an
    `==` on the enum or a match on its discriminant."""
    from r_panic import bool_source
    obs = []
    n = 0
    aadt = prog.f.adt_by_name.get('operator::InfixOpAssociativity')
    anames = [v['name'] for v in aadt['variants']] if aadt else []
    for b in pair_functions(prog).values():
        sites = []
        for bb, i, pl, rv in b.assigns():
            if rv['k'] == 'binop' and rv['op'] in ('AddWithOverflow', 'SubWithOverflow', 'Add', 'Sub') and op_const_int(rv['b']) == 1 and rv.get('aty') in ('i32', 'i64'):
                sites.append((bb, rv['op'].replace('WithOverflow', '')))
        if not sites:
            continue
        n += 1
        key = 'WASSOC|%s' % b.name
        problems = []
        for bb, op in sites:
            want = 'LEFT' if op == 'Add' else 'RIGHT'
            found = False
            for sb, kind, detail in gates_of(b, bb):
                t = b.blocks[sb]['term']
                if kind in ('try', 'option'):
                    continue
                if kind == 'pred':
                    tc = detail
                    nm = tc.rdef or tc.callee or ''
                    if nm.split('::')[-1] in ('is_err', 'is_ok', 'is_none', 'is_some'):
                        continue
                    if tc.callee in ('std::cmp::PartialEq::eq', 'std::cmp::PartialEq::ne') and tc.fn and all('InfixOpAssociativity' in a for a in tc.fn.get('args', [])[:2]):
                        consts = set()
                        for a in tc.args[:2]:
                            for o in trace_operand(b, a):
                                if o.kind == 'agg' and o.data[2]['agg'] == 'adt' and not o.data[2]['ops']:
                                    consts.add(o.data[2]['variant'])
                                elif o.kind == 'const':
                                    m = re.search(r'::(\w+)$', o.data.get('s', ''))
                                    if m:
                                        consts.add(m.group(1))
                        src = bool_source(b, t['discr'])
                        parity = src[1] if src else 0
                        truth = None
                        listed = [v for v, _ in t['targets']]
                        for v, x in switch_edges(b, sb):
                            if edge_dominates(b, sb, x, bb):
                                truth = (1 if listed == [0] else 0 if listed == [1] else None) if v == 'otherwise' else (1 if v != 0 else 0)
                        if truth is not None:
                            truth ^= parity ^ (1 if tc.callee.endswith('::ne') else 0)
                        if consts == {want} and truth == 1:
                            found = True
                        elif consts and truth == 0 and consts == (set(anames) - {want}):
                            found = found or len(anames) == 2
                        elif consts == {want} and truth == 0:
                            problems.append('%s 1 is taken when the associativity is NOT %s' % ('+' if op == 'Add' else '-', want))
                        continue
                    problems.append('the direction of the right binding power also depends on %s (bb%d)' % (nm.split('::')[-1] or 'a call', sb))
                    continue
                if kind == 'enum' and 'InfixOpAssociativity' in str(detail):
                    listed = {v for v, _ in t['targets']}
                    for v, x in switch_edges(b, sb):
                        if not edge_dominates(b, sb, x, bb):
                            continue
                        if v == 'otherwise':
                            rest = [anames[k] for k in range(len(anames)) if k not in listed]
                            vs = set(rest)
                        else:
                            vs = {anames[v]} if v < len(anames) else set()
                        if vs == {want}:
                            found = True
                        else:
                            problems.append('%s 1 is taken for associativity %s' % ('+' if op == 'Add' else '-', sorted(vs)))
                    continue
                problems.append('the direction of the right binding power also depends on a %s test (bb%d)' % (kind, sb))
            if not found and not problems:
                problems.append('%s 1 is not guarded by a test that the associativity is %s' % ('+' if op == 'Add' else '-', want))
        if problems:
            obs.append(bad('WASSOC', key, '; '.join(sorted(set(problems))), b.where(), body=b.name))
        else:
            obs.append(ok('WASSOC', key, 'right = left + 1 iff associativity is LEFT, right = left - 1 iff RIGHT; nothing else decides the direction', b.where()))
    obs.append(floor('WASSOC', 'binding-power-functions', n, 1, 'associativity must be turned into binding powers somewhere'))
    return obs


# ----------------------------------------------------------------------------- "no extra gating"

def gates_of(body, target_bb):
    """switch blocks one of whose edges edge-dominates target_bb: [(switch bb, kind, detail)]
    kind: 'try' (discriminant of a Try::branch result), 'option' (discriminant of an Option/Result
    local), 'pred' (bool result of a call; detail = Call), 'cmp' (primitive comparison), 'flag'
    (constant bool flag), 'enum' (discriminant of some other enum; detail = type), 'other'"""
    from r_panic import bool_source
    from r_parse import flag_source
    out = []
    du = defuse(body)
    for sb in sorted(body.live_blocks):
        t = body.blocks[sb]['term']
        if t['k'] != 'switch':
            continue
        succs = {x for v, x in switch_edges(body, sb)}
        live_succs = {x for x in succs if body.blocks[x]['term']['k'] != 'unreachable'}
        if len(live_succs) < 2:
            continue
        if not any(edge_dominates(body, sb, x, target_bb) for x in live_succs):
            continue
        l = op_local(t['discr'])
        defs = du.defs.get(l, []) if l is not None else []
        if len(defs) == 1 and defs[0][2] == 'assign' and defs[0][3]['k'] == 'discr':
            pl = defs[0][3]['pl']
            o = single_origin(trace_local(body, pl['l'], ()))
            ty = pl['ty']
            if o is not None and o.kind == 'callres' and o.data.callee == 'std::ops::Try::branch':
                out.append((sb, 'try', o.data))
            elif ty.startswith('std::option::Option<') or ty.startswith('std::result::Result<'):
                out.append((sb, 'option', o))
            else:
                out.append((sb, 'enum', ty))
            continue
        src = bool_source(body, t['discr'])
        if src is not None:
            out.append((sb, 'pred', src[0]))
            continue
        if flag_source(body, t['discr']) is not None:
            out.append((sb, 'flag', None))
            continue
        ci = _cmp_of_switch(body, sb)
        if ci:
            out.append((sb, 'cmp', ci))
            continue
        # direct switch on a place (e.g. a char or a discriminant read inline)
        out.append((sb, 'other', t.get('dty')))
    return out


def _reaches_registry(prog, uid):
    from analysis import LOCK_CALLS, guard_class
    for bid in prog.reach([uid]):
        for c in prog.by_id[bid].live_calls:
            if (c.callee in LOCK_CALLS or (c.ruid is not None and c.ruid in getattr(prog, 'acq_helpers', ()))) and guard_class(c.term['dest']['ty']) == 'REGISTRY':
                return True
    return False


def _switch_on_current_token(roles, b, sb):
    """the switch in sb discriminates a value of the token type that is read from the parser's own state (the current
    token), not anything built from what was parsed before"""
    from r_parse import TokenFacts
    t = b.blocks[sb]['term']
    l = op_local(t['discr'])
    defs = defuse(b).defs.get(l, []) if l is not None else []
    if len(defs) != 1 or defs[0][2] != 'assign' or defs[0][3]['k'] != 'discr':
        return False
    pl = defs[0][3]['pl']
    if not roles.token_adt or not re.sub(r"<.*$", '', pl.get('ty') or '').endswith(roles.token_adt) or pl['p']:
        return False
    tf = TokenFacts(roles, b)
    return bool(tf._self_view({'k': 'copy', 'pl': {'l': pl['l'], 'p': [], 'ty': pl.get('ty')}}))


def rule_wpostfix(roles):
    """(1) the operand of a prefix operator is parsed by the body that attaches postfix operators
    (postfix binds tighter than prefix); (2) whether a postfix operator is attached depends only on
    the current token being a registered postfix operator — not on what kind of primary preceded it
    (so `(x)++` and `x++` agree)"""
    prog = roles.prog
    obs = []
    post = builders(roles, 'Postfix')
    post_ids = {b.id for b, bb, rv in post}
    obs.append(floor('WPOSTFIX', 'postfix-builder', len(post), 1, 'postfix operators are attached somewhere'))
    # tail-forwarders of the postfix builder
    fam = set(post_ids)
    changed = True
    while changed:
        changed = False
        for b in roles.parse_bodies:
            if b.id in fam:
                continue
            tails = [c for c in b.live_calls if c.ruid in fam and c.dest['l'] == 0 and not c.dest['p']]
            if tails and len([c for c in b.live_calls if c.ruid in {p.id for p in roles.parse_bodies}]) == len(tails):
                fam.add(b.id); changed = True
            elif tails and b.id not in post_ids:
                # `let operand = self.parse_token()?; self.parse_postfix(operand)`: the operand is parsed here and handed to
                # the attaching body, whose result is returned as is — no success return avoids that hand-over
                import r_order
                if not r_order._ok_return_reachable(b, 0, {c.bb for c in tails}):
                    fam.add(b.id); changed = True
    for b, bb, rv in builders(roles, 'Unary'):
        key = 'WPOSTFIX|prefix-operand|%s' % b.name
        o = single_origin(trace_operand(b, rv['ops'][1], through_calls=set(TRANSPARENT_CALLS)))
        while o is not None and o.kind == 'callres' and (o.data.callee or '').endswith('Box::<T>::new'):
            o = single_origin(trace_operand(b, o.data.args[0], through_calls=set(TRANSPARENT_CALLS)))
        if o is not None and o.kind == 'callres' and o.data.ruid in fam:
            obs.append(ok('WPOSTFIX', key, 'the prefix operand is parsed by the postfix-attaching body: `-x++` is -(x++)', b.where(bb)))
        else:
            obs.append(bad('WPOSTFIX', key, 'the operand of a prefix operator is not parsed by the body that attaches postfix operators (%r): a postfix operator then applies to the whole prefix expression, `-x++` becomes (-x)++' % o, b.where(bb), body=b.name, bb=bb))
    for b, bb, rv in post:
        key = 'WPOSTFIX|gate|%s' % b.name
        extra = []
        n_pred = 0
        for sb, kind, detail in gates_of(b, bb):
            if kind == 'try':
                continue
            if kind == 'pred' and detail.ruid is not None and _reaches_registry(prog, detail.ruid):
                n_pred += 1
                continue
            if kind == 'enum' and _switch_on_current_token(roles, b, sb):
                continue        # `match self.cur_tok() { Token::Operator(op, _) if is_postfix_op(op) => .. }`: the kind of the *current token*
            extra.append('bb%d: %s %s' % (sb, kind, (detail.rdef or detail.callee) if kind == 'pred' else (detail if isinstance(detail, str) else '')))
        if extra:
            obs.append(bad('WPOSTFIX', key, 'attaching a postfix operator also depends on %s: what precedes the operator (e.g. a parenthesised operand) changes the parse' % '; '.join(extra), b.where(bb), body=b.name, bb=bb))
        elif n_pred == 0:
            obs.append(bad('WPOSTFIX', key, 'a Postfix node is built without testing that the current token is a registered postfix operator', b.where(bb), body=b.name, bb=bb))
        else:
            obs.append(ok('WPOSTFIX', key, 'a postfix operator is attached iff the current token is a registered postfix operator; nothing else gates it', b.where(bb)))
        # every primary form goes through that test: a success return that avoids it (`Delim(OpenParen) => return self.parse_open_paren()`)
        # makes the parenthesised operand the one primary a postfix operator cannot follow
        import r_order
        tests = {sb for sb, kind, detail in gates_of(b, bb) if kind == 'pred' and detail.ruid is not None and _reaches_registry(prog, detail.ruid)}
        k2 = 'WPOSTFIX|gate|all-primaries|%s' % b.name
        if tests:
            # the test may be composite: "the current token is an operator" (switch on its kind) and "that operator is a registered postfix operator"
            tests |= {sb for sb, kind, detail in gates_of(b, bb) if kind == 'enum' and _switch_on_current_token(roles, b, sb)}
        if tests:
            if r_order._ok_return_reachable(b, 0, tests):
                obs.append(bad('WPOSTFIX', k2, 'the body that attaches postfix operators can return a primary without testing for a postfix operator: that form of operand (e.g. a parenthesised one) cannot be followed by one, `(x)++` and `x++` differ', b.where(bb), body=b.name, bb=bb))
            else:
                obs.append(ok('WPOSTFIX', k2, 'every success return of the postfix-attaching body passes the postfix-operator test', b.where(bb)))
    return obs


def _munch_pred_pure(prog, uid):
    """the registry membership test that gates the extension answers from the registries alone: no body it can reach
    refers to a static that is not one of the engine's known cells (a remembered answer - a miss / hit cache - is only
    right until the next registration, and `registered` in `longest registered operator` means registered *now*)"""
    import r_misc
    sid = {s['id']: s for s in prog.f.statics}
    g = prog.by_id[uid]
    obs = []
    n = 0
    for bid in sorted(prog.reach([uid])):
        b = prog.by_id[bid]
        n += 1
        for bb, i, pl, rv in b.assigns():
            ops = [rv.get('op')] if rv['k'] in ('use', 'cast') else (rv.get('ops', []) if rv['k'] == 'agg' else [])
            for o in ops:
                if isinstance(o, dict) and o.get('k') == 'const' and 'static' in o:
                    s = sid.get(o['static'])
                    if s is not None and (s.get('thread_local') or r_misc.classify_static(s) == 'OTHER'):
                        obs.append(bad('MUNCH', 'MUNCH|pure|%s|%s' % (g.name, s['name']),
                                       'the operator-membership test %s (which decides how far a symbolic operator extends) reaches static %s through %s: that is not a registry, so the answer '
                                       'can be one remembered from before a registration (an operator probed earlier is split / a replaced one still matched)' % (g.name, s['name'], b.name), b.where(bb), body=b.name, bb=bb))
    if not obs:
        obs.append(ok('MUNCH', 'MUNCH|pure|%s' % g.name, 'the operator-membership test %s reaches %d bodies, none of which refers to a static other than the registries / once flag: it answers from the current registry contents' % (g.name, n), g.where(0)))
    return obs


def rule_munch(roles, tm):
    first = _rule_munch(roles, tm, roles.token_bodies())
    if not any(o.status == 'violated' for o in first):
        return first
    second = _rule_munch(roles, tm, roles.token_bodies(views='ho'))
    from engine import covers
    if covers(first, second) and not any(o.status == 'violated' for o in second):
        for o in second:
            o.what += ' [read with higher-order helpers opened]'
        return second
    return first


def _rule_munch(roles, tm, bodies):
    """symbolic-operator scanner: the run is extended exactly while the longer slice is a registered
    operator (longest registered operator wins); no other condition cuts the run short"""
    prog = roles.prog
    obs = []
    n = 0
    pure_done = set()
    for b in bodies:
        if not any(rv['k'] == 'agg' and rv.get('adt') == roles.token_adt and rv.get('variant') == 'Operator' for bb, i, pl, rv in b.assigns()):
            continue
        advs = [c for c in b.live_calls if c.ruid in tm.char_adv and any(c.bb in s for s in b.sccs())]
        regpreds = [c for c in b.live_calls if c.ruid is not None and prog.by_id[c.ruid].locals[0]['ty'] == 'bool' and _reaches_registry(prog, c.ruid)]
        if not advs or not regpreds:
            continue
        n += 1
        for k, a in enumerate(advs):
            key = 'MUNCH|%s|#%d' % (b.name, k)
            extra = []
            has_reg = False
            preds_seen = set()
            for sb, kind, detail in gates_of(b, a.bb):
                if kind in ('try', 'option'):
                    continue
                if kind == 'pred' and detail.ruid is not None and _reaches_registry(prog, detail.ruid):
                    # a registry *membership test of the candidate text*: the predicate is handed a str (the longer
                    # slice) and nothing of the scanner; a predicate that also sees the scanner can look at what
                    # follows the operator (layout, the next token) and is a further condition
                    g = prog.by_id[detail.ruid]
                    if not any((roles.tok_name or '\0') in g.locals[k]['ty'] for k in range(1, g.arg_count + 1)):
                        has_reg = True
                        preds_seen.add(detail.ruid)
                        continue
                extra.append('bb%d: %s %s' % (sb, kind, (detail.rdef or detail.callee) if kind == 'pred' else (detail if isinstance(detail, str) else '')))
            for pu in sorted(preds_seen - pure_done):
                pure_done.add(pu)
                obs.extend(_munch_pred_pure(prog, pu))
            if extra:
                obs.append(bad('MUNCH', key, 'extending a symbolic operator also depends on %s: a registered operator containing such a character is split (not the longest registered operator)' % '; '.join(extra), a.where(), body=b.name, bb=a.bb))
            elif not has_reg:
                obs.append(bad('MUNCH', key, 'the symbolic-operator run is extended without consulting the operator registry', a.where(), body=b.name, bb=a.bb))
            else:
                obs.append(ok('MUNCH', key, 'the run is extended iff the longer slice is a registered operator (and input remains)', a.where()))
    obs.append(floor('MUNCH', 'symbolic-scanners', n, 1, 'symbolic operators are scanned by maximal munch against the registry'))
    return obs
