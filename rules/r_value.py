"""TACC, TFROM, ERRD-lossy, HTYPED (C03, C17)."""
import re
from facts import op_local, op_place, Call
from analysis import (defuse, trace_operand, trace_local, single_origin, TRANSPARENT_CALLS, TRY_BRANCH)
from engine import ok, bad, assumed, floor
import r_errd
from r_panic import edge_dominates, switch_edges, TOTAL_CTORS

VALUE = 'value::Value'
THROUGH = set(TRANSPARENT_CALLS) | {'std::string::ToString::to_string', 'std::borrow::ToOwned::to_owned', 'std::convert::Into::into',
                                    'std::convert::From::from', 'std::clone::Clone::clone'}
NUMERIC = {'i8', 'i16', 'i32', 'i64', 'i128', 'isize', 'u8', 'u16', 'u32', 'u64', 'u128', 'usize', 'f32', 'f64', 'rust_decimal::Decimal'}


def value_adt(prog):
    return prog.f.adt_by_name.get(VALUE)


def accessors(prog):
    """typed accessors of Value: public inherent methods taking self by value and returning the
    crate Result"""
    out = []
    for b in prog.bodies:
        if b.impl_self == VALUE and not b.impl_trait and b.is_pub and b.arg_count == 1 and b.locals[1]['ty'] == VALUE \
                and r_errd.is_crate_result(b.locals[0]['ty']):
            out.append(b)
    return out


def _own_variant(adt, ret_ty):
    m = re.match(r'^std::result::Result<(.*), error::Error>$', ret_ty)
    if not m:
        return None
    t = m.group(1)
    for v in adt['variants']:
        if len(v['fields']) == 1 and v['fields'][0]['ty'] == t:
            return v['name']
    if t in NUMERIC:
        for v in adt['variants']:
            if len(v['fields']) == 1 and v['fields'][0]['ty'] == 'rust_decimal::Decimal':
                return v['name']
    return None


def _variant_region(body, adt):
    """for the switch on discriminant(self): {variant name: target block}, otherwise target"""
    du = defuse(body)
    names = [v['name'] for v in adt['variants']]
    for bb in sorted(body.live_blocks):
        t = body.blocks[bb]['term']
        if t['k'] != 'switch':
            continue
        l = op_local(t['discr'])
        defs = du.defs.get(l, []) if l is not None else []
        if len(defs) == 1 and defs[0][2] == 'assign' and defs[0][3]['k'] == 'discr':
            o = single_origin(trace_local(body, defs[0][3]['pl']['l'], ()))
            if o is not None and o.kind == 'param' and o.data == 1 and not o.proj:
                m = {names[v]: tb for v, tb in t['targets'] if v < len(names)}
                return bb, m, t['otherwise']
    return None


def _success_blocks(body, prog):
    """blocks where the return value may become a success: `_0 = Ok(..)`, or `_0 = call(..)` of
    anything but from_residual"""
    out = []
    for bb, i, pl, rv in body.assigns():
        if pl['l'] == 0 and not pl['p']:
            if rv['k'] == 'agg' and rv.get('variant') in ('Err', 'None'):
                continue
            out.append(bb)
    for c in body.live_calls:
        if c.dest['l'] == 0 and not c.dest['p'] and c.callee != 'std::ops::FromResidual::from_residual':
            out.append(c.bb)
    return out


def rule_tacc(prog):
    adt = value_adt(prog)
    obs = []
    if adt is None:
        return [bad('TACC', 'TACC|anchor', 'anchor lost: public enum value::Value not found')]
    accs = accessors(prog)
    for b0 in accs:
        first = _tacc_one(prog, adt, b0)
        if any(o.status == 'violated' for o in first):
            v = prog.view(b0)       # the variant switch may sit in a private helper shared by several accessors
            if v is not b0:
                second = _tacc_one(prog, adt, v)
                if not any(o.status == 'violated' for o in second):
                    for o in second:
                        o.what += ' [read with helpers inlined]'
                    first = second
        obs += first
    obs.append(floor('TACC', 'accessors', len(accs), 6, 'decimal, integer, float, bool, string, list'))
    return obs


def _tacc_one(prog, adt, b):
    obs = []
    if True:
        short = b.name.split('::')[-1]
        key = 'TACC|%s' % short
        own = _own_variant(adt, b.locals[0]['ty'])
        vr = _variant_region(body=b, adt=adt)
        if own is not None and vr is None:
            # delegation: `integer()` = `self.decimal()` + a conversion of the payload; it can succeed only where the
            # accessor it hands self to succeeded, provided that accessor's failure leads only to failure here
            oid = getattr(b, 'orig_id', b.id)
            acc_ids = {a.id: a for a in accessors(prog)}
            dels = []
            for c in b.live_calls:
                if c.ruid in acc_ids and c.ruid != oid and c.args:
                    so = single_origin(trace_operand(b, c.args[0], through_calls=set()))
                    if so is not None and so.kind == 'param' and so.data == 1 and not so.proj:
                        dels.append(c)
            if len(dels) == 1 and _own_variant(adt, acc_ids[dels[0].ruid].locals[0]['ty']) == own:
                c = dels[0]
                good = False
                for sb in sorted(b.live_blocks):
                    t = b.blocks[sb]['term']
                    if t['k'] != 'switch':
                        continue
                    do = single_origin(trace_operand(b, t['discr'], through_calls=set()))
                    if do is None or do.kind != 'discr':
                        continue
                    xo = single_origin(trace_operand(b, {'k': 'copy', 'pl': do.data[2]['pl']}, through_calls=set())) if isinstance(do.data, tuple) else None
                    if xo is None or xo.kind != 'callres' or xo.proj or xo.data.bb != c.bb:
                        continue
                    err_t = [tb for v, tb in t['targets'] if v == 1] or [t['otherwise']]
                    okk, why = r_errd.returns_failure_only(b, err_t[0])
                    good = okk and b.dominates(sb, sb) and all(b.dominates(sb, x) for x in _success_blocks(b, prog))
                cls, _ = r_errd.consume(b, c)
                if good or cls in ('try', 'tail'):
                    obs.append(ok('TACC', key, '%s() hands self to %s() and can succeed only where that succeeded (its failure reaches only failure returns)' % (short, acc_ids[c.ruid].name.split('::')[-1]), b.where()))
                    return obs
        if own is None or vr is None:
            obs.append(bad('TACC', key, 'accessor %s: cannot determine its own variant / it does not switch on the variant of self' % b.name, b.where(), body=b.name))
            return obs
        sb, m, other = vr
        succ = _success_blocks(b, prog)
        accepting = set()
        for vname, tb in m.items():
            if any(x in b.reachable_from(tb) and edge_dominates(b, sb, tb, x) or x == tb for x in succ):
                accepting.add(vname)
        # success reachable through the otherwise edge = every unlisted variant accepted
        other_reach = b.reachable_from(other)
        unlisted = [v['name'] for v in adt['variants'] if v['name'] not in m]
        if any(x in other_reach and not any(edge_dominates(b, sb, tb, x) for tb in m.values()) for x in succ):
            accepting |= set(unlisted)
        if accepting == {own}:
            obs.append(ok('TACC', key, '%s() succeeds only on the %s edge of the variant switch; every other variant reaches an Err' % (short, own), b.where()))
        else:
            obs.append(bad('TACC', key, '%s() can succeed for variant(s) %s (its own variant is %s): a wrongly typed value is coerced instead of rejected' % (short, sorted(accepting), own), b.where(), body=b.name))
        # payload identity for the non-numeric accessors: Ok(payload moved out of self)
        ret = re.match(r'^std::result::Result<(.*), error::Error>$', b.locals[0]['ty']).group(1)
        vdef = [v for v in adt['variants'] if v['name'] == own][0]
        if vdef['fields'][0]['ty'] == ret:
            k2 = 'TACC|payload|%s' % short
            good = True
            for bb, i, pl, rv in b.assigns():
                if pl['l'] == 0 and not pl['p'] and rv['k'] == 'agg' and rv.get('variant') == 'Ok':
                    o = single_origin(trace_operand(b, rv['ops'][0], through_calls=set()))
                    if not (o is not None and o.kind == 'param' and o.data == 1 and o.proj == (('dc', own), ('f', 0))):
                        good = False
            if good:
                obs.append(ok('TACC', k2, '%s() returns the payload of %s moved out unchanged' % (short, own), b.where()))
            else:
                obs.append(bad('TACC', k2, '%s() does not return the unchanged payload of %s' % (short, own), b.where(), body=b.name))
    return obs


def from_impls(prog):
    return [b for b in prog.bodies if b.impl_self == VALUE and b.impl_trait == 'std::convert::From']


def rule_tfrom(prog):
    """non-numeric From<T> for Value: one aggregate of the matching variant around the parameter
    (or its owned copy)"""
    adt = value_adt(prog)
    obs = []
    n = 0
    for b in from_impls(prog):
        src = b.locals[1]['ty']
        key = 'TFROM|From<%s>' % src
        if src in NUMERIC and src != 'rust_decimal::Decimal':
            continue
        n += 1
        aggs = [(bb, rv) for bb, i, pl, rv in b.assigns() if pl['l'] == 0 and not pl['p']]
        if len(aggs) != 1 or aggs[0][1]['k'] != 'agg' or aggs[0][1].get('adt') != VALUE or len(aggs[0][1]['ops']) != 1:
            obs.append(bad('TFROM', key, 'From<%s> for Value is not a single wrap of its argument' % src, b.where(), body=b.name))
            continue
        rv = aggs[0][1]
        vdef = [v for v in adt['variants'] if v['name'] == rv['variant']][0]
        o = single_origin(trace_operand(b, rv['ops'][0], through_calls=THROUGH))
        want = {'&str': 'std::string::String', "&'a str": 'std::string::String'}.get(src, src)
        problems = []
        if o is None or o.kind != 'param' or o.data != 1 or o.proj:
            problems.append('the payload is not the argument itself (or its owned copy)')
        if vdef['fields'][0]['ty'] != want:
            problems.append('wrapped in variant %s whose payload type %s does not match %s' % (rv['variant'], vdef['fields'][0]['ty'], want))
        # only ownership-taking calls between the argument and the aggregate
        for c in b.live_calls:
            nm = c.callee or ''
            if nm not in THROUGH and not nm.startswith('std::string::String::from') and nm not in ('std::str::<impl str>::to_owned', 'std::string::ToString::to_string', 'alloc::str::<impl str>::to_owned'):
                problems.append('calls %s on the way' % (c.rdef or nm))
        if problems:
            obs.append(bad('TFROM', key, 'From<%s>: %s' % (src, '; '.join(problems)), b.where(), body=b.name))
        else:
            obs.append(ok('TFROM', key, 'From<%s> wraps the argument unchanged in Value::%s' % (src, rv['variant']), b.where()))
    obs.append(floor('TFROM', 'non-numeric-from-impls', n, 5, '&str, String, bool, Vec<Value>, Decimal'))
    return obs


CTOR_RE = r'FromPrimitive>?::from_\w+$|::try_from$|::from_str|::from_f\d+_retain$'


def _value_aggs(b):
    return [rv for bb, i, pl, rv in b.assigns() if rv['k'] == 'agg' and rv['agg'] == 'adt' and rv.get('adt') == VALUE]


def rule_lossy(prog):
    """numeric From<T> for Value: the fallible constructor's failure must not be defaulted unless
    the constructor is total for T"""
    obs = []
    n = 0
    for b in from_impls(prog):
        src = b.locals[1]['ty']
        if src not in NUMERIC or src == 'rust_decimal::Decimal':
            continue
        n += 1
        key = 'LOSSY|From<%s>' % src
        calls = [c for c in b.live_calls if re.search(CTOR_RE, c.rdef or c.callee or '')]
        # the payload must trace to the parameter through exactly one constructor
        aggs = [rv for bb, i, pl, rv in b.assigns() if pl['l'] == 0 and not pl['p'] and rv['k'] == 'agg']
        if len(calls) != 1 or len(aggs) != 1:
            # the conversion may sit in a private helper: read the body with helpers inlined
            v = prog.view(b)
            if v is not b:
                vcalls = [c for c in v.live_calls if re.search(CTOR_RE, c.rdef or c.callee or '')]
                if len(vcalls) == 1 and len(_value_aggs(v)) == 1:
                    b, calls, aggs = v, vcalls, _value_aggs(v)
        if len(calls) != 1 or len(aggs) != 1:
            casts = [rv for bb, i, pl, rv in b.assigns() if rv['k'] == 'cast' and rv['cast'] in ('IntToInt', 'FloatToInt', 'IntToFloat', 'FloatToFloat')]
            if casts:
                obs.append(bad('LOSSY', key, 'From<%s> converts through an `as` cast (%s -> %s): silently lossy' % (src, casts[0]['from'], casts[0]['to']), b.where(), body=b.name))
            else:
                obs.append(bad('LOSSY', key, 'From<%s>: cannot identify the single numeric constructor' % src, b.where(), body=b.name))
            continue
        c = calls[0]
        ck = c.rdef or c.callee
        a0 = single_origin(trace_operand(b, c.args[0], through_calls=set()))
        if a0 is None or a0.kind != 'param' or a0.data != 1 or a0.proj:
            obs.append(bad('LOSSY', key, 'From<%s>: the constructor is not applied to the argument itself' % src, c.where(), body=b.name))
            continue
        cls, detail = r_errd.consume(b, c)
        if ck in TOTAL_CTORS:
            # the constructor's parameter type must be the source type (no widening/narrowing before)
            obs.append(ok('LOSSY', key, 'From<%s> uses %s, total for this type (%s); the default is unreachable' % (src, ck.split('::')[-1], TOTAL_CTORS[ck]), c.where()))
        elif cls in ('defaulted', 'dropped', 'tested-only'):
            obs.append(bad('LOSSY', key, 'From<%s> replaces the failure of %s by a default (%s): values the decimal cannot hold silently become another number' % (src, ck.split('::')[-1], detail), c.where(), body=b.name))
        else:
            obs.append(ok('LOSSY', key, 'From<%s>: result of %s is %s' % (src, ck.split('::')[-1], cls), c.where()))
    obs.append(floor('LOSSY', 'numeric-from-impls', n, 10, 'the ten 8..64-bit integer types at least'))
    return obs


# ----------------------------------------------------------------------------- HTYPED

def rule_htyped(prog, handlers):
    """in every built-in handler, every Value-typed local is consumed only through a type gate:
    a TACC accessor (result ?-propagated), a discriminant switch whose non-selected arms fail,
    PartialEq for Value, or the unchanged return value"""
    acc_ids = {b.id for b in accessors(prog)}
    adt = value_adt(prog)
    names = [v['name'] for v in adt['variants']]
    obs = []
    for h0 in handlers:
        one = _htyped_one(prog, h0, acc_ids, names)
        if one.status == 'violated':
            # an operand handed to a private helper (`fold_bool_list(param, ..)`) is judged where the helper uses it
            v = prog.view(h0, keep=lambda g: g.is_pub or bool(g.impl_trait), tag='handler')
            if v is not h0:
                two = _htyped_one(prog, v, acc_ids, names)
                if two.status != 'violated':
                    two.what += ' [read with helpers inlined]'
                    one = two
        obs.append(one)
    return obs


def _htyped_one(prog, h, acc_ids, names):
    if True:
        key = 'HTYPED|%s' % h.name
        problems = []
        n_vals = 0
        produced = _produced_values(h)
        for l, loc in enumerate(h.locals):
            if loc['ty'] != VALUE or l == 0:
                continue
            if l in produced:
                continue   # a Value the handler itself builds (its result)
            n_vals += 1
            for (bb, i, how) in r_errd.uses_of_local(h, l):
                k = how[0]
                if k == 'arg':
                    cc, argk = how[1], how[2]
                    if cc.ruid in acc_ids:
                        cls, _ = r_errd.consume(h, cc)
                        if cls not in ('try', 'tail', 'match'):
                            problems.append('accessor result at %s is %s' % (cc.where(), cls))
                    elif cc.callee in ('std::cmp::PartialEq::eq', 'std::cmp::PartialEq::ne') and all(VALUE in a for a in cc.fn['args'][:2]):
                        pass
                    elif cc.callee == 'std::mem::drop':
                        pass
                    else:
                        problems.append('operand passed to %s (%s): not a typed accessor' % (cc.rdef or cc.callee, cc.where()))
                elif k == 'move':
                    pass   # the destination local is Value-typed too and is checked itself
                elif k == 'ref':
                    # &v passed to eq/ne, or to an accessor by reference
                    for (b2, i2, h2) in r_errd.uses_of_local(h, how[1]):
                        if h2[0] == 'arg':
                            cc = h2[1]
                            if cc.callee in ('std::cmp::PartialEq::eq', 'std::cmp::PartialEq::ne') and cc.fn and all(VALUE in a for a in cc.fn['args'][:2]):
                                continue
                            if cc.callee == 'std::clone::Clone::clone':
                                continue
                            problems.append('&operand passed to %s (%s)' % (cc.rdef or cc.callee, cc.where()))
                        elif h2[0] in ('move', 'ref'):
                            pass
                elif k == 'discr':
                    # match on the operand: arms that extract no payload must fail
                    res = _discr_gate(h, l, how[1], names)
                    if res:
                        problems.append(res)
                elif k in ('field', 'drop', 'switch'):
                    pass
                elif k == 'agg':
                    rv = how[2]
                    if rv.get('variant') == 'Ok' or rv['agg'] == 'tuple':
                        pass   # returned unchanged / argument tuple
                    else:
                        problems.append('operand stored into %s' % rv.get('adt', rv['agg']))
                elif k == 'store':
                    pass
                else:
                    problems.append('operand used by %s' % (k,))
        if problems:
            return bad('HTYPED', key, 'a built-in handler consumes an operand without a type gate: %s' % '; '.join(sorted(set(problems))[:4]), h.where(), body=h.name)
        return ok('HTYPED', key, '%d Value operand(s): each consumed only via typed accessor + ?, failing variant match, Value equality or unchanged return' % n_vals, h.where())


def rule_hgate(prog, handlers):
    """an operand that a built-in handler type-checks at all is type-checked on every path to an Ok result: no Ok
    return is reachable from the handler's entry without passing a typed accessor (or variant match) on that
    operand — `false && 3` must fail like `3 && false` does"""
    import r_order
    acc_ids = {b.id for b in accessors(prog)}
    obs = []
    for h in handlers:
        base = 2 if h.is_closure else 1
        for p in range(base, h.arg_count + 1):
            if h.locals[p]['ty'] != VALUE:
                continue
            gates = set()
            for c in h.live_calls:
                if c.ruid in acc_ids and c.args:
                    o = single_origin(trace_operand(h, c.args[0], through_calls={'std::clone::Clone::clone'}))
                    if o is not None and o.kind == 'param' and o.data == p and not o.proj:
                        gates.add(c.bb)
            for bb in sorted(h.live_blocks):
                t = h.blocks[bb]['term']
                if t['k'] == 'switch':
                    o = single_origin(trace_operand(h, t['discr'], through_calls=set()))
                    if o is not None and o.kind == 'discr':
                        oo = single_origin(trace_local(h, o.data[2]['pl']['l'], ()))
                        if oo is not None and oo.kind == 'param' and oo.data == p and not oo.proj:
                            gates.add(bb)
            if not gates:
                continue
            which = {0: 'left / only', 1: 'right'}.get(p - base, '#%d' % (p - base))
            key = 'HGATE|%s|%d' % (h.name, p - base)
            if r_order._ok_return_reachable(h, 0, gates):
                obs.append(bad('HGATE', key, 'an Ok result is reachable without type-checking the %s operand, although other paths do check it: an operand of the wrong type is accepted when the other operand settles the result' % which, h.where(), body=h.name))
            else:
                obs.append(ok('HGATE', key, 'every Ok path type-checks the %s operand' % which, h.where()))
    return obs


def _produced_values(h):
    """Value-typed locals that are built by the handler (aggregate / From::from / into)"""
    out = set()
    for bb, i, pl, rv in h.assigns():
        if not pl['p'] and h.locals[pl['l']]['ty'] == VALUE and rv['k'] == 'agg':
            out.add(pl['l'])
    for c in h.live_calls:
        if not c.dest['p'] and h.locals[c.dest['l']]['ty'] == VALUE:
            if c.callee in ('std::convert::From::from', 'std::convert::Into::into') or (c.callee or '').startswith('value::Value::'):
                out.add(c.dest['l'])
    # moves of produced values
    changed = True
    while changed:
        changed = False
        for bb, i, pl, rv in h.assigns():
            if rv['k'] == 'use' and op_local(rv['op']) in out and not pl['p'] and pl['l'] not in out and h.locals[pl['l']]['ty'] == VALUE:
                out.add(pl['l']); changed = True
    return out


def _returns_operand_unchanged(h, tb):
    """every return reachable from tb carries Ok(<an operand of the handler, moved unchanged>)"""
    reach = h.reachable_from(tb)
    seen = 0
    for b in reach:
        blk = h.blocks[b]
        t = blk['term']
        if t['k'] == 'call' and t['dest']['l'] == 0 and not t['dest']['p']:
            return False
        for st in blk['stmts']:
            if st['k'] == 'assign' and st['pl']['l'] == 0 and not st['pl']['p']:
                rv = st['rv']
                if not (rv['k'] == 'agg' and rv.get('variant') == 'Ok' and len(rv.get('ops', [])) == 1):
                    return False
                x = op_local(rv['ops'][0])
                hops = 0
                while x is not None and not (1 <= x <= h.arg_count) and hops < 6:
                    defs = [(pl, r) for _, _, pl, r in h.assigns() if pl['l'] == x and not pl['p']]
                    if len(defs) != 1 or defs[0][1]['k'] != 'use' or op_place(defs[0][1]['op']) is None or op_place(defs[0][1]['op'])['p']:
                        return False
                    x = op_local(defs[0][1]['op']); hops += 1
                if x is None or not (1 <= x <= h.arg_count) or h.locals[x]['ty'] != VALUE:
                    return False
                seen += 1
    return seen > 0


def _discr_gate(h, l, dl, names):
    for bb in sorted(h.live_blocks):
        t = h.blocks[bb]['term']
        if t['k'] == 'switch' and op_local(t['discr']) == dl:
            listed = {v for v, _ in t['targets']}
            # arms: every target. An arm is "selected" if the payload of that variant is read in its region.
            arms = [(v, tb) for v, tb in t['targets']] + [('otherwise', t['otherwise'])]
            for v, tb in arms:
                region = h.reachable_from(tb)
                extracts = False
                for b2 in region:
                    for st in h.blocks[b2]['stmts']:
                        if st['k'] == 'assign':
                            for op in ([st['rv'].get('op')] if st['rv']['k'] in ('use', 'cast') else []):
                                opl = op_place(op) if isinstance(op, dict) else None
                                if opl and opl['l'] == l and any(isinstance(e, dict) and 'dc' in e for e in opl['p']):
                                    extracts = True
                            if st['rv']['k'] == 'ref' and st['rv']['pl']['l'] == l and any(isinstance(e, dict) and 'dc' in e for e in st['rv']['pl']['p']):
                                extracts = True
                if extracts and v != 'otherwise':
                    continue
                if h.blocks[tb]['term']['k'] == 'unreachable':
                    continue
                okk, why = r_errd.returns_failure_only(h, tb)
                if not okk and _returns_operand_unchanged(h, tb):
                    continue       # `None => Ok(right)`: the arm hands an operand back as it is, nothing is read as another type
                if not okk:
                    return 'variant match: the arm for %s does not fail (%s)' % (names[v] if v != 'otherwise' and v < len(names) else 'the other variants', why)
            return None
    if not list(r_errd.uses_of_local(h, dl)):
        return None        # a discriminant read whose result is never used (drop elaboration leaves these): not a consumption
    return 'discriminant read without a switch'
